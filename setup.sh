#!/bin/sh
# Build the overlay venv used by every check: /venv's interpreter and site-packages (torch, numpy,
# scipy, h5py, the editable PYSEQM install pointing at /repo) plus the solver tooling from the offline
# wheelhouse (z3-solver, cvc5, crosshair-tool, sympy).  Idempotent; safe to call from every check.
set -e
HERE="$(cd "$(dirname "$0")" && pwd)"
VENV="$HERE/.venv"
STAMP="$VENV/.ok3"
if [ -f "$STAMP" ]; then exit 0; fi
(
  flock 9
  if [ -f "$STAMP" ]; then exit 0; fi
  rm -rf "$VENV"
  /venv/bin/python -m venv "$VENV"
  SP="$("$VENV/bin/python" -c 'import sysconfig;print(sysconfig.get_paths()["purelib"])')"
  printf '%s\n%s\n' "/venv/lib/python3.12/site-packages" "/repo" > "$SP/zz_overlay.pth"
  PIP_NO_INDEX=1 "$VENV/bin/python" -m pip install -q --no-index --find-links /opt/veriftools/wheels \
      z3-solver cvc5 crosshair-tool sympy jsonschema >/dev/null
  "$VENV/bin/python" - <<'EOF'
import z3, cvc5, crosshair, sympy, torch, numpy, seqm, jsonschema
print("overlay ok: z3", z3.get_version_string(), "torch", torch.__version__, "seqm", seqm.__file__)
EOF
  touch "$STAMP"
) 9>"$HERE/.setup.lock"
