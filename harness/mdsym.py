"""helpers to run the real MD engine methods on symbolic tensors (engine E1)"""
import types

import numpy as np
import torch
import z3

from engine import symtorch as S
from engine.symtorch import SymTensor


class ForceField(torch.nn.Module):
    """stand-in electronic-structure driver: an *uninterpreted* force field.  Each call returns fresh force symbols; the
    congruence axiom (same coordinates => same force) is recorded so that a revisited geometry gets the same force."""

    calls = []  # [(coords object array, force object array)]

    def __init__(self, *a, **k):
        super().__init__()
        self.conservative_force = types.SimpleNamespace(energy=types.SimpleNamespace(md=False, excited_states=None))
        self.device = torch.device("cpu")

    def forward(self, molecule, *a, **k):
        x = molecule.coordinates.a.copy() if isinstance(molecule.coordinates, SymTensor) else S.to_obj(molecule.coordinates)
        n = len(ForceField.calls)
        f = S.reals("F%d" % n, x.shape)
        for xo, fo in ForceField.calls:
            same = z3.And(*[a_ == b_ for a_, b_ in zip(xo.reshape(-1), x.reshape(-1))])
            for a_, b_ in zip(fo.reshape(-1), f.reshape(-1)):
                S.ST.congr.append(z3.Implies(same, a_ == b_))
        ForceField.calls.append((x, f))
        molecule.force = SymTensor(f.copy())
        molecule.Etot = SymTensor(S.reals("Etot%d" % n, (x.shape[0],)))


def install_forcefield():
    import seqm.MolecularDynamics as MD

    ForceField.calls = []
    MD.esdriver = ForceField
    return MD


def make_md(cls_name, timestep=0.5, Temp=300.0, **kw):
    MD = install_forcefield()
    p = {"method": "AM1", "scf_eps": 1e-6, "scf_converger": [1], "elements": [0, 1, 8]}
    cls = getattr(MD, cls_name)
    out = {"molid": [0], "prefix": "x", "h5": {}}
    return cls(seqm_parameters=p, timestep=timestep, Temp=Temp, output=out, **kw)


def sym_molecule(species, name="", concrete_coords=None, sym_mass=True):
    """namespace with the attributes the MD layer touches; velocities/coordinates/masses symbolic"""
    from seqm.seqm_functions.constants import Constants

    const = Constants()
    sp = torch.as_tensor(species)
    nmol, molsize = sp.shape
    real = sp > 0
    if sym_mass:
        m = S.reals("m" + name, (nmol, molsize, 1))
        minv = np.empty((nmol, molsize, 1), dtype=object)
        for b in range(nmol):
            for a in range(molsize):
                if real[b, a]:
                    minv[b, a, 0] = 1 / m[b, a, 0]
                else:
                    m[b, a, 0] = z3.RealVal(0)
                    minv[b, a, 0] = z3.RealVal(0)
        mass, mass_inverse = SymTensor(m), SymTensor(minv)
        mass_pos = [m[b, a, 0] > 0 for b in range(nmol) for a in range(molsize) if real[b, a]]
    else:
        mass = S.const(const.mass[sp].unsqueeze(2))
        mi = torch.zeros_like(const.mass[sp].unsqueeze(2))
        mi[real] = 1.0 / const.mass[sp].unsqueeze(2)[real]
        mass_inverse = S.const(mi)
        mass_pos = []
    x = S.sym("x" + name, (nmol, molsize, 3)) if concrete_coords is None else S.const(torch.as_tensor(concrete_coords, dtype=torch.float64))
    mol = types.SimpleNamespace(
        const=types.SimpleNamespace(do_timing=False, label=const.label),
        species=sp,
        nmol=nmol,
        molsize=molsize,
        num_atoms=real.sum(dim=1).to(torch.float64),
        coordinates=x,
        velocities=S.sym("v" + name, (nmol, molsize, 3)),
        acc=None,
        force=None,
        mass=mass,
        mass_inverse=mass_inverse,
        dm=None,
        cis_amplitudes=None,
        active_state=0,
        Etot=None,
        verbose=False,
    )
    return mol, real, mass_pos
