"""C10 — a run killed at any instant and resumed equals the uninterrupted run (engine E2: CrossHair)."""
from .common import *  # noqa: F401,F403
from .common import obligation, HarnessError
from engine import chrun

PID = "C10"
FINDING = "C10-xyz-duplicate-frames"


def make_slice(name, cfg, ev_range, second=None, ignore=(), post="_", timeout_s=500):
    from . import md_props as P

    prelude = "from harness import md_props as P, mdsim as M\nM.install(); M.make_molecule(1); P.crash_reference(%d)\n" % cfg
    if second is None:
        sig = "ev: int, hard: bool"
        pre = "%d <= ev <= %d" % ev_range
        body = "return P.crash_ok(%d, ev, hard, ignore=%r)" % (cfg, tuple(ignore))
    else:
        sig = "ev: int, hard: bool, ev2: int, hard2: bool"
        pre = "%d <= ev <= %d and %d <= ev2 <= %d" % (ev_range + second)
        body = "return P.crash_ok(%d, ev, hard, ev2, hard2, ignore=%r)" % (cfg, tuple(ignore))
    sl = chrun.Slice(name, prelude, sig, pre, body, post, timeout_s)
    sl.meta = dict(cfg=cfg, second=second is not None, ignore=tuple(ignore))
    return sl


def replay_crash(cfg, ev, hard, ev2=-1, hard2=True, ignore=()):
    """concrete re-run (real run loop/writers/checkpoint code over the in-memory storage); True if durable content differs"""
    from . import md_props as P

    bad = [b for b in P.crash_violations(cfg, ev, hard, ev2, hard2) if b[0] not in ignore]
    print("config", P.CRASH_CONFIGS[cfg], "(engine, data, coordinates, velocities, forces, xyz, checkpoint, steps)")
    for k, msg in bad:
        print("  [%s] %s" % (k, msg))
    return bool(bad)


def replay_crash_real_files(cfg=1, crash_step=3):
    """public-API style replay with REAL h5py/real files/real torch.save in a temp dir: exception after `crash_step`
    steps, resume with run_from_checkpoint, then read the XYZ file back.  True if a frame appears twice."""
    import tempfile, shutil, os, io, contextlib, re
    import seqm.MolecularDynamics as MD
    from . import md_props as P, mdsim as M

    eng, data, c, v, f, xyz, ck, steps = P.CRASH_CONFIGS[cfg]
    M.uninstall()
    d = tempfile.mkdtemp(prefix="verif_c10_")
    saved = (MD.esdriver,)
    import importlib

    Mol = importlib.import_module("seqm.Molecule")
    saved_mol = Mol.Molecule
    try:
        MD.esdriver = M.FakeES
        Mol.Molecule = M.LightMolecule
        mol, p = M.make_molecule(1)
        out = M.output_dict((0,), data, c, v, f, xyz, 0, ck, prefix=os.path.join(d, "x"))
        md = M.make_md(eng, p, out)
        orig = type(md)._do_integrator_step
        count = {"n": 0}

        def step(self, i, molecule, lp, **kw):
            if i == crash_step:
                raise M.Crash("stop")
            return orig(self, i, molecule, lp, **kw)

        type(md)._do_integrator_step = step
        try:
            with contextlib.redirect_stdout(io.StringIO()):
                md.run(mol, steps, seed=7)
        except M.Crash:
            pass
        finally:
            type(md)._do_integrator_step = orig
        with contextlib.redirect_stdout(io.StringIO()):
            MD.Molecular_Dynamics_Basic.run_from_checkpoint(os.path.join(d, "x.restart.pt"))
        frames = [int(m.group(1)) for m in re.finditer(r"^step: (\d+)", open(os.path.join(d, "x.0.xyz")).read(), re.M)]
        print("real files: XYZ frames after exception at step %d + resume: %r" % (crash_step, frames))
        return len(frames) != len(set(frames))
    finally:
        MD.esdriver = saved[0]
        Mol.Molecule = saved_mol
        shutil.rmtree(d, ignore_errors=True)


def _run(ob, slices, expect_cex=(), known_slices=()):
    res = chrun.run_slices(slices, jobs=16)
    for sl, r in zip(slices, res):
        ob.paths += 1
        ob.ch_conditions += 1
        ob.ch_definite += r["verdict"] in ("confirmed", "counterexample")
        label = "%s {%s}" % (sl.name, sl.pre)
        ob.sample({"slice": sl.name, "pre": sl.pre, "verdict": r["verdict"], "seconds": r["seconds"], "call": r.get("call")})
        if sl.name in expect_cex:
            if r["verdict"] != "counterexample":
                raise HarnessError("twin %s: expected a counterexample, got %s\n%s" % (sl.name, r["verdict"], r["raw"][-400:]))
            ob.note("twin %s refuted as expected: %s" % (sl.name, r.get("call")))
            continue
        if sl.name in known_slices:
            # re-confirmation of the listed finding: a counterexample is expected and must replay
            if r["verdict"] == "counterexample":
                vals = chrun.parse_int_args(r["args"])
                if replay_crash(sl.meta["cfg"], *vals) and replay_crash_real_files():
                    ob.known_finding(FINDING, "XYZ frames written after the last durable checkpoint and flushed before the crash appear twice after resume (witness: config %d, crash event %s, %s)" % (sl.meta["cfg"], vals[0], "hard kill" if vals[1] else "exception"))
                else:
                    raise HarnessError("known finding did not replay")
            elif r["verdict"] == "confirmed":
                ob.discharged(label)  # the defect is gone: nothing to print, the slice simply holds
            else:
                ob.inconclusive(label)
            continue
        if r["verdict"] == "confirmed":
            ob.discharged(label)
        elif r["verdict"] == "counterexample":
            vals = chrun.parse_int_args(r["args"])
            print("counterexample from CrossHair:", r["call"])
            kw = dict(cfg=sl.meta["cfg"], ev=vals[0], hard=vals[1], ignore=list(sl.meta["ignore"]))
            if sl.meta["second"]:
                kw.update(ev2=vals[2], hard2=vals[3])
            if replay_crash(**kw):
                ob.violation("crash+resume differs from the uninterrupted run: config %d, crash event %d (%s)%s" % (kw["cfg"], kw["ev"], "kill" if kw["hard"] else "exception", (", second crash event %d" % kw["ev2"]) if sl.meta["second"] else ""), {"module": "harness.C10", "func": "replay_crash", "args": kw})
            else:
                raise HarnessError("CrossHair counterexample %s did not reproduce concretely" % r["call"])
        elif r["verdict"] == "inconclusive":
            ob.inconclusive(label + " :: " + r["raw"][-200:])
        else:
            raise HarnessError("crosshair failed on %s:\n%s" % (sl.name, r["raw"][-1200:]))


def _describe(ob):
    import seqm.MolecularDynamics as MD

    ob.encodes(MD.Molecular_Dynamics_Basic.run, MD.Molecular_Dynamics_Basic.initialize, MD.Molecular_Dynamics_Basic._flush_all, MD.Molecular_Dynamics_Basic.save_checkpoint, MD.Molecular_Dynamics_Basic._build_checkpoint_base, MD.Molecular_Dynamics_Basic._atomic_save_checkpoint, MD.Molecular_Dynamics_Basic.run_from_checkpoint, MD.Molecular_Dynamics_Basic._load_checkpoint_base, MD.Molecular_Dynamics_Basic._restore_molecule_from_ckpt, MD.Molecular_Dynamics_Basic._restore_rng, MD.HDF5Writer._open_resume, MD.HDF5Writer.append_data, MD.HDF5Writer.append_vectors, MD.HDF5Writer.flush, MD.XYZWriter.write, MD.XL_BOMD.one_step, MD.XL_BOMD.initialize, MD.Molecular_Dynamics_Langevin.one_step)
    ob.assume("storage model: h5 rows and xyz frames are buffered until flush()/close(); a hard kill loses the buffers and skips `finally`, an exception runs `finally`; os.replace is atomic; torch.save may be interrupted leaving a partial temp file")
    ob.assume("crash sites = every externally visible operation (each h5 row write, flush, xyz frame, mkstemp, mid-save, after-save, before/after replace); the crash index is a symbolic int, the kill kind a symbolic bool")
    ob.assume("h5py, XYZ files, tempfile/os/torch.save/torch.load, the electronic-structure driver (analytic force field depending on the XL auxiliary density) and Molecule (light stand-in) are replaced in the harness process; RNG is the real torch generator")
    ob.assume("a crash before the first checkpoint leaves nothing to resume from and is outside the claim")


@obligation(PID, "a", title="single crash at any externally visible operation (kill or exception) + resume: durable h5 content, xyz frames and checkpoint integrity equal the uninterrupted run")
def ob_a(ob):
    from . import md_props as P

    _describe(ob)
    quick = ob.tier == "quick"
    known = ob.is_known(FINDING)
    ignore = ("xyz-dup",) if known else ()
    cfgs = [0, 1, 2, 3] if quick else list(range(len(P.CRASH_CONFIGS)))
    slices = []
    for cfg in cfgs:
        nev = P.crash_reference(cfg)[2]
        ob.bound("config %d %r (engine,data,coordinates,velocities,forces,xyz,checkpoint,steps): %d crash sites x {kill, exception}" % (cfg, P.CRASH_CONFIGS[cfg], nev))
        nchunk = 4
        step = (nev + nchunk - 1) // nchunk
        for k in range(nchunk):
            lo, hi = k * step, min(nev - 1, (k + 1) * step - 1)
            if lo <= hi:
                slices.append(make_slice("S%d_%d" % (cfg, k), cfg, (lo, hi), ignore=ignore))
    known_slices = []
    if known:
        nev = P.crash_reference(1)[2]
        ks = make_slice("K_xyz", 1, (0, nev - 1), ignore=())
        slices.append(ks)
        known_slices.append("K_xyz")
    # vacuity twin: some crash must leave the property intact (post 'not _' refuted) ; sensitivity twin: checkpoint written
    # before the flush (harness copy of _flush_all disabled) must be caught by a kill right after the replace
    tw = make_slice("twin_reach", 0, (30, 40), ignore=ignore, post="not _")
    tw2 = make_slice("twin_noflush", 0, (0, P.crash_reference(0)[2] - 1), ignore=ignore)
    tw2.prelude += "import seqm.MolecularDynamics as _MD\n_MD.Molecular_Dynamics_Basic._flush_all = lambda self: None\n"
    _run(ob, slices + [tw, tw2], expect_cex=("twin_reach", "twin_noflush"), known_slices=known_slices)


@obligation(PID, "b", tiers=("thorough",), title="two crashes (second one during the resumed run) + two resumes")
def ob_b(ob):
    from . import md_props as P

    _describe(ob)
    known = ob.is_known(FINDING)
    ignore = ("xyz-dup",) if known else ()
    slices = []
    # (first version: 3 configurations, second crash within 40 operations, 8 chunks: 11 of 24 slices ran into the
    # 1500 s per-condition limit and were reported inconclusive; the space per slice is now ~4x smaller)
    for cfg in (0, 3):
        nev = P.crash_reference(cfg)[2]
        ob.bound("config %d %r: first crash anywhere, second crash within the first 20 operations of the resumed run" % (cfg, P.CRASH_CONFIGS[cfg]))
        nchunk = 16
        step = (nev + nchunk - 1) // nchunk
        for k in range(nchunk):
            lo, hi = k * step, min(nev - 1, (k + 1) * step - 1)
            if lo <= hi:
                slices.append(make_slice("T%d_%d" % (cfg, k), cfg, (lo, hi), second=(0, 19), ignore=ignore, timeout_s=1500))
    _run(ob, slices)


# ---- shared obligation: a resumed surface-hopping run equals the uninterrupted one only if the nonadiabatic rows due after the restart are written at their absolute steps ----
@obligation(PID, "c", title='[shared with C11.d] nonadiabatic stream, fresh and resumed runs: through the real integrator-step gate of the surface-hopping engine and the real writer, a run interrupted at any step and resumed holds the initial snapshot plus exactly the multiples of the nonadiabatic cadence with absolute labels and no unwritten rows')
def ob_c_shared(ob):
    """a resumed surface-hopping run equals the uninterrupted one only if the nonadiabatic rows due after the restart are written at their absolute steps"""
    from . import C11 as _m  # imported lazily: the harness modules share obligations in both directions

    ob.note("this obligation is the one registered as C11.d; it is also decided here because a resumed surface-hopping run equals the uninterrupted one only if the nonadiabatic rows due after the restart are written at their absolute steps")
    _m.ob_d(ob)


_CKPT_ATTRS = {"velocities": "velocities", "Etot": "Etot", "forces": "force", "molecular_orbitals": "molecular_orbitals", "cis_energies": "cis_energies", "dm": "dm", "cis_amplitudes": "cis_amplitudes", "old_mos": "old_mos", "transition_density_matrices": "transition_density_matrices"}


def replay_checkpoint_keys(engine):
    """float64, real save path with real torch.save/torch.load in a temporary directory: which of the molecule entries that
    the restore routine reads are actually present in the file"""
    import os, shutil, tempfile, types, io, contextlib, datetime
    import seqm.MolecularDynamics as MD
    import seqm.NonadiabaticDynamics as ND
    from . import mdsim as M

    M.uninstall()
    d = tempfile.mkdtemp(prefix="verif_c10_")
    try:
        t = lambda *s: torch.rand(*s, dtype=torch.float64)
        mol = types.SimpleNamespace(species=torch.tensor([[1, 1]]), coordinates=t(1, 2, 3), velocities=t(1, 2, 3), Etot=t(1), dm=t(1, 8, 8), cis_amplitudes=t(1, 2, 4), transition_density_matrices=t(1, 2, 8, 8), const=None, old_mos=t(1, 8, 8), force=t(1, 2, 3), molecular_orbitals=t(1, 8, 8), cis_energies=t(1, 2), dP2dt2=None)
        cls = ND.SurfaceHoppingDynamics if engine == "surface_hopping" else MD.Molecular_Dynamics_Basic
        md = cls.__new__(cls)
        torch.nn.Module.__init__(md)
        md.timestep, md.Temp, md.seqm_parameters, md.start_time = 0.5, 300.0, {}, datetime.datetime.now()
        md.output_config = MD.OutputConfig.from_dict({"molid": [0], "prefix": "x", "h5": {}})
        if engine == "surface_hopping":
            md._amp_phase, md._active_states, md._current_potential, md._cache_old, md._nstates, md.damp = t(1, 2, 3), torch.zeros(1, dtype=torch.long), t(1), None, 2, None
        path = os.path.join(d, "x.restart.pt")
        with contextlib.redirect_stdout(io.StringIO()):
            md.save_checkpoint(mol, 10, True, None, step_done=3, path=path)
        ck = torch.load(path, weights_only=False)
        missing = [k for k, a in _CKPT_ATTRS.items() if not torch.is_tensor(ck["molecules"].get(k))]
        print("replay checkpoint of engine %s: molecule entries read on restore but absent from the file: %s" % (engine, missing))
        return bool(missing)
    finally:
        shutil.rmtree(d, ignore_errors=True)


def replay_driver_state():
    """float64, real save (torch.save to a temporary file) + torch.load + real _apply_resume_state: which surface-hopping
    driver attributes differ afterwards"""
    import os, shutil, tempfile, types, io, contextlib, datetime
    import seqm.MolecularDynamics as MD
    import seqm.NonadiabaticDynamics as ND
    from . import mdsim as M

    M.uninstall()
    d = tempfile.mkdtemp(prefix="verif_c10_")
    try:
        t = lambda *s: torch.rand(*s, dtype=torch.float64)
        mol = types.SimpleNamespace(species=torch.tensor([[1, 1]]), coordinates=t(1, 2, 3), velocities=t(1, 2, 3), Etot=t(1), dm=t(1, 8, 8), cis_amplitudes=t(1, 2, 4), transition_density_matrices=t(1, 2, 8, 8), const=None, old_mos=t(1, 8, 8), force=t(1, 2, 3), molecular_orbitals=t(1, 8, 8), cis_energies=t(1, 2), dP2dt2=None)
        md = ND.SurfaceHoppingDynamics.__new__(ND.SurfaceHoppingDynamics)
        torch.nn.Module.__init__(md)
        md.timestep, md.Temp, md.seqm_parameters, md.start_time = 0.5, 300.0, {}, datetime.datetime.now()
        md.output_config = MD.OutputConfig.from_dict({"molid": [0], "prefix": "x", "h5": {}})
        vals = {"_amp_phase": t(1, 2, 3), "_active_states": torch.tensor([1]), "post_hop_holdoff": torch.tensor([2]), "prev_state": torch.tensor([0]), "_current_potential": t(1)}
        for k, v in vals.items():
            setattr(md, k, v)
        md._cache_old = {"nac_dot": t(1, 2, 2), "energies": t(1, 2)}
        md._nstates, md.damp = 2, None
        path = os.path.join(d, "x.restart.pt")
        with contextlib.redirect_stdout(io.StringIO()):
            md.save_checkpoint(mol, 10, True, None, step_done=3, path=path)
        ck = torch.load(path, weights_only=False)
        fresh = ND.SurfaceHoppingDynamics.__new__(ND.SurfaceHoppingDynamics)
        torch.nn.Module.__init__(fresh)
        fresh._amp_phase = fresh._active_states = fresh._current_potential = None
        fresh._cache_old = {"energies": t(1, 2)}
        fresh._resume_state = ck.get("nad_state", {})
        fresh._apply_resume_state(types.SimpleNamespace(coordinates=types.SimpleNamespace(device="cpu"), active_state=None))
        lost = [k for k, v in vals.items() if not (torch.is_tensor(getattr(fresh, k, None)) and torch.equal(getattr(fresh, k), v))]
        if not (torch.is_tensor(fresh._cache_old.get("nac_dot")) and torch.equal(fresh._cache_old["nac_dot"], md._cache_old["nac_dot"])):
            lost.append("_cache_old['nac_dot']")
        print("replay surface-hopping driver state through save + restore: attributes not restored: %s" % lost)
        return bool(lost)
    finally:
        shutil.rmtree(d, ignore_errors=True)


class _RecDict(dict):
    def __init__(self, *a):
        dict.__init__(self, *a)
        self.read = []

    def __contains__(self, k):
        self.read.append(k)
        return dict.__contains__(self, k)

    def get(self, k, default=None):
        self.read.append(k)
        return dict.get(self, k, default)

    def __getitem__(self, k):
        self.read.append(k)
        return dict.__getitem__(self, k)


@obligation(PID, "d", title="the checkpoint is sufficient for the restore path: every molecule entry that _restore_molecule_from_ckpt reads is written by the engine's own save_checkpoint, and after save + restore each restored attribute (velocities, forces, densities, amplitudes, orbitals used for phase/order tracking, state energies) equals the value the running molecule had — for arbitrary values, ground-state MD and surface-hopping engines")
def ob_d(ob):
    import types, io, contextlib, datetime
    import seqm.MolecularDynamics as MD
    import seqm.NonadiabaticDynamics as ND
    from .common import S, smt, z3, np, SymTensor, symbolic_factories, expect_refuted

    ob.encodes(MD.Molecular_Dynamics_Basic._build_checkpoint_base, MD.Molecular_Dynamics_Basic.save_checkpoint, ND.NonadiabaticDynamicsBase.save_checkpoint, MD.Molecular_Dynamics_Basic._restore_molecule_from_ckpt)
    ob.bound("every tensor attribute of the molecule is filled with its own symbol (symbolic-tag execution); engines: Molecular_Dynamics_Basic and SurfaceHoppingDynamics; density reuse on")
    ob.assume("the file write is a recorder (torn writes / atomic replace are C10.a); serialisation preserves values")
    tag = lambda n, *s: SymTensor(np.full(s, z3.Real("tag_" + n), dtype=object))
    for engine, cls in (("basic", MD.Molecular_Dynamics_Basic), ("surface_hopping", ND.SurfaceHoppingDynamics)):
        src = types.SimpleNamespace(species=torch.tensor([[1, 1]]), coordinates=tag("coordinates", 1, 2, 3), velocities=tag("velocities", 1, 2, 3), Etot=tag("Etot", 1), dm=tag("dm", 1, 2, 2), cis_amplitudes=tag("cis_amplitudes", 1, 2, 2), transition_density_matrices=tag("transition_density_matrices", 1, 2, 2), const=None, old_mos=tag("old_mos", 1, 2, 2), force=tag("force", 1, 2, 3), molecular_orbitals=tag("molecular_orbitals", 1, 2, 2), cis_energies=tag("cis_energies", 1, 2), dP2dt2=None)
        md = cls.__new__(cls)
        torch.nn.Module.__init__(md)
        md.timestep, md.Temp, md.seqm_parameters, md.start_time = 0.5, 300.0, {}, datetime.datetime.now()
        md.output_config = MD.OutputConfig.from_dict({"molid": [0], "prefix": "x", "h5": {}})
        if engine == "surface_hopping":
            md._amp_phase, md._active_states, md._current_potential, md._cache_old, md._nstates, md.damp = tag("amp", 1, 2, 3), torch.zeros(1, dtype=torch.long), tag("pot", 1), None, 2, None
        got = {}
        md._atomic_save_checkpoint = lambda ckpt, path: got.update(ckpt=ckpt)
        with contextlib.redirect_stdout(io.StringIO()), symbolic_factories():
            md.save_checkpoint(src, 10, True, None, step_done=3, path="/mem/x.restart.pt")
        ob.require("ckpt" in got and isinstance(got["ckpt"].get("molecules"), dict), "save_checkpoint did not hand a checkpoint to the writer")
        rec = _RecDict(got["ckpt"]["molecules"])
        dst = types.SimpleNamespace(**{a: None for a in _CKPT_ATTRS.values()})
        with symbolic_factories():
            MD.Molecular_Dynamics_Basic._restore_molecule_from_ckpt(rec, dst, True, "cpu")
        consumed = sorted(set(rec.read))
        ob.sample({"engine": engine, "entries read on restore": consumed, "entries written": sorted(got["ckpt"]["molecules"].keys())})
        for k in consumed:
            attr = _CKPT_ATTRS.get(k)
            if attr is None:
                continue
            lab = "d:%s entry %r" % (engine, k)
            saved_v, restored = dict.get(rec, k), getattr(dst, attr)
            ok = isinstance(saved_v, SymTensor) and isinstance(restored, SymTensor)
            if ok:
                v, m = smt.prove(restored.a.reshape(-1)[0] == z3.Real("tag_" + attr), [], lab, "lra", 10)
                ok = v == "unsat"
            if not ok:
                fid = "C10-checkpoint-omits-orbitals"
                if ob.is_known(fid):
                    if not ob.known_lines:
                        ob.known_finding(fid, ob.is_known(fid)["what"])
                    continue
                if replay_checkpoint_keys(engine):
                    ob.violation("engine %s: the restore path reads the molecule entry %r but save_checkpoint does not write it (the resumed run starts without the running molecule's %s, e.g. orbital phase/order tracking restarts and excited-state outputs change sign)" % (engine, k, attr), {"module": "harness.C10", "func": "replay_checkpoint_keys", "args": {"engine": engine}})
                    return
                raise HarnessError("checkpoint-entry counterexample did not reproduce (%s)" % lab)
            ob.discharged(lab)
    # surface-hopping driver state: save_checkpoint -> nad_state -> _apply_resume_state is the identity on every attribute
    # the next step reads (amplitudes, active states, hop hold-off, previous state, current potential, previous coupling)
    md = ND.SurfaceHoppingDynamics.__new__(ND.SurfaceHoppingDynamics)
    torch.nn.Module.__init__(md)
    md.timestep, md.Temp, md.seqm_parameters, md.start_time = 0.5, 300.0, {}, datetime.datetime.now()
    md.output_config = MD.OutputConfig.from_dict({"molid": [0], "prefix": "x", "h5": {}})
    attrs = {"_amp_phase": tag("amp_phase", 1, 2, 3), "_active_states": tag("active_states", 1), "post_hop_holdoff": tag("post_hop_holdoff", 1), "prev_state": tag("prev_state", 1), "_current_potential": tag("current_potential", 1)}
    for k, v in attrs.items():
        setattr(md, k, v)
    md._cache_old = {"nac_dot": tag("nac_dot", 1, 2, 2), "energies": tag("energies", 1, 2)}
    md._nstates, md.damp = 2, None
    got = {}
    md._atomic_save_checkpoint = lambda ckpt, path: got.update(ckpt=ckpt)
    with contextlib.redirect_stdout(io.StringIO()), symbolic_factories():
        md.save_checkpoint(src, 10, True, None, step_done=3, path="/mem/x.restart.pt")
    fresh = ND.SurfaceHoppingDynamics.__new__(ND.SurfaceHoppingDynamics)
    torch.nn.Module.__init__(fresh)
    fresh._amp_phase = fresh._active_states = fresh._current_potential = None
    fresh._cache_old = {"energies": tag("energies_recomputed", 1, 2)}
    fresh._resume_state = _RecDict(got["ckpt"].get("nad_state", {}))
    target = types.SimpleNamespace(coordinates=types.SimpleNamespace(device="cpu"), active_state=None)
    with symbolic_factories():
        fresh._apply_resume_state(target)
    checks = [(k, getattr(fresh, k, None), "tag_" + k.lstrip("_")) for k in attrs] + [("_cache_old['nac_dot']", (fresh._cache_old or {}).get("nac_dot"), "tag_nac_dot")]
    for name, val, tagname in checks:
        lab = "d:surface hopping driver attribute %s survives save + restore" % name
        ok = isinstance(val, SymTensor)
        if ok:
            v, m = smt.prove(val.a.reshape(-1)[0] == z3.Real(tagname), [], lab, "lra", 10)
            ok = v == "unsat"
        if not ok:
            if replay_driver_state():
                ob.violation("surface-hopping driver attribute %s is not restored from the checkpoint: the first resumed step starts from a different electronic state than the uninterrupted run had" % name, {"module": "harness.C10", "func": "replay_driver_state", "args": {}})
                return
            raise HarnessError("driver-state counterexample did not reproduce (%s)" % lab)
        ob.discharged(lab)
    x, y = z3.Reals("x y")
    expect_refuted(ob, x == y, [], "twin: a different attribute's tag is distinguishable", "lra")
