"""C04 — the SCF answer does not depend on the solver path (engine E1, narrow: every selectable update rule has the SCF
fixed point as a fixed point and reports it converged; closed-shell limit of the unrestricted path; SP2 tolerance)."""
import types
from fractions import Fraction

from .common import *  # noqa: F401,F403
from .common import S, smt, z3, np, torch, SymTensor, symbolic_factories, Explorer, obligation, HarnessError, expect_refuted, expect_feasible, molecule, quiet, single_point

PID = "C04"


def _psd(name, n, nmol=1):
    a = np.empty((nmol, n, n), dtype=object)
    for b in range(nmol):
        for i in range(n):
            for j in range(i, n):
                a[b, i, j] = a[b, j, i] = z3.Real("%s%d_%d_%d" % (name, b, i, j))
    return a


def replay_solver_agreement():
    """public API: water, AM1: fixed mixing vs adaptive vs Pulay vs UHF singlet agree within 1e-6 eV"""
    sp = torch.tensor([[8, 1, 1]])
    xyz = torch.tensor([[[0.03, 0.02, 0.01], [0.96, 0.13, 0.07], [-0.21, 0.91, 0.23]]])
    E = {}
    for name, kw in (("fixed", dict(scf_converger=[0, 0.3])), ("adaptive", dict(scf_converger=[1])), ("pulay", dict(scf_converger=[2])), ("uhf", dict(scf_converger=[1], UHF=True))):
        m, es = single_point(sp, xyz, "AM1", **kw)
        E[name] = m.Etot.item()
    d = max(E.values()) - min(E.values())
    print("replay solver agreement (H2O AM1):", {k: round(v, 8) for k, v in E.items()}, "spread %.3e eV" % d)
    return d > 1e-6


@obligation(PID, "a", title="fixed mixing: started at the SCF fixed point (make_Pnew(F(P*)) = P*), one pass of scf_forward0 returns P* unchanged and reports it converged, for every mixing factor in [0,1) and threshold > 0")
def ob_a(ob):
    from seqm.seqm_functions import scf_loop as SL

    ob.encodes(SL.scf_forward0, SL.get_error)
    ob.bound("1 molecule, 2x2 density; P*, Hcore and the Fock response symbolic; mixing factor alpha in [0,1) and eps>0 symbolic")
    ob.assume("Fock build stubbed by a deterministic affine map of P, the density step by the constant map F -> P* (definition of the fixed point)")
    n = 2
    Pst = _psd("P", n)
    Hs = _psd("H", n)
    Gc = z3.Real("gcoef")
    alpha, eps = z3.Reals("alpha eps")
    assm = [alpha >= 0, alpha < 1, eps > 0]
    saved = (SL.fock_restricted, SL.make_Pnew_factory, SL.reshape_Hcore)
    SL.fock_restricted = lambda nmol, molsize, P, M, *a: SymTensor(Hs.copy()) + P * SymTensor(np.array(Gc, dtype=object))
    SL.make_Pnew_factory = lambda *a, **k: (lambda F, *b: SymTensor(Pst.copy())[: F.shape[0]])
    SL.reshape_Hcore = lambda M, nmol, molsize, method: SymTensor(Hs.copy())

    def fn():
        with symbolic_factories(bool_symbolic=True):
            P, nc = SL.scf_forward0(SymTensor(Hs.copy()), None, None, None, None, None, None, None, torch.tensor([2]), torch.tensor([0]), torch.tensor([0]), torch.tensor([1]), 1, 1, None, None, None, None, SymTensor(Pst.copy()), SymTensor(np.array(eps, dtype=object)), "AM1", None, None, None, None, None, None, sp2=[False], scf_converger=[0, SymTensor(np.array(alpha, dtype=object))], unrestricted=False, verbose=False)
        return P.a.copy(), nc

    try:
        ex = Explorer(assumptions=assm, piecewise="ite", kind="auto", max_paths=20)
        res = ex.run(fn)
    finally:
        SL.fock_restricted, SL.make_Pnew_factory, SL.reshape_Hcore = saved
    ob.paths = ex.paths
    for pc, side, (P, nc) in res:
        S.ST.side[:] = side
        base = assm + list(pc)
        ncv = nc.a.reshape(-1)[0] if isinstance(nc, SymTensor) else z3.BoolVal(bool(nc.reshape(-1)[0]))
        claims = [("flag: converged", z3.Not(ncv))] + [("P[%d,%d] unchanged" % (i, j), P[0, i, j] == Pst[0, i, j]) for i in range(n) for j in range(n)]
        for name, c in claims:
            v, m = smt.prove(c, base, "a:" + name, "auto", 60)
            if v == "sat":
                if replay_solver_agreement():
                    ob.violation("fixed-mixing SCF does not keep/recognise the fixed point: %s" % name, {"module": "harness.C04", "func": "replay_solver_agreement", "args": {}})
                else:
                    raise HarnessError("fixed-mixing counterexample did not reproduce (%s)" % name)
                return
            ob.verdict(v, "a:" + name)


@obligation(PID, "b", title="adaptive mixing: adaptive_mix(k, P, P) returns P for every iteration index (extrapolation and damping branches) when 0 <= P_ii <= occupation")
def ob_b(ob):
    from seqm.seqm_functions import scf_loop as SL

    ob.encodes(SL.adaptive_mix, SL.compute_fac)
    ob.bound("1 molecule, 3x3 density symbolic with 0 <= P_ii <= 2, trace > 1e-3; iteration index k in 0..8 enumerated; previous-previous diagonal symbolic")
    n = 3
    Pm = _psd("P", n)
    old2 = S.reals("o", (1, n))
    assm = [z3.And(Pm[0, i, i] >= 0, Pm[0, i, i] <= 2) for i in range(n)] + [sum(Pm[0, i, i] for i in range(n)) > z3.RealVal("0.01")]
    for k in range(0, 9):
        def fn():
            with symbolic_factories():
                Pmix, dprev = SL.adaptive_mix(k, SymTensor(Pm.copy()), SymTensor(Pm.copy()), SymTensor(old2.copy()), False)
            return Pmix.a.copy()

        ex = Explorer(assumptions=assm, piecewise="ite", kind="nra", max_paths=40)
        res = ex.run(fn)
        ob.paths += ex.paths
        for pc, side, Pmix in res:
            S.ST.side[:] = side
            for i in range(n):
                for j in range(n):
                    lab = "b:k=%d P[%d,%d]" % (k, i, j)
                    v, m = smt.prove(Pmix[0, i, j] == Pm[0, i, j], assm + list(pc), lab, "nra", 60)
                    if v == "sat":
                        if replay_solver_agreement():
                            ob.violation("adaptive_mix moves a converged density at iteration %d (element %d,%d)" % (k, i, j), {"module": "harness.C04", "func": "replay_solver_agreement", "args": {}})
                        else:
                            raise HarnessError("adaptive_mix counterexample did not reproduce (%s)" % lab)
                        return
                    ob.verdict(v, lab)


def replay_closed_shell():
    sp = torch.tensor([[8, 1, 1]])
    # generic (rotated) orientation: on-site p-p' density elements are non-zero
    xyz = torch.tensor([[[0.03, 0.02, 0.01], [0.83, 0.45, 0.27], [-0.41, 0.71, 0.53]]])
    a, _ = single_point(sp, xyz, "AM1", scf_converger=[1])
    b, _ = single_point(sp, xyz, "AM1", scf_converger=[1], UHF=True)
    d = abs(a.Etot.item() - b.Etot.item())
    print("replay RHF vs UHF singlet (rotated water): |dE| = %.3e eV" % d)
    return d > 1e-7


@obligation(PID, "d", title="closed-shell limit: the unrestricted Fock build with P_alpha = P_beta = P/2 gives F_alpha = F_beta = restricted F(P), and the unrestricted energy functional equals the restricted one")
def ob_d(ob):
    from seqm.seqm_functions.fock import fock
    from seqm.seqm_functions.fock_u_batch import fock_u_batch
    from seqm.seqm_functions.energy import elec_energy
    from .C06 import _setup_fock, _sym_density, _sym_hcore_blocks

    ob.encodes(fock, fock_u_batch, elec_energy)
    ob.bound("molecules [O,C,H] and padded batch [[O,H,H],[H,H,pad]]; two-centre integrals, H, one-centre parameters and the symmetric density symbolic")
    for species in ([[8, 6, 1]], [[8, 1, 1], [1, 1, 0]]):
        S.reset()
        mol, const, Z, natoms, npairs, n, phys, w, g = _setup_fock(species)
        nmol, molsize = len(species), len(species[0])
        Hfull, M = _sym_hcore_blocks(nmol, molsize, phys)
        P = _sym_density("P", nmol, n, phys)
        half = np.frompyfunc(lambda e: e / 2, 1, 1)(P)
        targs = (mol.maskd, mol.mask, mol.idxi, mol.idxj, SymTensor(w), torch.tensor([0]), SymTensor(g["gss"]), SymTensor(g["gpp"]), SymTensor(g["gsp"]), SymTensor(g["gp2"]), SymTensor(g["hsp"]), "AM1", None, None, None, Z, None, None)
        with symbolic_factories():
            Fr = fock(nmol, molsize, SymTensor(P.copy()), SymTensor(M.copy()), *targs)
            Fu = fock_u_batch(nmol, molsize, SymTensor(np.stack([half, half], axis=1)), SymTensor(M.copy()), *targs)
            Hc = SymTensor(M.copy()).reshape(nmol, molsize, molsize, 4, 4).transpose(2, 3).reshape(nmol, n, n)
            Er = elec_energy(SymTensor(P.copy()), Fr, Hc)
            Eu = elec_energy(SymTensor(np.stack([half, half], axis=1)), Fu, Hc)
        bad = False
        for b in range(nmol):
            for i in phys[b]:
                for j in phys[b]:
                    for sgm in range(2):
                        v, m = smt.prove(Fu.a[b, sgm, i, j] == Fr.a[b, i, j], [], "d:%s F_%s[%d,%d]" % (species, "ab"[sgm], i, j), "auto", 30)
                        if v == "sat" and not bad:
                            bad = True
                            if replay_closed_shell():
                                ob.violation("unrestricted Fock matrix of a closed-shell density differs from the restricted one (element %d,%d of molecule %d): UHF singlet and RHF converge to different answers" % (i, j, b), {"module": "harness.C04", "func": "replay_closed_shell", "args": {}})
                            else:
                                raise HarnessError("closed-shell-limit counterexample did not reproduce")
                        elif v != "sat":
                            ob.verdict(v, "d:F")
            v, m = smt.prove(Eu.a[b] == Er.a[b], [], "d:%s energy functional mol %d" % (species, b), "auto", 60)
            ob.verdict(v, "d:E")


@obligation(PID, "e", title="SP2 vs diagonalisation: the purification returns within the tolerance the caller may rely on for every requested eps (so tightening it moves the SP2 answer towards the aufbau projector monotonically)")
def ob_e(ob):
    from .C03 import ob_b as sp2_tolerance

    sp2_tolerance(ob)


# ---- shared obligation: an unrestricted singlet reproduces the restricted answer (and a molecule its stand-alone answer) only if each spin block is diagonalised with the orbital layout of its own molecule ----
@obligation(PID, "f", title='[shared with C03.e] sym_eig_trunc: every matrix handed to the eigen-solver is the physical block of its own molecule (and spin), padded diagonal entries lie above every Gershgorin disc of that block, are pairwise distinct, and the padding block is decoupled — restricted batches and unrestricted (alpha/beta) batches of heterogeneous molecules')
def ob_f_shared(ob):
    """an unrestricted singlet reproduces the restricted answer (and a molecule its stand-alone answer) only if each spin block is diagonalised with the orbital layout of its own molecule"""
    from . import C03 as _m  # imported lazily: the harness modules share obligations in both directions

    ob.note("this obligation is the one registered as C03.e; it is also decided here because an unrestricted singlet reproduces the restricted answer (and a molecule its stand-alone answer) only if each spin block is diagonalised with the orbital layout of its own molecule")
    _m.ob_e(ob)


def replay_scf_bookkeeping(driver, c0, c1, c2):
    from . import scfsim as X

    bad = X.bookkeeping_violations(driver, c0, c1, c2) if driver != 3 else X.ksa_violations(c0, c1, c2)
    for b in bad[:4]:
        print("  ", b)
    if driver == 3:
        bad = bad + replay_ksa_real_batch()
    return bool(bad)


def replay_ksa_real_batch():
    """The same through the public API: CH4 + H2O in one batch with the KSA converger against each molecule alone."""
    import io
    import contextlib
    from seqm.Molecule import Molecule
    from seqm.ElectronicStructure import Electronic_Structure
    from seqm.seqm_functions.constants import Constants

    geo = {"H2O": ([8, 1, 1], [[0.0, 0, 0], [0.96, 0.1, 0], [-0.24, 0.93, 0.2]]), "CH4": ([6, 1, 1, 1, 1], [[0, 0, 0], [0.63, 0.63, 0.63], [-0.63, -0.63, 0.63], [-0.63, 0.63, -0.63], [0.63, -0.63, -0.63]])}
    xl = {"k": 4, "max_rank": 3, "err_threshold": 0.0, "T_el": 1500}

    def run(names):
        n = max(len(geo[k][0]) for k in names)
        sp = torch.tensor([geo[k][0] + [0] * (n - len(geo[k][0])) for k in names])
        xyz = torch.tensor([geo[k][1] + [[0.0, 0, 0]] * (n - len(geo[k][1])) for k in names], dtype=torch.float64)
        par = {"method": "AM1", "scf_eps": 1e-8, "scf_converger": [3, dict(xl)], "sp2": [False]}
        with contextlib.redirect_stdout(io.StringIO()):
            m = Molecule(Constants(), par, xyz, sp)
            m.verbose = False
            Electronic_Structure(par)(m, xl_bomd_params=dict(xl))
        return [float(x) for x in m.Etot]

    bad = []
    alone = [run(["CH4"])[0], run(["H2O"])[0]]
    try:
        both = run(["CH4", "H2O"])
        for k, (a, b) in enumerate(zip(alone, both)):
            if abs(a - b) > 1e-5:
                bad.append("real batch [CH4, H2O], KSA converger: molecule %d has Etot %.8f in the batch and %.8f alone" % (k, b, a))
    except Exception as ex:  # noqa
        bad.append("real batch [CH4, H2O], KSA converger: %s: %s (each molecule alone converges: %.6f, %.6f eV)" % (type(ex).__name__, str(ex)[:120], alone[0], alone[1]))
    for b in bad:
        print("  ", b)
    return bad


@obligation(PID, "g", title="SCF drivers under partial convergence (fixed mixing, adaptive mixing, adaptive + Pulay, Krylov subspace KSA): the driver completes, at every density step the Fock matrices of the still-active molecules arrive together with the atom counts and occupation numbers of the same molecules, and the convergence flags returned are those of the schedule — for every order in which the molecules of a batch converge")
def ob_g(ob):
    from seqm.seqm_functions import scf_loop as SL
    from engine import chrun

    ob.encodes(SL.scf_forward0, SL.scf_forward1, SL.scf_forward2, SL.scf_forward3)
    ob.bound("batch of 3 molecules; the iteration at which each molecule converges is a symbolic int in [1,6] (thorough: [1,9], iteration cap 11) (every relative order, ties, and one molecule never converging within the iteration cap of 8 for Pulay's longer start-up); three drivers")
    ob.assume("Fock build, density step and convergence test are recorders; the DIIS linear algebra of the Pulay driver runs for real on the recorder's matrices")
    ob.assume("KSA driver: molecules of 9, 6 and 5 orbitals; the finite-temperature density step (Fermi_Q), the response step (Canon_DM_PRT), the response Fock build and the electronic energy are recorders that return tensors of the SHAPES the real functions return (a sub-batch is packed to the width of its largest molecule); the Krylov/Arnoldi algebra and the rank-m update run for real; rank 2, iteration cap = bound + 2")
    pre = "from harness import scfsim as X\n"
    slices = []
    hi = 6 if ob.tier != "thorough" else 9
    for drv in (0, 1, 2):
        sl = chrun.Slice("S%d" % drv, pre, "c0: int, c1: int, c2: int", "1 <= c0 <= %d and 1 <= c1 <= %d and 1 <= c2 <= %d" % (hi, hi, hi), "return X.bookkeeping_violations(%d, c0, c1, c2, %d) == []" % (drv, hi + 2), "_", 300 if hi == 6 else 1200)
        sl.meta = dict(driver=drv)
        slices.append(sl)
    hk = 5 if ob.tier != "thorough" else 8
    sl = chrun.Slice("S3", pre, "c0: int, c1: int, c2: int", "1 <= c0 <= %d and 1 <= c1 <= %d and 1 <= c2 <= %d" % (hk, hk, hk), "return X.ksa_violations(c0, c1, c2, %d) == []" % (hk + 2), "_", 300 if hk == 5 else 1200)
    sl.meta = dict(driver=3)
    slices.append(sl)
    tw = chrun.Slice("twin_scf", pre, "c0: int, c1: int, c2: int", "1 <= c0 <= 6 and 1 <= c1 <= 6 and 1 <= c2 <= 6", "return X.bookkeeping_violations(2, c0, c1, c2) == [] and not (c0 == 2 and c1 == 5 and c2 == 3)", "_", 300)
    tw.meta = dict(driver=2)
    res = chrun.run_slices(slices + [tw], jobs=8)
    for sl, r in zip(slices + [tw], res):
        ob.paths += 1
        ob.ch_conditions += 1
        ob.ch_definite += r["verdict"] in ("confirmed", "counterexample")
        if sl.name == "twin_scf":
            if r["verdict"] != "counterexample":
                raise HarnessError("twin_scf: expected the planted counterexample, got %s" % r["verdict"])
            continue
        ob.sample({"slice": sl.name, "pre": sl.pre, "verdict": r["verdict"], "seconds": r["seconds"], "call": r.get("call")})
        if r["verdict"] == "confirmed":
            ob.discharged(sl.name)
        elif r["verdict"] == "counterexample":
            vals = chrun.parse_int_args(r["args"])
            kw = dict(driver=sl.meta["driver"], c0=vals[0], c1=vals[1], c2=vals[2])
            print("counterexample from CrossHair:", r["call"])
            from . import scfsim as X

            bad = X.bookkeeping_violations(**kw) if kw["driver"] != 3 else X.ksa_violations(kw["c0"], kw["c1"], kw["c2"])
            if bad:
                ob.violation("SCF driver %d, molecules converging at iterations (%d, %d, %d): %s" % (kw["driver"], kw["c0"], kw["c1"], kw["c2"], bad[0][:260]), {"module": "harness.C04", "func": "replay_scf_bookkeeping", "args": kw})
            else:
                raise HarnessError("SCF bookkeeping counterexample did not reproduce: %s" % r["call"])
        elif r["verdict"] == "inconclusive":
            ob.inconclusive(sl.name)
        else:
            raise HarnessError("crosshair failed on %s:\n%s" % (sl.name, r["raw"][-1000:]))


def replay_ksa_kernel(**kw):
    from . import krylov as K

    return K.replay_kernel(**kw)


@obligation(PID, "h", title="Krylov path of the SCF (scf_forward3): one iteration replaces P by P - sum x_q V_q where V spans the Krylov space of the linearised density map started at D - P and x solves the normal equations of min |sum x_q W_q - (D - P)|, W_q = response(V_q) - V_q: the quasi-Newton step on D(P) - P = 0, so a stationary point of the iteration is a self-consistent density — the same one the mixing and DIIS paths converge to — for every residual and every linear response")
def ob_h(ob):
    from seqm.seqm_functions import scf_loop as SL
    from . import krylov as K

    ob.encodes(SL.scf_forward3)
    ob.bound("one outer iteration (iteration cap 1) from P = 0; max_rank 2 and 3 (thorough: also a batch of 2 molecules at max_rank 2); symmetric matrices confined to a 2x2 block (3-dimensional space: rank 3 is the full space, where the step is the exact Newton step (I - response)^-1 (D - P)); residual: 3 symbolic reals per molecule; response: arbitrary linear map (9 symbolic reals per molecule); err_threshold 0: early exits explored as separate paths")
    ob.assume("fock_restricted, Fermi_Q, G, Canon_DM_PRT, elec_energy are recorders: Fermi_Q returns the symbolic residual (P = 0), Canon_DM_PRT(G(v)) the symbolic linear map applied to v")
    ob.assume("torch.inverse(A) is a matrix of fresh unknowns constrained by A X = X A = I (A non-singular is torch's precondition); claims are identities in those unknowns")
    ob.assume("no breakdown: D != P and every normalisation divides by a non-zero norm")
    ob.assume("a branch whose feasibility the solver cannot settle within 10 s is explored as feasible (over-approximation)")
    cfg = [(2, 1), (3, 1)] + ([(2, 2)] if ob.tier == "thorough" else [])
    K.obligation_body(ob, "ksa", cfg, 30 if ob.tier != "thorough" else 120)
