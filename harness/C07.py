"""C07 — differentiability in Hamiltonian parameters (engine E1, partial: custom backward formulas and gradient routing)."""
import ast
import inspect
import textwrap
import types

from .common import *  # noqa: F401,F403
from .common import S, smt, z3, np, torch, SymTensor, symbolic_factories, obligation, Dual, HarnessError, expect_refuted, expect_feasible
from . import scfbw

PID = "C07"


def _residual_expr(cls, name):
    """source text of the residual expression  hsp1 = ... / hpp1 = ...  in the live forward()"""
    src = textwrap.dedent(inspect.getsource(cls.forward))
    tree = ast.parse(src)
    for node in ast.walk(tree):
        if isinstance(node, ast.Assign) and len(node.targets) == 1 and isinstance(node.targets[0], ast.Name) and node.targets[0].id == name:
            return ast.get_source_segment(src, node.value)
    raise HarnessError("residual expression %s not found in %s.forward" % (name, cls.__name__))


def replay_rho_backward(which):
    """float64: autograd derivative of the real root-solve function vs central finite differences"""
    from seqm.seqm_functions.cal_par import additive_term_rho1, additive_term_rho2

    f, x0, D0 = (additive_term_rho1, 10.0, 0.8) if which == "rho1" else (additive_term_rho2, 3.0, 0.7)
    x = torch.tensor([x0], requires_grad=True)
    D = torch.tensor([D0], requires_grad=True)
    gx, gD = torch.autograd.grad(f.apply(x, D).sum(), (x, D))
    h = 1e-5
    fdx = ((f.apply(torch.tensor([x0 + h]), torch.tensor([D0])) - f.apply(torch.tensor([x0 - h]), torch.tensor([D0]))) / (2 * h)).item()
    fdD = ((f.apply(torch.tensor([x0]), torch.tensor([D0 + h])) - f.apply(torch.tensor([x0]), torch.tensor([D0 - h]))) / (2 * h)).item()
    print("replay %s backward: d/dh autograd %.6e vs FD %.6e ; d/dD autograd %.6e vs FD %.6e" % (which, gx.item(), fdx, gD.item(), fdD))
    return abs(gx.item() - fdx) > 1e-6 * max(1, abs(fdx)) or abs(gD.item() - fdD) > 1e-6 * max(1, abs(fdD))


@obligation(PID, "a", title="custom backward of the rho1/rho2 root solves is the implicit-function derivative of the equation the forward pass solves, for all rho, D > 0")
def ob_a(ob):
    from seqm.seqm_functions import cal_par as CP
    from seqm.seqm_functions.constants import ev

    ob.encodes(CP.additive_term_rho1.backward, CP.additive_term_rho2.backward, CP.additive_term_rho1.forward, CP.additive_term_rho2.forward)
    ob.bound("rho>0, D>0, upstream gradient g symbolic reals; the residual H(d, D) is the expression the live forward() iterates on (extracted from its AST) evaluated at d = 1/(2 rho) on dual numbers; sqrt radicands canonicalised so that equal roots share one auxiliary variable")
    rho, D, g = z3.Reals("rho D g")
    evr = S.rv(ev)
    for cls, resname, dname, Dname, which in ((CP.additive_term_rho1, "hsp1", "d1", "D1", "rho1"), (CP.additive_term_rho2, "hpp1", "q1", "D2", "rho2")):
        S.reset()
        S.ST.sqrt_mode = "canon"
        expr = _residual_expr(cls, resname)
        ob.note("%s residual under test: %s" % (which, " ".join(expr.split())))
        ctx = types.SimpleNamespace(saved_tensors=(SymTensor(np.array([rho], dtype=object)), SymTensor(np.array([D], dtype=object))))
        with symbolic_factories():
            dh, dD = cls.backward(ctx, SymTensor(np.array([g], dtype=object)))
        S.ST.dual_n = 2
        try:
            r = SymTensor(np.array([Dual(rho, (z3.RealVal(1), z3.RealVal(0)))], dtype=object))
            d = SymTensor(np.array([Dual(D, (z3.RealVal(0), z3.RealVal(1)))], dtype=object))
            with symbolic_factories():
                H = eval("(" + expr + ")", {"torch": torch, dname: 0.5 / r, Dname: d})
            Hr, HD = H.a[0].t
        finally:
            S.ST.dual_n = 0
        base = [rho > 0, D > 0, g != 0]
        expect_feasible(ob, base, "rho, D > 0", "nra")
        # nested divisions p/(a/b) are flattened to p*b/a; the side conditions a,b != 0 are proved separately
        side_obl = []
        dh_f = smt.flatten_div(z3.simplify(dh.a[0]), side_obl)
        dD_f = smt.flatten_div(z3.simplify(dD.a[0]), side_obl)
        for o in side_obl:
            v0, _ = smt.prove(o, base, "a:%s denominator defined" % which, "nra", 60)
            ob.verdict(v0, "a:%s denominator defined" % which)
        claims = [("d rho/d h = 1/(ev dH/drho)", dh_f * evr * Hr == g), ("d rho/d D = -(dH/dD)/(dH/drho)", dD_f * Hr == -g * HD)]
        for name, c in claims:
            lab = "a:%s %s" % (which, name)
            v, m = smt.prove(c, base, lab, "nra", 120)
            if v == "sat":
                if replay_rho_backward(which):
                    ob.violation("%s.backward is not the implicit-function derivative of the equation solved in forward (%s): gradients w.r.t. h_sp/g_pp/g_p2/zeta through the additive terms are wrong" % (cls.__name__, name), {"module": "harness.C07", "func": "replay_rho_backward", "args": {"which": which}})
                else:
                    raise HarnessError("rho backward counterexample did not reproduce (%s)" % lab)
                break
            ob.verdict(v, lab)
        S.ST.sqrt_mode = "plain"


def replay_slots():
    """public API: d(gap)/d(g_sp) with scf_backward=1 vs central finite difference (formaldehyde, AM1)"""
    from seqm.Molecule import Molecule
    from seqm.basics import Energy
    from seqm.seqm_functions.constants import Constants
    from .common import quiet

    const = Constants()
    sp = torch.tensor([[8, 6, 1, 1]])
    xyz = torch.tensor([[[0.0, 0.0, 1.21], [0.0, 0.0, 0.0], [0.0, 0.94, -0.54], [0.1, -0.94, -0.55]]])

    def gap(shift, grad=False):
        p = {"method": "AM1", "scf_eps": 1e-10, "scf_converger": [1], "scf_backward": 1, "learned": ["g_sp"]}
        with quiet():
            m0 = Molecule(const, {"method": "AM1", "scf_eps": 1e-10, "scf_converger": [1]}, xyz.clone(), sp)
            base = m0.parameters["g_sp"].detach().clone()
            t = (base + shift).requires_grad_(grad)
            m = Molecule(const, p, xyz.clone(), sp, learned_parameters={"g_sp": t})
            m.verbose = False
            out = Energy(p)(m, learned_parameters={"g_sp": t}, all_terms=True)
        return out[6].sum(), m, t

    gval, m, t = gap(torch.zeros(4), True)
    (ga,) = torch.autograd.grad(gval, m.parameters["g_sp"], allow_unused=True)
    if ga is None:
        print("replay slots: no gradient reaches g_sp")
        return True
    h = 1e-4
    e = torch.zeros(4)
    e[0] = h
    fd = (gap(e)[0].item() - gap(-e)[0].item()) / (2 * h)
    print("replay d(gap)/d(g_sp[O]) scf_backward=1: autograd %.6e vs FD %.6e" % (ga[0].item(), fd))
    return abs(ga[0].item() - fd) > 1e-4 * max(1.0, abs(fd))


@obligation(PID, "d", title="implicit SCF adjoint: the gradient returned in the k-th slot of SCF.backward is the vector-Jacobian product with respect to the k-th forward input (M, w, W, g_ss, g_pp, g_sp, g_p2, h_sp), for every subset of differentiable inputs")
def ob_d(ob):
    from seqm.seqm_functions import scf_loop as SL

    ob.encodes(SL.SCF.forward, SL.SCF.backward)
    ob.bound("symbolic-tag execution: every forward input carries its own tag symbol; all 8 single-input subsets, the full set and 3 mixed subsets of differentiable inputs")
    ob.assume("SCF iterations, Fock build, eigen-solver, autograd products and adjoint solvers are recorders")
    e = z3.Real("eps")
    subsets = [[n] for n in scfbw.NAMES] + [list(scfbw.NAMES), ["gsp", "gp2"], ["M", "hsp"], ["w", "gss", "gpp"]]
    for req in subsets:
        S.reset()
        ctx, inp = scfbw.forward("A", "AM1", SymTensor(np.array(e, dtype=object)), requires=req)
        r = scfbw.backward(ctx)
        out = r["out"]
        ob.require(len(out) == 30, "backward must return one entry per forward input, got %d" % len(out))
        ok = True
        for k, name in enumerate(scfbw.NAMES):
            o = out[k]
            if name in req:
                tag = z3.Real("tag_%s_A" % name)
                if not isinstance(o, SymTensor):
                    ok = False
                else:
                    terms = {str(v) for v in S.free_vars(o.a.reshape(-1)[0])}
                    if terms & {"tag_%s_A" % n for n in scfbw.NAMES} != {"tag_%s_A" % name}:
                        ok = False
            else:
                if o is not None:
                    ok = False
        ok = ok and all(x is None for x in out[8:])
        if not ok:
            if replay_slots():
                ob.violation("SCF.backward routes the gradient of a Hamiltonian parameter into another parameter's slot (differentiable inputs %s)" % req, {"module": "harness.C07", "func": "replay_slots", "args": {}})
            else:
                raise HarnessError("gradient-slot counterexample did not reproduce (subset %s)" % req)
            return
        ob.discharged("d:subset %s" % req)
    ob.sample({"slots": [str(o.a.reshape(-1)[0]) if isinstance(o, SymTensor) else None for o in out[:8]]})
