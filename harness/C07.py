"""C07 — differentiability in Hamiltonian parameters (engine E1, partial: custom backward formulas and gradient routing)."""
import ast
import inspect
import textwrap
import types

from .common import *  # noqa: F401,F403
from .common import S, smt, z3, np, torch, SymTensor, symbolic_factories, obligation, Dual, HarnessError, expect_refuted, expect_feasible
from . import scfbw

PID = "C07"


def _residual_expr(cls, name):
    """source text of the residual expression  hsp1 = ... / hpp1 = ...  in the live forward()"""
    src = textwrap.dedent(inspect.getsource(cls.forward))
    tree = ast.parse(src)
    for node in ast.walk(tree):
        if isinstance(node, ast.Assign) and len(node.targets) == 1 and isinstance(node.targets[0], ast.Name) and node.targets[0].id == name:
            return ast.get_source_segment(src, node.value)
    raise HarnessError("residual expression %s not found in %s.forward" % (name, cls.__name__))


def replay_rho_backward(which, needs=(True, True)):
    """float64: autograd derivative of the real root-solve function vs central finite differences"""
    from seqm.seqm_functions.cal_par import additive_term_rho1, additive_term_rho2

    f, x0, D0 = (additive_term_rho1, 10.0, 0.8) if which == "rho1" else (additive_term_rho2, 3.0, 0.7)
    x = torch.tensor([x0], requires_grad=bool(needs[0]))
    D = torch.tensor([D0], requires_grad=bool(needs[1]))
    wrt = [t for t, nd in ((x, needs[0]), (D, needs[1])) if nd]
    got = torch.autograd.grad(f.apply(x, D).sum(), wrt, allow_unused=True)
    if any(g is None for g in got):
        print("replay %s backward with needs_input_grad=%s: no gradient returned for a differentiable input" % (which, tuple(needs)))
        return True
    got = list(got)
    gx = got.pop(0) if needs[0] else None
    gD = got.pop(0) if needs[1] else None
    h = 1e-5
    fdx = ((f.apply(torch.tensor([x0 + h]), torch.tensor([D0])) - f.apply(torch.tensor([x0 - h]), torch.tensor([D0]))) / (2 * h)).item()
    fdD = ((f.apply(torch.tensor([x0]), torch.tensor([D0 + h])) - f.apply(torch.tensor([x0]), torch.tensor([D0 - h]))) / (2 * h)).item()
    bad = False
    if gx is not None:
        print("replay %s backward: d/dh autograd %.6e vs FD %.6e" % (which, gx.item(), fdx))
        bad |= abs(gx.item() - fdx) > 1e-6 * max(1, abs(fdx))
    if gD is not None:
        print("replay %s backward: d/dD autograd %.6e vs FD %.6e" % (which, gD.item(), fdD))
        bad |= abs(gD.item() - fdD) > 1e-6 * max(1, abs(fdD))
    return bad


@obligation(PID, "a", title="custom backward of the rho1/rho2 root solves is the implicit-function derivative of the equation the forward pass solves, for all rho, D > 0")
def ob_a(ob):
    from seqm.seqm_functions import cal_par as CP
    from seqm.seqm_functions.constants import ev

    ob.encodes(CP.additive_term_rho1.backward, CP.additive_term_rho2.backward, CP.additive_term_rho1.forward, CP.additive_term_rho2.forward)
    ob.bound("rho>0, D>0, upstream gradient g symbolic reals; the residual H(d, D) is the expression the live forward() iterates on (extracted from its AST) evaluated at d = 1/(2 rho) on dual numbers; sqrt radicands canonicalised so that equal roots share one auxiliary variable")
    rho, D, g = z3.Reals("rho D g")
    evr = S.rv(ev)
    for cls, resname, dname, Dname, which in ((CP.additive_term_rho1, "hsp1", "d1", "D1", "rho1"), (CP.additive_term_rho2, "hpp1", "q1", "D2", "rho2")):
        S.reset()
        S.ST.sqrt_mode = "canon"
        expr = _residual_expr(cls, resname)
        ob.note("%s residual under test: %s" % (which, " ".join(expr.split())))
        ctx = types.SimpleNamespace(saved_tensors=(SymTensor(np.array([rho], dtype=object)), SymTensor(np.array([D], dtype=object))), needs_input_grad=(True, True))
        with symbolic_factories():
            dh, dD = cls.backward(ctx, SymTensor(np.array([g], dtype=object)))
        # the same gradients must come back when only one of the two inputs is differentiable (h_sp from the table and
        # learned exponents, or the reverse)
        for nig in ((True, False), (False, True)):
            ctx1 = types.SimpleNamespace(saved_tensors=ctx.saved_tensors, needs_input_grad=nig)
            with symbolic_factories():
                part = cls.backward(ctx1, SymTensor(np.array([g], dtype=object)))
            for k, full in enumerate((dh, dD)):
                if not nig[k]:
                    continue
                lab = "a:%s slot %d with needs_input_grad=%s" % (which, k, nig)
                if not isinstance(part[k], SymTensor):
                    if replay_rho_backward(which, nig):
                        ob.violation("%s.backward returns no gradient for a differentiable input when the other input is not differentiable (needs_input_grad=%s): the dependence of the additive term on it is dropped" % (cls.__name__, nig), {"module": "harness.C07", "func": "replay_rho_backward", "args": {"which": which, "needs": list(nig)}})
                        return
                    raise HarnessError("missing-slot counterexample did not reproduce (%s)" % lab)
                v0, _ = smt.prove(part[k].a[0] == full.a[0], [rho > 0, D > 0], lab, "nra", 60)
                ob.verdict(v0, lab)
        S.ST.dual_n = 2
        try:
            r = SymTensor(np.array([Dual(rho, (z3.RealVal(1), z3.RealVal(0)))], dtype=object))
            d = SymTensor(np.array([Dual(D, (z3.RealVal(0), z3.RealVal(1)))], dtype=object))
            with symbolic_factories():
                H = eval("(" + expr + ")", {"torch": torch, dname: 0.5 / r, Dname: d})
            Hr, HD = H.a[0].t
        finally:
            S.ST.dual_n = 0
        base = [rho > 0, D > 0, g != 0]
        expect_feasible(ob, base, "rho, D > 0", "nra")
        # nested divisions p/(a/b) are flattened to p*b/a; the side conditions a,b != 0 are proved separately
        side_obl = []
        dh_f = smt.flatten_div(z3.simplify(dh.a[0]), side_obl)
        dD_f = smt.flatten_div(z3.simplify(dD.a[0]), side_obl)
        for o in side_obl:
            v0, _ = smt.prove(o, base, "a:%s denominator defined" % which, "nra", 60)
            ob.verdict(v0, "a:%s denominator defined" % which)
        claims = [("d rho/d h = 1/(ev dH/drho)", dh_f * evr * Hr == g), ("d rho/d D = -(dH/dD)/(dH/drho)", dD_f * Hr == -g * HD)]
        for name, c in claims:
            lab = "a:%s %s" % (which, name)
            v, m = smt.prove(c, base, lab, "nra", 120)
            if v == "sat":
                if replay_rho_backward(which):
                    ob.violation("%s.backward is not the implicit-function derivative of the equation solved in forward (%s): gradients w.r.t. h_sp/g_pp/g_p2/zeta through the additive terms are wrong" % (cls.__name__, name), {"module": "harness.C07", "func": "replay_rho_backward", "args": {"which": which}})
                else:
                    raise HarnessError("rho backward counterexample did not reproduce (%s)" % lab)
                break
            ob.verdict(v, lab)
        S.ST.sqrt_mode = "plain"


def replay_slots():
    """public API: d(gap)/d(g_sp) with scf_backward=1 vs central finite difference (formaldehyde, AM1)"""
    from seqm.Molecule import Molecule
    from seqm.basics import Energy
    from seqm.seqm_functions.constants import Constants
    from .common import quiet

    const = Constants()
    sp = torch.tensor([[8, 6, 1, 1]])
    xyz = torch.tensor([[[0.0, 0.0, 1.21], [0.0, 0.0, 0.0], [0.0, 0.94, -0.54], [0.1, -0.94, -0.55]]])

    def gap(shift, grad=False):
        p = {"method": "AM1", "scf_eps": 1e-10, "scf_converger": [1], "scf_backward": 1, "learned": ["g_sp"]}
        with quiet():
            m0 = Molecule(const, {"method": "AM1", "scf_eps": 1e-10, "scf_converger": [1]}, xyz.clone(), sp)
            base = m0.parameters["g_sp"].detach().clone()
            t = (base + shift).requires_grad_(grad)
            m = Molecule(const, p, xyz.clone(), sp, learned_parameters={"g_sp": t})
            m.verbose = False
            out = Energy(p)(m, learned_parameters={"g_sp": t}, all_terms=True)
        return out[6].sum(), m, t

    gval, m, t = gap(torch.zeros(4), True)
    (ga,) = torch.autograd.grad(gval, m.parameters["g_sp"], allow_unused=True)
    if ga is None:
        print("replay slots: no gradient reaches g_sp")
        return True
    h = 1e-4
    e = torch.zeros(4)
    e[0] = h
    fd = (gap(e)[0].item() - gap(-e)[0].item()) / (2 * h)
    print("replay d(gap)/d(g_sp[O]) scf_backward=1: autograd %.6e vs FD %.6e" % (ga[0].item(), fd))
    return abs(ga[0].item() - fd) > 1e-4 * max(1.0, abs(fd))


@obligation(PID, "d", title="implicit SCF adjoint: the gradient returned in the k-th slot of SCF.backward is the vector-Jacobian product with respect to the k-th forward input (M, w, W, g_ss, g_pp, g_sp, g_p2, h_sp), for every subset of differentiable inputs")
def ob_d(ob):
    from seqm.seqm_functions import scf_loop as SL

    ob.encodes(SL.SCF.forward, SL.SCF.backward)
    ob.bound("symbolic-tag execution: every forward input carries its own tag symbol; all 8 single-input subsets, the full set and 3 mixed subsets of differentiable inputs")
    ob.assume("SCF iterations, Fock build, eigen-solver, autograd products and adjoint solvers are recorders")
    e = z3.Real("eps")
    subsets = [[n] for n in scfbw.NAMES] + [list(scfbw.NAMES), ["gsp", "gp2"], ["M", "hsp"], ["w", "gss", "gpp"]]
    for req in subsets:
        S.reset()
        ctx, inp = scfbw.forward("A", "AM1", SymTensor(np.array(e, dtype=object)), requires=req)
        r = scfbw.backward(ctx)
        out = r["out"]
        ob.require(len(out) == 30, "backward must return one entry per forward input, got %d" % len(out))
        ok = True
        for k, name in enumerate(scfbw.NAMES):
            o = out[k]
            if name in req:
                tag = z3.Real("tag_%s_A" % name)
                if not isinstance(o, SymTensor):
                    ok = False
                else:
                    terms = {str(v) for v in S.free_vars(o.a.reshape(-1)[0])}
                    if terms & {"tag_%s_A" % n for n in scfbw.NAMES} != {"tag_%s_A" % name}:
                        ok = False
            else:
                if o is not None:
                    ok = False
        ok = ok and all(x is None for x in out[8:])
        if not ok:
            if replay_slots():
                ob.violation("SCF.backward routes the gradient of a Hamiltonian parameter into another parameter's slot (differentiable inputs %s)" % req, {"module": "harness.C07", "func": "replay_slots", "args": {}})
            else:
                raise HarnessError("gradient-slot counterexample did not reproduce (subset %s)" % req)
            return
        ob.discharged("d:subset %s" % req)
    ob.sample({"slots": [str(o.a.reshape(-1)[0]) if isinstance(o, SymTensor) else None for o in out[:8]]})


def replay_adjoint(name):
    """public API, formaldehyde/AM1: gradients of density-dependent outputs (gap, frontier orbital energies, atomic
    populations) w.r.t. the one-centre integral `name` with scf_backward=1 vs central finite differences"""
    from seqm.Molecule import Molecule
    from seqm.basics import Energy
    from seqm.seqm_functions.constants import Constants
    from .common import quiet

    const = Constants()
    species = torch.tensor([[8, 6, 1, 1]])
    xyz = torch.tensor([[[0.03, 0.02, 0.01], [1.22, 0.05, -0.03], [1.85, 0.95, 0.10], [1.80, -0.93, -0.08]]])

    def run(value, scf_backward):
        sp = {"method": "AM1", "scf_eps": 1e-10, "scf_converger": [1], "sp2": [False], "learned": [name] if value is not None else [], "scf_backward": scf_backward, "eig": True}
        with quiet():
            mol = Molecule(const, sp, xyz.clone(), species)
            mol.verbose = False
            out = Energy(sp)(mol, learned_parameters=({name: value} if value is not None else {}), all_terms=True)
        gap, e, P = out[6], out[7], out[8]
        q = P.diagonal(dim1=1, dim2=2).reshape(1, -1, 4).sum(-1)
        return mol, torch.cat([gap.reshape(-1), e[0, 4:8].reshape(-1), q.reshape(-1)])

    base = run(None, 0)[0].parameters[name].detach().clone()
    v = base.clone().requires_grad_(True)
    mol, y = run(v, 1)
    leaf = mol.parameters[name]
    worst = 0.0
    for atom in (0, 1):
        ad = []
        for k in range(y.numel()):
            g = torch.autograd.grad(y[k], leaf, retain_graph=True, allow_unused=True)[0]
            ad.append(0.0 if g is None else g[atom].item())
        h = 1e-4
        vp, vm = base.clone(), base.clone()
        vp[atom] += h
        vm[atom] -= h
        fd = ((run(vp, 0)[1] - run(vm, 0)[1]) / (2 * h)).detach()
        d = max(abs(a - f.item()) for a, f in zip(ad, fd))
        k = max(range(len(ad)), key=lambda i: abs(ad[i] - fd[i].item()))
        print("replay d(outputs)/d %s[atom %d] scf_backward=1: max |autograd - FD| = %.3e (output %d: %.6f vs %.6f)" % (name, atom, d, k, ad[k], fd[k].item()))
        worst = max(worst, d)
    return worst > 1e-5


_PUBLIC = {"gss": "g_ss", "gpp": "g_pp", "gp2": "g_p2", "hsp": "h_sp", "gsp": "g_sp"}


@obligation(PID, "e", title="implicit SCF adjoint returns partial derivatives: with M and w carrying the autograd history that ties them to g_ss/g_pp/g_p2/h_sp, chaining the returned slots through that history gives the total derivative of the SCF map exactly once, for every differentiable parameter")
def ob_e(ob):
    from seqm.seqm_functions import scf_loop as SL

    ob.encodes(SL.SCF.forward, SL.SCF.backward)
    ob.bound("symbolic-tag execution with an autograd-history model: w = w(g_ss, g_pp, g_p2, h_sp), M = M(g_ss, g_pp, g_p2, h_sp) with symbolic Jacobian coefficients; partial derivatives a_x of the SCF map w.r.t. each of its 8 tensor inputs symbolic; upstream gradient symbolic; 7 realistic sets of differentiable inputs (each one-centre integral alone with M, w; g_sp alone; coordinates only; all)")
    ob.assume("torch.autograd.grad follows every history path from the output to each requested input, including paths through other requested inputs (stub contract); detach() returns a history-free alias", "SCF iterations, Fock build, eigen-solver and adjoint fixed-point solvers are recorders; the adjoint solve returns the upstream gradient (contraction part not under test here)")
    e = z3.Real("eps")
    cases = [[r, "w", "M"] for r in scfbw.HIST_ROOTS] + [["gsp"], ["w", "M"], list(scfbw.NAMES)]
    for req in cases:
        S.reset()
        ctx, inp = scfbw.forward("A", "AM1", SymTensor(np.array(e, dtype=object)), requires=req)
        h = scfbw.attach_history(inp, req)
        out, a, u = scfbw.backward_with_history(ctx)
        G = {}
        for k, n in enumerate(scfbw.NAMES):
            G[n] = out[k].a.reshape(-1)[0] if isinstance(out[k], SymTensor) else z3.RealVal(0)
            ob.require((n in req) == isinstance(out[k], SymTensor), "slot %s: differentiable=%s but returned %r" % (n, n in req, type(out[k]).__name__))
        claims = []
        for t in ("M", "w"):
            if t in req:
                claims.append((t, G[t] == u * a[t]))
        for r in ("gss", "gpp", "gp2", "hsp", "gsp", "W"):
            if r not in req:
                continue
            hw, hM = h.get(("w", r), z3.RealVal(0)), h.get(("M", r), z3.RealVal(0))
            claims.append((r, G[r] + G["w"] * hw + G["M"] * hM == u * (a[r] + a["w"] * hw + a["M"] * hM)))
        for r, c in claims:
            lab = "e:%s total derivative w.r.t. %s" % ("+".join(req), r)
            v, m = smt.prove(c, [], lab, "nra", 60)
            if v == "sat":
                pub = _PUBLIC.get(r)
                ob.sample({"case": req, "root": r, "returned": str(z3.simplify(G[r])), "model": {str(d): str(m[d]) for d in m.decls()} if m is not None else None})
                if pub and replay_adjoint(pub):
                    ob.violation("SCF.backward differentiates w.r.t. saved inputs that still carry their autograd history: the dependence of the integrals on %s is followed inside backward and again by the caller's graph (density-dependent outputs get wrong %s gradients with scf_backward=1)" % (pub, pub), {"module": "harness.C07", "func": "replay_adjoint", "args": {"name": pub}})
                    return
                raise HarnessError("adjoint history counterexample did not reproduce (%s)" % lab)
            ob.verdict(v, lab)
    # sensitivity twin: a history path that the model would not follow must be noticed
    x, y = z3.Reals("x y")
    expect_refuted(ob, 2 * x * y == x * y, [], "twin: a doubled history term is not equal to the single one", "nra")


_FORMALDEHYDE = ([[8, 6, 1, 1]], [[[0.03, 0.02, 0.01], [1.22, 0.05, -0.03], [1.85, 0.95, 0.10], [1.80, -0.93, -0.08]]])


def replay_param_handover(method, name, mode):
    """public API (formaldehyde): supply `name` as a differentiable tensor (leaf / non-leaf / callable of the geometry) and
    compare the gradient that reaches the caller's tensor with a central finite difference of Etot"""
    from seqm.Molecule import Molecule
    from seqm.basics import Energy
    from seqm.seqm_functions.constants import Constants
    from .common import quiet

    species, xyz0 = torch.tensor(_FORMALDEHYDE[0]), torch.tensor(_FORMALDEHYDE[1])

    def energy(lp, learned=True):
        sp = {"method": method, "scf_eps": 1e-10, "scf_converger": [1], "sp2": [False], "learned": [name] if learned else [], "scf_backward": 0}
        with quiet():
            mol = Molecule(Constants(), sp, xyz0.clone(), species, learned_parameters=lp)
            mol.verbose = False
            out = Energy(sp)(mol, learned_parameters=lp, all_terms=True)
        return mol, out[1].sum()

    base = energy(dict(), learned=False)[0].parameters[name].detach().clone()
    h = 1e-5
    wgt = torch.ones(1, requires_grad=True)
    if mode == "leaf":
        caller = base.clone().requires_grad_(True)
        lp = {name: caller}
        fd = None
    elif mode == "nonleaf":
        caller = wgt
        lp = {name: base * wgt}
    else:
        caller = wgt
        lp = lambda species, coordinates: {name: base * wgt}  # noqa: E731
    try:
        _, E = energy(lp)
    except Exception as ex:  # noqa
        print("replay hand-over %s/%s/%s: raised %s: %s" % (method, name, mode, type(ex).__name__, str(ex)[:110]))
        return True
    g = torch.autograd.grad(E, caller, allow_unused=True)[0]
    if g is None:
        print("replay hand-over %s/%s/%s: no gradient reaches the caller's tensor" % (method, name, mode))
        return True
    if mode == "leaf":
        e = torch.zeros_like(base)
        e[1] = h
        fd = (energy({name: base + e})[1] - energy({name: base - e})[1]).item() / (2 * h)
        got = g[1].item()
    else:
        fd = (energy({name: base * (1 + h)})[1] - energy({name: base * (1 - h)})[1]).item() / (2 * h)
        got = g.item()
    print("replay hand-over %s/%s/%s: autograd %.8f vs FD %.8f" % (method, name, mode, got, fd))
    return abs(got - fd) > 1e-5 * max(1.0, abs(fd))


@obligation(PID, "f", title="parameter hand-over: a caller-supplied differentiable tensor (leaf, non-leaf, or returned by a callable of the geometry) is accepted, and the tensor the calculation uses is an identity function of it (unit Jacobian), for every learnable parameter name of MNDO/AM1/PM3, through Molecule.__init__ and Energy._prepare_molecule_inputs")
def ob_f(ob):
    import seqm.basics as B
    from seqm.Molecule import Molecule
    from seqm.seqm_functions.constants import Constants
    from .common import quiet

    ob.encodes(B.Energy._prepare_molecule_inputs, B.Pack_Parameters.forward, Molecule.__init__)
    ob.bound("water, methods AM1/PM3/MNDO, every name in the method's parameter list supplied alone; values symbolic reals; forward-mode dual numbers with one tangent direction per atom; three supply modes (leaf tensor, non-leaf tensor, callable returning a non-leaf tensor) x two entry points")
    ob.assume("copy.deepcopy on a tensor follows torch.Tensor.__deepcopy__: refuses non-leaf tensors, and the copy of a leaf is a new leaf into which derivatives of the original do not flow (modelled by dropping the tangents); clone() keeps them", "Parser and the parameter tables run concretely")
    species = torch.tensor([[8, 1, 1]])
    xyz = torch.tensor([[[0.0, 0.0, 0.0], [0.96, 0.0, 0.0], [-0.24, 0.93, 0.0]]])
    n = 3
    methods = ("AM1", "PM3", "MNDO")
    for method in methods:
        names = list(B.parameterlist[method])
        for name in names:
            for mode in ("leaf", "nonleaf", "callable"):
                for entry in ("Energy", "Molecule"):
                    S.reset()
                    S.ST.dual_n = n
                    try:
                        vals = [z3.Real("th_%d" % i) for i in range(n)]
                        th = SymTensor(np.array([Dual(vals[i], tuple(z3.RealVal(1 if j == i else 0) for j in range(n))) for i in range(n)], dtype=object))
                        th.requires_grad = True
                        th.is_leaf_model = mode == "leaf"
                        lp = (lambda sp_, co_: {name: th}) if mode == "callable" else {name: th}
                        sp = {"method": method, "scf_eps": 1e-8, "scf_converger": [1], "sp2": [False], "learned": [name]}
                        err = None
                        try:
                            with quiet(), symbolic_factories():
                                if entry == "Molecule":
                                    mol = Molecule(Constants(), sp, xyz.clone(), species, learned_parameters=lp)
                                else:
                                    sp0 = dict(sp, learned=[])
                                    mol = Molecule(Constants(), sp0, xyz.clone(), species)
                                    sp["elements"] = sp0["elements"]
                                    en = B.Energy(sp)
                                    en._prepare_molecule_inputs(mol, lp)
                            used = mol.parameters[name]
                        except RuntimeError as ex:
                            if "deepcopy protocol" not in str(ex):
                                raise HarnessError("unexpected error while packing %s (%s, %s): %s" % (name, mode, entry, ex))
                            err = str(ex)
                    finally:
                        S.ST.dual_n = 0
                    lab = "f:%s %s %s via %s" % (method, name, mode, entry)
                    bad = None
                    if err is not None:
                        bad = "is refused (%s)" % err[:90]
                    elif not isinstance(used, SymTensor):
                        bad = "is replaced by a constant"
                    else:
                        cl = []
                        for i in range(n):
                            x = used.a.reshape(-1)[i]
                            xv, xt = (x.v, x.t) if isinstance(x, Dual) else (x, (z3.RealVal(0),) * n)
                            cl.append(xv == vals[i])
                            cl.extend(xt[j] == (1 if j == i else 0) for j in range(n))
                        v, m = smt.prove(z3.And(*cl), [], lab, "lra", 30)
                        if v == "sat":
                            bad = "reaches the calculation as a disconnected copy (no derivative flows back to the caller's tensor)"
                        elif v != "unsat":
                            ob.inconclusive(lab)
                            continue
                    if bad is None:
                        ob.discharged(lab)
                        continue
                    fid = "C07-parameters-deepcopied"
                    if ob.is_known(fid):
                        if not ob.known_lines:
                            ob.known_finding(fid, ob.is_known(fid)["what"])
                        continue
                    if replay_param_handover(method, name, mode):
                        ob.violation("%s: supplied %s parameter %s %s" % (entry, mode, name, bad), {"module": "harness.C07", "func": "replay_param_handover", "args": {"method": method, "name": name, "mode": mode}})
                        return
                    raise HarnessError("hand-over counterexample did not reproduce (%s: %s)" % (lab, bad))
    x = z3.Real("x")
    expect_refuted(ob, x == x + 1, [], "twin: a dropped tangent (0 instead of 1) is noticed", "lra")


def replay_eigh_backward(second_order=False):
    """float64: degen_symeig gradient (and, for second_order, the derivative of that gradient taken through a
    differentiable replay of backward) vs torch.linalg.eigh's own autograd on a non-degenerate matrix"""
    from seqm.seqm_functions.diag import degen_symeig

    torch.manual_seed(3)
    A0 = torch.randn(4, 4, dtype=torch.float64)
    A0 = A0 + A0.T + torch.diag(torch.arange(4.0, dtype=torch.float64) * 3)
    wl = torch.randn(4, dtype=torch.float64)
    wv = torch.randn(4, 4, dtype=torch.float64)

    def loss(fn, A):
        l, v = fn(A)
        P = v[:, :2] @ v[:, :2].T  # projector: does not depend on eigenvector signs
        return (wl * l).sum() + (wv * P).sum()

    res = []
    for fn in (degen_symeig.apply, lambda A: torch.linalg.eigh(A, UPLO="U")):
        A = A0.clone().requires_grad_(True)
        (g,) = torch.autograd.grad(loss(fn, A), A, create_graph=second_order)
        if second_order:
            g = g + g.T
            (h,) = torch.autograd.grad((g * wv).sum(), A, allow_unused=True)
            res.append(torch.zeros_like(A0) if h is None else (h + h.T))
        else:
            res.append(g + g.T)
    d = (res[0] - res[1]).abs().max().item()
    print("replay degen_symeig %s derivative vs torch.linalg.eigh autograd: max difference %.3e" % ("second" if second_order else "first", d))
    return d > 1e-8


@obligation(PID, "b", title="degen_symeig: backward is the adjoint of the eigen-decomposition differential for every non-degenerate spectrum (2x2 and 3x3, arbitrary orthonormal eigenvectors, eigenvalues, upstream gradients), and forward saves its own outputs so that a differentiable replay of backward (Hessians) sees their dependence on the matrix")
def ob_b(ob):
    from seqm.seqm_functions import diag as DG

    ob.encodes(DG.degen_symeig.forward, DG.degen_symeig.backward)
    ob.bound("n = 2 (rotation by a symbolic angle: c^2 + s^2 = 1) and n = 3 (product of two symbolic Givens rotations); eigenvalues separated by more than the degeneracy threshold; upstream gradients and the symmetric perturbation dA symbolic")
    ob.assume("first-order perturbation theory of a symmetric eigenproblem is the reference: d lambda_i = v_i' dA v_i, d v_i = sum_{j != i} v_j (v_j' dA v_i)/(lambda_i - lambda_j)")
    # (1) forward saves the returned tensors themselves
    rec = types.SimpleNamespace(save_for_backward=lambda *t: setattr(rec, "saved", t))
    A = torch.tensor([[2.0, 0.3, 0.1], [0.3, 1.0, -0.2], [0.1, -0.2, -1.0]], dtype=torch.float64)
    out = DG.degen_symeig.forward(rec, A)
    if not (len(rec.saved) == 2 and rec.saved[0] is out[0] and rec.saved[1] is out[1]):
        if replay_eigh_backward(True):
            ob.violation("degen_symeig.forward saves tensors that are not its outputs: a differentiable replay of backward treats eigenvalues/eigenvectors as constants, so second derivatives (Hessians, normal modes) through the eigensolver are wrong", {"module": "harness.C07", "func": "replay_eigh_backward", "args": {"second_order": True}})
            return
        raise HarnessError("saved-tensor identity violated but second derivatives still agree")
    ob.discharged("b:forward saves its outputs")
    thr = S.rv(float(DG.DEGEN_THRESHOLD))
    for n in (2, 3):
        S.reset()
        c1, s1, c2, s2 = z3.Reals("c1 s1 c2 s2")
        if n == 2:
            V = np.array([[c1, -s1], [s1, c1]], dtype=object)
            assm = [c1 * c1 + s1 * s1 == 1]
        else:
            G1 = np.array([[c1, -s1, 0], [s1, c1, 0], [0, 0, 1]], dtype=object)
            G2 = np.array([[1, 0, 0], [0, c2, -s2], [0, s2, c2]], dtype=object)
            V = np.array([[sum(G1[i, k] * G2[k, j] for k in range(3)) for j in range(3)] for i in range(3)], dtype=object)
            V = np.vectorize(lambda e: z3.simplify(e) if isinstance(e, z3.ExprRef) else z3.RealVal(e), otypes=[object])(V)
            assm = [c1 * c1 + s1 * s1 == 1, c2 * c2 + s2 * s2 == 1]
        lam = [z3.Real("l%d" % i) for i in range(n)]
        assm += [lam[i + 1] - lam[i] > thr for i in range(n - 1)]
        gl = [z3.Real("gl%d" % i) for i in range(n)]
        gV = np.array([[z3.Real("gv%d_%d" % (i, j)) for j in range(n)] for i in range(n)], dtype=object)
        dA = np.empty((n, n), dtype=object)
        for i in range(n):
            for j in range(i, n):
                dA[i, j] = dA[j, i] = z3.Real("dA%d_%d" % (i, j))
        ctx = types.SimpleNamespace(saved_tensors=(SymTensor(np.array(lam, dtype=object)), SymTensor(V.copy())))

        def fn():
            with symbolic_factories(bool_symbolic=True):
                r = DG.degen_symeig.backward(ctx, SymTensor(np.array(gl, dtype=object)), SymTensor(gV.copy()))
            return r.a.copy()

        ex = Explorer(assumptions=assm, piecewise="decide", kind="nra", max_paths=40)
        res = ex.run(fn)
        ob.paths += ex.paths
        ob.require(len(res) >= 1, "no feasible path through degen_symeig.backward")
        for pc, side, R in res:
            S.ST.side[:] = side
            base = assm + list(pc)
            # reference: <g_lambda, d lambda> + <g_V, d V>
            M = [[sum(V[a, i] * dA[a, b] * V[b, j] for a in range(n) for b in range(n)) for j in range(n)] for i in range(n)]  # V' dA V
            ref = sum(gl[i] * M[i][i] for i in range(n))
            for i in range(n):
                for j in range(n):
                    if i != j:
                        # d v_i = sum_j v_j M[j][i]/(l_i - l_j)
                        ref = ref + sum(gV[a, i] * V[a, j] for a in range(n)) * M[j][i] / (lam[i] - lam[j])
            got = sum(R[a, b] * dA[a, b] for a in range(n) for b in range(n))
            # the identity is bilinear in (upstream gradient, dA): decide it coefficient by coefficient
            gvars = list(gl) + [gV[i, j] for i in range(n) for j in range(n)]
            dvars = [dA[i, j] for i in range(n) for j in range(i, n)]
            diff = got - ref
            for gi, g1 in enumerate(gvars):
                for di, d1 in enumerate(dvars):
                    sub = [(x, z3.RealVal(1 if x is g1 else 0)) for x in gvars] + [(x, z3.RealVal(1 if x is d1 else 0)) for x in dvars]
                    coef = z3.simplify(z3.substitute(diff, *sub))
                    lab = "b:adjoint identity n=%d, coefficient of %s * %s" % (n, g1, d1)
                    side_obl = []
                    claim = smt.flatten_div(coef, side_obl) == 0
                    v, m = smt.prove(claim, base, lab, "nra", 60)
                    if v == "sat":
                        if replay_eigh_backward(False):
                            ob.violation("degen_symeig.backward is not the adjoint of the eigen-decomposition differential for a non-degenerate %dx%d spectrum (%s)" % (n, n, lab), {"module": "harness.C07", "func": "replay_eigh_backward", "args": {"second_order": False}})
                            return
                        raise HarnessError("eigen-backward counterexample did not reproduce (n=%d)" % n)
                    ob.verdict(v, lab)
    x = z3.Real("x")
    expect_refuted(ob, 2 * x == x, [], "twin: a doubled eigenvalue term is noticed", "nra")


def replay_unrolled(converger):
    """public API, formaldehyde/AM1, scf_backward=2 with the given converger: d gap / d U_ss and d q(O) / d U_ss by
    back-propagation through the SCF loop vs central finite differences"""
    from seqm.Molecule import Molecule
    from seqm.basics import Energy
    from seqm.seqm_functions.constants import Constants
    from .common import quiet

    species, xyz = torch.tensor(_FORMALDEHYDE[0]), torch.tensor(_FORMALDEHYDE[1])
    name = "U_ss"

    def run(value, bw):
        sp = {"method": "AM1", "scf_eps": 1e-10, "scf_converger": converger, "sp2": [False], "learned": [name] if value is not None else [], "scf_backward": bw, "eig": True}
        with quiet():
            mol = Molecule(Constants(), sp, xyz.clone(), species, learned_parameters=({name: value} if value is not None else {}))
            mol.verbose = False
            out = Energy(sp)(mol, learned_parameters=({name: value} if value is not None else {}), all_terms=True)
        gap, P = out[6], out[8]
        q = P.diagonal(dim1=1, dim2=2).reshape(1, -1, 4).sum(-1)
        return torch.cat([gap.reshape(-1), q[0, :2].reshape(-1)])

    base = None
    with quiet():
        m0 = Molecule(Constants(), {"method": "AM1", "scf_eps": 1e-10, "scf_converger": converger}, xyz.clone(), species)
    base = m0.parameters[name].detach().clone()
    v = base.clone().requires_grad_(True)
    y = run(v, 2)
    worst = 0.0
    h = 1e-4
    vp, vm = base.clone(), base.clone()
    vp[0] += h
    vm[0] -= h
    fd = ((run(vp, 0) - run(vm, 0)) / (2 * h)).detach()
    for k in range(y.numel()):
        g = torch.autograd.grad(y[k], v, retain_graph=True, allow_unused=True)[0]
        ad = 0.0 if g is None else g[0].item()
        worst = max(worst, abs(ad - fd[k].item()))
        print("replay unrolled backward (converger %s): output %d d/dU_ss[O] autograd %.8f vs FD %.8f" % (converger, k, ad, fd[k].item()))
    return worst > 1e-5


@obligation(PID, "g", title="unrolled back-propagation (scf_backward=2): through each SCF driver (fixed mixing, adaptive mixing, adaptive + Pulay/DIIS) the derivative carried by the returned density is the derivative of the self-consistent fixed point — no tensor on the value path is detached or written under no_grad (mixing heuristics kept off the tape on purpose do not change that limit)")
def ob_g(ob):
    from seqm.seqm_functions import scf_loop as SL
    from . import scfsim as X

    ob.encodes(SL.scf_forward0, SL.scf_forward1, SL.scf_forward2, SL.adaptive_mix)
    ob.bound("one 4x4 model system; Fock build and density step replaced by a linear contraction whose fixed point and derivative are known in closed form (P* = (a 1 + c1 H)/(1 - c1 g), dP* = c1 dH/(1 - c1 g)); values concrete rationals, the direction dH of the Hamiltonian derivative symbolic (10 independent entries); 18 / 9 and 18 / 12 iterations")
    ob.assume("engine grad model: dual-number tangents follow torch's tape, i.e. detach() and everything computed or stored under torch.no_grad() carry no tangent", "the extrapolation factor of adaptive mixing and the DIIS eigen-decomposition (both under no_grad in the code) are evaluated in floats", "tolerance 1e-6 on the derivative: the unrolled derivative converges geometrically (contraction 0.1 per iteration)")
    tol = z3.RealVal("1e-6")
    absz = lambda e: z3.If(e >= 0, e, -e)
    # driver 1 is also stopped after 9 iterations: its extrapolation (every third iteration) is only active while successive
    # iterates still differ in floating point, which in the contracting model ends after about 12 iterations
    for drv, iters, conv in ((0, 18, [0, 0.3]), (1, 9, [1]), (1, 18, [1]), (2, 12, [2])):
        tan, exact, val, fixed, H0 = X.unrolled_derivative(drv, iters)
        n = tan.shape[0]
        syms = [H0[i, j] for i in range(n) for j in range(i, n)]
        for i in range(n):
            for j in range(i, n):
                vdev = z3.simplify(absz(val[i, j] - S.rv(fixed[i][j])))
                ob.require(z3.is_true(z3.simplify(vdev <= z3.RealVal("1e-5"))), "model SCF (driver %d) did not reach its fixed point: P[%d,%d] off by %s" % (drv, i, j, vdev))
                lab = "g:driver %d, %d iterations, dP[%d,%d]" % (drv, iters, i, j)
                # |tangent - exact| <= tol * sum |dH| for every direction dH  (linear forms: decided coefficient by coefficient)
                bad = None
                for sy in syms:
                    sub = [(x, z3.RealVal(1 if x is sy else 0)) for x in syms]
                    d = z3.simplify(z3.substitute(tan[i, j] - exact[i, j], *sub))
                    v, m = smt.prove(absz(d) <= tol, [], lab + " coefficient of %s" % sy, "lra", 20)
                    if v != "unsat":
                        bad = (sy, v)
                        break
                if bad is None:
                    ob.discharged(lab)
                    continue
                if bad[1] != "sat":
                    ob.inconclusive(lab)
                    continue
                if replay_unrolled(conv):
                    ob.violation("SCF driver %d (scf_converger %s) under scf_backward=2: the derivative carried by the returned density is not the derivative of the self-consistent solution (a tensor on the value path is cut from the tape): gradients of gap, orbital energies, charges and all second derivatives are wrong" % (drv, conv), {"module": "harness.C07", "func": "replay_unrolled", "args": {"converger": conv}})
                    return
                raise HarnessError("unrolled-derivative counterexample did not reproduce (%s, coefficient of %s)" % (lab, bad[0]))
    x = z3.Real("x")
    expect_refuted(ob, absz(x - x * z3.RealVal("11/10")) <= tol, [x == 1], "twin: a 10 percent error in the derivative is noticed", "lra")
