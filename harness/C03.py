"""C03 — converged => self-consistent; failure flagged; termination (engine E1, partial: the mechanisms the anchors name)."""
import itertools
import signal
from fractions import Fraction

from .common import *  # noqa: F401,F403
from .common import S, smt, z3, np, torch, SymTensor, symbolic_factories, Explorer, obligation, HarnessError, expect_refuted, expect_feasible, validate_close

PID = "C03"
FINDING_SP2 = "C03-sp2-nontermination"


def absz(e):
    return z3.If(e >= 0, e, -e)


# ------------------------------------------------------------------------------------------------
# a: get_error — a row is reported converged only if all of its own residuals are within bounds
# ------------------------------------------------------------------------------------------------


def _get_error_inputs(nmol, n, unres):
    shp = (nmol, 2, n, n) if unres else (nmol, n, n)
    return dict(Pold=S.reals("Po", shp), P=S.reals("P", shp), En=S.reals("En", (nmol,)), E=S.reals("E", (nmol,)), err0=S.reals("err0", (nmol,)), dm0=S.reals("dm0", (nmol,)), de0=S.reals("de0", (nmol,)), diis=S.reals("diis", (nmol,)))


def replay_get_error(vals, active, unres, use_diis, row):
    """float64 call of the real get_error with the model values; True if `row` is reported converged although one of its
    residuals exceeds its bound (bounds: the module's own constants, each required <= 100)"""
    from seqm.seqm_functions import scf_loop as SL

    t = lambda k: torch.tensor(vals[k], dtype=torch.float64)
    Pold, P = t("Pold"), t("P")
    nmol = P.shape[0]
    n = P.shape[-1]
    act = torch.tensor(active)
    eps = float(vals["eps"])
    nc, _, _ = SL.get_error(Pold, P, act, torch.full((nmol,), float(n)), t("dm0").clone(), t("de0").clone(), t("En"), t("err0").clone(), t("E"), eps, diis_error=(t("diis") if use_diis else None), unrestricted=unres)
    dP = P[row] - Pold[row]
    if unres:
        dP = dP.sum(dim=0)
    res = dict(dE=abs(vals["En"][row] - vals["E"][row]), rms=dP.norm().item() / n, mx=dP.abs().max().item(), diis=vals["diis"][row] if use_diis else 0.0)
    lim = dict(dE=eps, rms=min(SL.CONVERGENCE_DM_ERROR_FACTOR, 100) * eps, mx=min(SL.CONVERGENCE_DM_ELEMENT_FACTOR, 100) * eps, diis=min(SL.CONVERGENCE_DIIS_FACTOR, 100) * eps)
    over = {k: (res[k], lim[k]) for k in res if res[k] > lim[k] * (1 + 1e-9)}
    print("replay get_error row %d: reported notconverged=%s residuals=%s limits=%s" % (row, bool(nc[row]), res, lim))
    return (not bool(nc[row])) and bool(over)


@obligation(PID, "a", title="get_error: an active row is reported converged only if |dE|, rms dP, max dP (and DIIS error) of that row are all within bounds proportional to eps; rows are independent")
def ob_a(ob):
    from seqm.seqm_functions import scf_loop as SL

    ob.encodes(SL.get_error)
    ob.bound("2 molecules, 2x2 density blocks (RHF) / 2x2x2 (UHF), every concrete active mask, with and without DIIS error; all tensor values and eps>0 symbolic reals")
    ob.assume("proportionality factors are the module constants read at run time, each required to be <= 100 (the property asks for bounds proportional to the threshold)")
    nmol, n = 2, 2
    facs = dict(rms=SL.CONVERGENCE_DM_ERROR_FACTOR, mx=SL.CONVERGENCE_DM_ELEMENT_FACTOR, diis=SL.CONVERGENCE_DIIS_FACTOR)
    for k_, f in facs.items():
        if not (0 < f <= 100):
            ob.violation("convergence factor %s=%r is not a modest multiple of the threshold" % (k_, f), {"module": "harness.C03", "func": "replay_factor", "args": {}})
    eps = z3.Real("eps")
    msq = torch.tensor([float(n), float(n)])
    total_paths = 0
    twin_done = False
    for unres, use_diis in ((False, False), (False, True), (True, False)):
        inp = _get_error_inputs(nmol, n, unres)
        for active in itertools.product([True, False], repeat=nmol):
            if not any(active):
                continue

            def fn():
                err = SymTensor(inp["err0"].copy())
                dm = SymTensor(inp["dm0"].copy())
                de = SymTensor(inp["de0"].copy())
                with symbolic_factories():
                    nc, _, _ = SL.get_error(SymTensor(inp["Pold"]), SymTensor(inp["P"]), torch.tensor(active), msq, dm, de, SymTensor(inp["En"]), err, SymTensor(inp["E"]), SymTensor(np.array(eps, dtype=object)), diis_error=(SymTensor(inp["diis"]) if use_diis else None), unrestricted=unres)
                return nc.a.copy()

            ex = Explorer(assumptions=[eps > 0], piecewise="ite", kind="auto")
            res = ex.run(fn)
            total_paths += ex.paths
            for pc, side, nc in res:
                S.ST.side[:] = side
                for i in range(nmol):
                    if not active[i]:
                        continue
                    if unres:
                        dP = [inp["P"][i, 0, a, b] - inp["Pold"][i, 0, a, b] + inp["P"][i, 1, a, b] - inp["Pold"][i, 1, a, b] for a in range(n) for b in range(n)]
                    else:
                        dP = [inp["P"][i, a, b] - inp["Pold"][i, a, b] for a in range(n) for b in range(n)]
                    fro2 = sum(d * d for d in dP)
                    lim_r = z3.RealVal(Fraction(min(facs["rms"], 100))) * eps * n
                    within = [absz(inp["En"][i] - inp["E"][i]) <= eps, fro2 <= lim_r * lim_r] + [absz(d) <= z3.RealVal(Fraction(min(facs["mx"], 100))) * eps for d in dP]
                    if use_diis:
                        within.append(inp["diis"][i] <= z3.RealVal(Fraction(min(facs["diis"], 100))) * eps)
                    base = [eps > 0] + list(pc)
                    lab = "a:%s%s act=%s row=%d" % ("UHF" if unres else "RHF", "+diis" if use_diis else "", active, i)
                    v, m = smt.prove(z3.Implies(z3.Not(nc[i]), z3.And(*within)), base, lab, "auto", 60)
                    if v == "sat":
                        vals = {k: np.vectorize(lambda e: float(smt.model_value(m, e)))(inp[k]).tolist() for k in ("Pold", "P", "En", "E", "err0", "dm0", "de0", "diis")}
                        vals["eps"] = float(smt.model_value(m, eps))
                        args = dict(vals=vals, active=list(active), unres=unres, use_diis=use_diis, row=i)
                        if replay_get_error(**args):
                            ob.violation("get_error reports row %d converged although one of its residuals exceeds its bound (%s)" % (i, lab), {"module": "harness.C03", "func": "replay_get_error", "args": args})
                        else:
                            raise HarnessError("get_error counterexample did not reproduce: %s" % lab)
                    else:
                        ob.verdict(v, lab)
                    # row isolation: row i's verdict does not mention the other row's inputs
                    other = 1 - i
                    names = set()
                    for k_ in ("Pold", "P", "En", "E", "diis"):
                        names |= {str(x) for x in np.asarray(inp[k_][other]).reshape(-1)}
                    mentioned = {str(x) for x in S.free_vars(nc[i])} & names
                    if mentioned:
                        # decide semantically: substituting fresh values for the other row must not change the verdict
                        subs = [(z3.Real(nm), z3.Real(nm + "_alt")) for nm in mentioned]
                        v2, m2 = smt.prove(nc[i] == z3.substitute(nc[i], *subs), base + [z3.substitute(c, *subs) for c in pc], lab + " isolation", "auto", 60)
                        if v2 == "sat":
                            ob.violation("get_error: verdict of row %d depends on the other row's data" % i, {"module": "harness.C03", "func": "replay_factor", "args": {}})
                        else:
                            ob.verdict(v2, lab + " isolation")
                    else:
                        ob.discharged(lab + " isolation")
                if not twin_done and not unres and not use_diis and all(active):
                    # sensitivity twin: a spec that also demanded max|dP| <= eps (stricter than the code) must be refuted
                    dP = [inp["P"][0, a, b] - inp["Pold"][0, a, b] for a in range(n) for b in range(n)]
                    m_ = smt.check([eps > 0] + list(pc) + list(S.ST.side) + [z3.Not(nc[0]), z3.Or(*[absz(d) > eps for d in dP])], "twin:a", "auto", 60)[0]
                    if m_ == "sat":
                        twin_done = True
    ob.require(twin_done, "sensitivity twin for get_error never satisfiable")
    ob.paths = total_paths
    ob.sample({"paths": total_paths, "factors": facs})


def replay_factor():
    from seqm.seqm_functions import scf_loop as SL

    print("convergence factors:", SL.CONVERGENCE_DM_ERROR_FACTOR, SL.CONVERGENCE_DM_ELEMENT_FACTOR, SL.CONVERGENCE_DIIS_FACTOR)
    return True


# ------------------------------------------------------------------------------------------------
# b/c: SP2
# ------------------------------------------------------------------------------------------------


class LoopBound(Exception):
    pass


def _sp2_run(diag_entries, nocc, eps, K, assumptions):
    """explore the real SP2 on diag(entries) under the explorer with at most K loop iterations.
    returns list of (pc, side, ('returned'|'still-running', iterations, out_diag or None))"""
    from seqm.seqm_functions import SP2 as SP2mod

    n = len(diag_entries)
    A = np.full((1, n, n), z3.RealVal(0), dtype=object)
    for i, v in enumerate(diag_entries):
        A[0, i, i] = v
    count = {"iters": 0}
    orig_any = SymTensor.any

    def any_counted(self, dim=None, keepdim=False):
        r = orig_any(self, dim, keepdim)
        return r

    orig_bool = SymTensor.__bool__

    def bool_counted(self):
        d = orig_bool(self)
        if d:
            count["iters"] += 1
            if count["iters"] > K:
                raise LoopBound()
        return d

    def fn():
        count["iters"] = 0
        SymTensor.__bool__ = bool_counted
        try:
            with symbolic_factories(bool_symbolic=True):
                out = SP2mod.SP2(SymTensor(A.copy()), torch.tensor([nocc]), eps)
            return ("returned", count["iters"], np.array([out.a[0, i, i] for i in range(n)], dtype=object))
        except LoopBound:
            return ("still-running", count["iters"], None)
        finally:
            SymTensor.__bool__ = orig_bool

    ex = Explorer(assumptions=assumptions, piecewise="decide", kind="nra", max_paths=4000)
    res = ex.run(fn)
    return res, ex


def replay_sp2_hang(diag, nocc, eps=1e-4, seconds=10):
    """float64: the real SP2 on diag(...) under a watchdog; True if it has not returned after `seconds`"""
    from seqm.seqm_functions.SP2 import SP2

    class TO(Exception):
        pass

    def h(*a):
        raise TO()

    old = signal.signal(signal.SIGALRM, h)
    a = torch.diag(torch.tensor(diag, dtype=torch.float64)).unsqueeze(0)
    signal.alarm(seconds)
    try:
        r = SP2(a, torch.tensor([nocc]), eps)
        signal.alarm(0)
        print("replay SP2 diag=%s nocc=%d: returned, trace=%.6f" % (diag, nocc, r[0].trace().item()))
        return False
    except TO:
        print("replay SP2 diag=%s nocc=%d: still running after %d s (no iteration cap)" % (diag, nocc, seconds))
        return True
    finally:
        signal.alarm(0)
        signal.signal(signal.SIGALRM, old)


def replay_sp2_tolerance(diag, nocc, eps):
    """float64: trace error of the returned density vs the tolerance the caller may rely on: min(max(eps,1e-7),1e-3)"""
    from seqm.seqm_functions.SP2 import SP2

    a = torch.diag(torch.tensor(diag, dtype=torch.float64)).unsqueeze(0)
    r = SP2(a, torch.tensor([nocc]), eps)
    err = abs(r[0].trace().item() / 2.0 - nocc)
    allowed = min(max(eps, 1e-7), 1e-3)
    print("replay SP2 tolerance: diag=%s nocc=%d eps=%g -> |tr/2 - nocc| = %.3e, allowed %.3e" % (diag, nocc, eps, err, allowed))
    return err >= allowed * (1 + 1e-6)


@obligation(PID, "b", title="SP2 returns only with trace error below the tolerance the caller may rely on: min(max(eps, 1e-7), 1e-3), for every requested eps; purified occupations stay in [0,2] in eigenvalue order")
def ob_b(ob):
    from seqm.seqm_functions import SP2 as SP2mod

    ob.encodes(SP2mod.SP2)
    ob.bound("requested tolerance eps symbolic in (0,1); spectra diag(-1, 1-2*e0, 1), nocc=1, for e0 in {0.02, 0.03, 0.1, 0.3, 0.45} (trace-error ladders e0^(2^k) crossing the window [1e-7,1e-3) at different iterations); loop explored by path forking up to 8 iterations")
    ob.assume("float64 branch; reals not floats; documented clamp of the tolerance to [1e-7, 1e-3]")
    eps = z3.Real("eps")
    assm = [eps > 0, eps < 1]
    lo, hi = z3.RealVal("1e-7"), z3.RealVal("1e-3")
    allowed = z3.If(eps < lo, lo, z3.If(eps > hi, hi, eps))
    nret = 0
    twin = False
    for e0 in ("0.02", "0.03", "0.1", "0.3", "0.45"):
        yv = 1 - 2 * Fraction(e0)
        res, ex = _sp2_run([z3.RealVal(-1), z3.RealVal(yv), z3.RealVal(1)], 1, SymTensor(np.array(eps, dtype=object)), 8, assm)
        ob.paths += ex.paths
        for pc, side, (status, iters, out) in res:
            if status != "returned":
                ob.inconclusive("b:e0=%s path still running after 8 iterations" % e0)
                continue
            nret += 1
            S.ST.side[:] = side
            tr = sum(out) / 2
            base = assm + list(pc)
            lab = "b:e0=%s returned after %d iterations" % (e0, iters)
            claims = [("trace error below the reliable tolerance", absz(tr - 1) < allowed)]
            for i in range(3):
                claims.append(("occupation %d in [0,2]" % i, z3.And(out[i] >= 0, out[i] <= 2)))
            claims.append(("occupations ordered like the eigenvalues", z3.And(out[0] >= out[1], out[1] >= out[2])))
            for name, c in claims:
                v, m = smt.prove(c, base, lab + ": " + name, "auto", 60)
                if v == "sat":
                    ev = float(smt.model_value(m, eps))
                    args = dict(diag=[-1.0, float(yv), 1.0], nocc=1, eps=ev)
                    if name.startswith("trace") and replay_sp2_tolerance(**args):
                        ob.violation("SP2 returns with a trace error above the tolerance the caller may rely on (requested eps=%g, spectrum %s)" % (ev, args["diag"]), {"module": "harness.C03", "func": "replay_sp2_tolerance", "args": args})
                    elif not name.startswith("trace") and replay_sp2_occ(**args):
                        ob.violation("SP2 result violates '%s' (requested eps=%g)" % (name, ev), {"module": "harness.C03", "func": "replay_sp2_occ", "args": args})
                    else:
                        raise HarnessError("SP2 counterexample (%s, e0=%s, eps=%g) did not reproduce" % (name, e0, ev))
                else:
                    ob.verdict(v, lab + ": " + name)
            if not twin:
                # sensitivity twin: 'trace error < requested eps' (ignoring the documented floor) must be refutable on some path
                v, _ = smt.prove(absz(tr - 1) < eps, base, "twin:b", "auto", 60)
                twin = twin or v == "sat"
        ob.sample({"e0": e0, "paths": ex.paths, "feasibility_queries": ex.queries})
    ob.require(nret >= 5, "too few SP2 paths returned (vacuous)")
    ob.require(twin, "sensitivity twin (floor of the tolerance) not refuted")


def replay_sp2_occ(diag, nocc, eps):
    from seqm.seqm_functions.SP2 import SP2

    a = torch.diag(torch.tensor(diag, dtype=torch.float64)).unsqueeze(0)
    d = SP2(a, torch.tensor([nocc]), eps)[0].diagonal()
    print("replay SP2 occupations:", d.tolist())
    bad = bool((d < -1e-12).any() or (d > 2 + 1e-12).any() or (d[:-1] < d[1:] - 1e-12).any())
    return bad


@obligation(PID, "c", title="SP2 terminates: no valid spectrum keeps the purification loop running (iteration-bounded search for a non-returning family, replayed under a watchdog)")
def ob_c(ob):
    from seqm.seqm_functions import SP2 as SP2mod

    ob.encodes(SP2mod.SP2)
    K = 4 if ob.tier == "quick" else 6
    known = ob.is_known(FINDING_SP2)
    ob.bound("spectra diag(-1, y, y, 2) (doubly degenerate level, nocc=2: the degenerate pair sits at the Fermi level) and diag(-1, y, y+1, 2) (gap 1 at the Fermi level, nocc=2), y symbolic; eps=1e-4; loop unrolled to %d iterations; a path still running at the bound is a termination candidate and is replayed on the real float64 function under a 10 s watchdog" % K)
    y = z3.Real("y")
    zv = y + 1
    # (1) gapped family (gap 1 at the Fermi level): must return within the bound on every path
    assm = [y >= z3.RealVal("-0.9"), y <= z3.RealVal("0.4")]
    if ob.tier == "quick":
        res, running = [], []
        ob.note("gapped family is explored in the thorough tier only (degree-2^k univariate queries)")
    else:
        res, ex = _sp2_run([z3.RealVal(-1), y, zv, z3.RealVal(2)], 2, 1e-4, K, assm)  # K+2 (degree-256 queries) did not finish in 50 minutes
        ob.paths += ex.paths
        running = [(pc, side) for pc, side, (st, it, _) in res if st == "still-running"]
        ob.note("gapped family: %d paths, %d still running at the bound" % (ex.paths, len(running)))
    if ob.tier == "quick":
        pass
    elif running:
        hit = False
        for pc, side in running[:5]:
            v, m = smt.check(assm + list(pc) + list(side), "c:gapped witness", "nra", 60)
            if v == "sat":
                yv = float(smt.model_value(m, y))
                z_ = yv + 1.0
                if replay_sp2_hang([-1.0, yv, z_, 2.0], 2):
                    ob.violation("SP2 does not return for the gapped spectrum (-1, %g, %g, 2), nocc=2" % (yv, z_), {"module": "harness.C03", "func": "replay_sp2_hang", "args": {"diag": [-1.0, yv, z_, 2.0], "nocc": 2}})
                    hit = True
                    break
        if not hit:
            ob.inconclusive("c:gapped family: paths exceed the unrolling bound but their witnesses return on the real function (bound too small)")
    else:
        ob.discharged("c:gapped family returns within %d iterations on all %d paths" % (K, ex.paths))
    # (2) degenerate pair at the Fermi level
    assm2 = [y > -1, y < 2]
    res2, ex2 = _sp2_run([z3.RealVal(-1), y, y, z3.RealVal(2)], 2, 1e-4, K, assm2)
    ob.paths += ex2.paths
    running2 = [(pc, side) for pc, side, (st, it, _) in res2 if st == "still-running"]
    returned2 = [1 for _, _, (st, it, _) in res2 if st == "returned"]
    ob.note("degenerate family: %d paths, %d still running after %d iterations, %d returned" % (ex2.paths, len(running2), K, len(returned2)))
    wit = None
    for pc, side in running2[:8]:
        v, m = smt.check(assm2 + list(pc) + list(side), "c:degenerate witness", "nra", 60)
        if v == "sat":
            yv = float(smt.model_value(m, y))
            if replay_sp2_hang([-1.0, yv, yv, 2.0], 2):
                wit = yv
                break
    if wit is not None:
        if known:
            # second listed instance: padded anion (padding zeros below the HOMO)
            replay_sp2_hang([-3.0, -1.0, 0.5, 0.0, 0.0, 4.0], 3, seconds=5)
            ob.known_finding(FINDING_SP2, "SP2 never returns when a degenerate pair sits at the Fermi level (witness diag(-1, %g, %g, 2), nocc=2; also the zero-padded anion pattern (-3,-1,0.5|0,0|4), nocc=3): the loop has no iteration cap" % (wit, wit))
            ob.sample({"nonterminating_witness": [-1.0, wit, wit, 2.0]})
        else:
            ob.violation("SP2 never returns for diag(-1, %g, %g, 2), nocc=2 (degenerate pair at the Fermi level; no iteration cap)" % (wit, wit), {"module": "harness.C03", "func": "replay_sp2_hang", "args": {"diag": [-1.0, wit, wit, 2.0], "nocc": 2}})
    elif running2:
        ob.inconclusive("c:degenerate family: still running at the bound but witnesses return on the real function")
    else:
        ob.discharged("c:degenerate family returns")


# ------------------------------------------------------------------------------------------------
# e: padding-orbital eigenvalue shift in sym_eig_trunc
# ------------------------------------------------------------------------------------------------


class _Captured(Exception):
    def __init__(self, x0):
        self.x0 = x0


@obligation(PID, "e", title="sym_eig_trunc: every matrix handed to the eigen-solver is the physical block of its own molecule (and spin), padded diagonal entries lie above every Gershgorin disc of that block, are pairwise distinct, and the padding block is decoupled — restricted batches and unrestricted (alpha/beta) batches of heterogeneous molecules")
def ob_e(ob):
    from seqm.seqm_functions import diag as DG
    from seqm.seqm_functions import pack as PK

    ob.encodes(DG.sym_eig_trunc, PK.pack, PK.packone, PK._pack_batch_same)
    ob.bound("batch of 2 molecules padded to molsize 2 (8x8 Fock matrices): restricted layouts {(1 heavy,1 H),(0,2)}, {(2,0),(0,1)}, {(1,1),(0,1)}, {(1,0),(0,4)}, {(0,4),(1,0)}; unrestricted (2 spin blocks per molecule, independent symbols) layouts {(1,1),(0,2)}, {(0,4),(1,0)}, {(1,0),(1,1)}; physical entries symbolic symmetric, spectral range dE>0")
    ob.assume("eigen-solver stubbed by a recorder (its contract is LAPACK's); Gershgorin's theorem")

    def rec(x0):
        raise _Captured(x0)

    saved = (DG.DEGEN_EIGENSOLVER, DG.pytorch_symeig)
    DG.DEGEN_EIGENSOLVER = False
    DG.pytorch_symeig = rec
    cases = [(False, l) for l in (([1, 0], [1, 2]), ([2, 0], [0, 1]), ([1, 1], [0, 1]), ([1, 0], [0, 4]), ([0, 1], [4, 0]))] + [(True, l) for l in (([1, 0], [1, 2]), ([0, 1], [4, 0]), ([1, 1], [0, 1]))]
    try:
        for uhf, (nheavy, nH) in cases:
            nheavy_t, nH_t = torch.tensor(nheavy), torch.tensor(nH)
            N = 4 * max(a + b for a, b in zip(nheavy, nH))
            nspin = 2 if uhf else 1
            X = np.full((2, nspin, N, N), z3.RealVal(0), dtype=object)
            phys = []
            for b in range(2):
                idx = list(range(4 * nheavy[b])) + [4 * nheavy[b] + 4 * h for h in range(nH[b])]
                phys.append(idx)
                for sp in range(nspin):
                    for ii, i in enumerate(idx):
                        for j in idx[ii:]:
                            X[b, sp, i, j] = X[b, sp, j, i] = z3.Real("x%d%s_%d_%d" % (b, "ab"[sp] if uhf else "", i, j))

            def fn():
                try:
                    with symbolic_factories():
                        if uhf:
                            DG.sym_eig_trunc(SymTensor(X.copy()), nheavy_t, nH_t, torch.tensor([[1, 1], [1, 1]]))
                        else:
                            DG.sym_eig_trunc(SymTensor(X[:, 0].copy()), nheavy_t, nH_t, torch.tensor([1, 1]))
                except _Captured as c:
                    return c.x0.a.copy()
                raise HarnessError("eigen-solver stub not reached")

            ex = Explorer(assumptions=[], piecewise="ite", kind="auto")
            res = ex.run(fn)
            ob.paths += ex.paths
            for pc, side, x0 in res:
                S.ST.side[:] = side
                size = x0.shape[1]
                ob.require(x0.shape[0] == 2 * nspin, "unexpected number of matrices handed to the eigen-solver: %d" % x0.shape[0])
                for f in range(2 * nspin):
                    b, sp = (f // 2, f % 2) if uhf else (f, 0)
                    norb = len(phys[b])
                    Xb = X[b, sp]
                    tag = "%s layout %s/%s mol %d%s" % ("UHF" if uhf else "RHF", nheavy, nH, b, (" spin %d" % sp) if uhf else "")
                    # packing is faithful: the leading block handed to the eigen-solver is exactly this molecule's physical block
                    faithful = norb <= size and all(z3.is_true(z3.simplify(x0[f, ii, jj] == Xb[phys[b][ii], phys[b][jj]])) for ii in range(norb) for jj in range(norb))
                    if faithful:
                        ob.discharged("e:pack faithful")
                    else:
                        vv = [smt.prove(x0[f, ii, jj] == Xb[phys[b][ii], phys[b][jj]], list(pc), "e:pack[%d,%d]" % (ii, jj), "auto", 30)[0] for ii in range(min(norb, size)) for jj in range(min(norb, size))]
                        if "sat" in vv or norb > size:
                            if replay_padding_shift(nheavy, nH, uhf):
                                ob.violation("the matrix handed to the eigen-solver for %s is not that molecule's physical block" % tag, {"module": "harness.C03", "func": "replay_padding_shift", "args": {"nheavy": nheavy, "nH": nH, "uhf": uhf}})
                                return
                            raise HarnessError("pack counterexample did not reproduce (%s)" % tag)
                        elif "unknown" in vv:
                            ob.inconclusive("e:pack faithful")
                        else:
                            ob.discharged("e:pack faithful")
                    if norb == size:
                        continue
                    # Gershgorin bounds of the physical rows of the packed matrix
                    ups, los = [], []
                    for i in range(norb):
                        r = sum(absz(x0[f, i, j]) for j in range(size) if j != i)
                        ups.append(x0[f, i, i] + r)
                        los.append(x0[f, i, i] - r)
                    dEpos = z3.Or(*[u > l for u in ups for l in los])
                    base = list(pc) + [dEpos]
                    lab = "e:" + tag
                    claims = []
                    for p in range(norb, size):
                        claims.append(("padded diagonal %d above all discs" % p, z3.And(*[x0[f, p, p] > u for u in ups])))
                        claims.append(("padded row %d decoupled" % p, z3.And(*[x0[f, p, j] == 0 for j in range(size) if j != p] + [x0[f, j, p] == 0 for j in range(size) if j != p])))
                        for q in range(p + 1, size):
                            claims.append(("padded diagonals %d,%d distinct" % (p, q), x0[f, p, p] != x0[f, q, q]))
                    for name, c in claims:
                        v, m = smt.prove(c, base, lab + ": " + name, "auto", 60)
                        if v == "sat":
                            if replay_padding_shift(nheavy, nH, uhf):
                                ob.violation("sym_eig_trunc: %s fails (%s): padding orbitals can mix with / sort below physical ones" % (name, lab), {"module": "harness.C03", "func": "replay_padding_shift", "args": {"nheavy": nheavy, "nH": nH, "uhf": uhf}})
                                return
                            raise HarnessError("padding-shift counterexample did not reproduce (%s %s)" % (lab, name))
                        else:
                            ob.verdict(v, lab + ": " + name)
    finally:
        DG.DEGEN_EIGENSOLVER, DG.pytorch_symeig = saved


def replay_padding_shift(nheavy, nH, uhf=False):
    """float64: random symmetric physical blocks; the matrices handed to the eigen-solver must carry each molecule's (and
    spin's) own physical block, followed by strictly larger, distinct, decoupled padding values"""
    from seqm.seqm_functions import diag as DG

    got = {}

    def rec(x0):
        got["x0"] = x0.clone()
        return torch.linalg.eigh(x0)

    saved = (DG.DEGEN_EIGENSOLVER, DG.pytorch_symeig)
    DG.DEGEN_EIGENSOLVER = False
    DG.pytorch_symeig = rec
    nspin = 2 if uhf else 1
    try:
        g = torch.Generator().manual_seed(11)
        N = 4 * max(a + b for a, b in zip(nheavy, nH))
        X = torch.zeros(2, nspin, N, N)
        phys = []
        for b in range(2):
            idx = list(range(4 * nheavy[b])) + [4 * nheavy[b] + 4 * h for h in range(nH[b])]
            phys.append(idx)
            for sp in range(nspin):
                A = torch.rand(len(idx), len(idx), generator=g) * 4 - 2
                A = A + A.T
                for ii, i in enumerate(idx):
                    for jj, j in enumerate(idx):
                        X[b, sp, i, j] = A[ii, jj]
        try:
            if uhf:
                DG.sym_eig_trunc(X, torch.tensor(nheavy), torch.tensor(nH), torch.tensor([[1, 1], [1, 1]]))
            else:
                DG.sym_eig_trunc(X[:, 0], torch.tensor(nheavy), torch.tensor(nH), torch.tensor([1, 1]))
        except Exception as ex:  # noqa
            print("replay sym_eig_trunc raised %s: %s" % (type(ex).__name__, str(ex)[:120]))
            if "x0" not in got:
                return True
    finally:
        DG.DEGEN_EIGENSOLVER, DG.pytorch_symeig = saved
    bad = False
    x0 = got["x0"]
    for f in range(2 * nspin):
        b, sp = (f // 2, f % 2) if uhf else (f, 0)
        norb = len(phys[b])
        size = x0.shape[1]
        blk = X[b, sp][phys[b]][:, phys[b]]
        if norb > size or (x0[f, :norb, :norb] - blk).abs().max().item() > 0:
            print("replay pack mol %d spin %d: packed block differs from the physical block" % (b, sp))
            bad = True
            continue
        if norb == size:
            continue
        ephys = torch.linalg.eigvalsh(x0[f, :norb, :norb])
        pad = x0[f].diagonal()[norb:]
        coupled = (x0[f, norb:, :norb].abs().max().item() if norb else 0.0)
        print("replay padding mol %d spin %d: max physical eigenvalue %.4f, padded diagonal %s, coupling %.2e" % (b, sp, ephys.max().item(), pad.tolist(), coupled))
        if (pad <= ephys.max()).any() or coupled > 0 or len(set(pad.tolist())) != len(pad):
            bad = True
    return bad


# ------------------------------------------------------------------------------------------------
# g: density construction from eigenvectors: symmetric, trace 2*nocc, idempotent, commutes with F
# ------------------------------------------------------------------------------------------------


@obligation(PID, "g", title="density built by sym_eig_trunc from an orthonormal eigenbasis: symmetric, tr P = 2 nocc, P P = 2 P, P F = F P; elec_energy(P,F,H) = 1/2 sum P(H+F)")
def ob_g(ob):
    from seqm.seqm_functions import diag as DG
    from seqm.seqm_functions.energy import elec_energy

    ob.encodes(DG.sym_eig_trunc, elec_energy)
    ob.bound("one 2-orbital molecule (H2 layout, batch of 2 identical layouts), eigenvectors V symbolic with V^T V = I, eigenvalues e symbolic, F := V diag(e) V^T, nocc=1")
    ob.assume("eigen-solver replaced by its contract: returns (e, V) with V orthogonal and V diag(e) V^T = F")
    n = 2
    V = S.reals("V", (2, n, n))
    e = S.reals("e", (2, n))
    orth = []
    for b in range(2):
        for i in range(n):
            for j in range(i, n):
                orth.append(sum(V[b, k, i] * V[b, k, j] for k in range(n)) == (1 if i == j else 0))
    Fm = np.empty((2, n, n), dtype=object)
    for b in range(2):
        for i in range(n):
            for j in range(n):
                Fm[b, i, j] = sum(V[b, i, k] * e[b, k] * V[b, j, k] for k in range(n))
    saved = (DG.DEGEN_EIGENSOLVER, DG.pytorch_symeig)
    DG.DEGEN_EIGENSOLVER = False
    DG.pytorch_symeig = lambda x0: (SymTensor(e.copy()), SymTensor(V.copy()))
    try:
        X = np.full((2, 8, 8), z3.RealVal(0), dtype=object)
        for b in range(2):
            for i in range(n):
                for j in range(n):
                    X[b, 4 * i, 4 * j] = Fm[b, i, j]
        with symbolic_factories():
            ee, P, vv = DG.sym_eig_trunc(SymTensor(X), torch.tensor([0, 0]), torch.tensor([2, 2]), torch.tensor([1, 1]))
    finally:
        DG.DEGEN_EIGENSOLVER, DG.pytorch_symeig = saved
    Pa = P.a
    idx = [0, 4]
    expect_feasible(ob, orth, "orthonormal V")
    for b in range(2):
        Pb = [[Pa[b, i, j] for j in idx] for i in idx]
        Fb = [[Fm[b, i, j] for j in range(n)] for i in range(n)]
        claims = [("symmetric", Pb[0][1] == Pb[1][0]), ("trace = 2 nocc", Pb[0][0] + Pb[1][1] == 2)]
        for i in range(n):
            for j in range(n):
                claims.append(("idempotent[%d,%d]" % (i, j), sum(Pb[i][k] * Pb[k][j] for k in range(n)) == 2 * Pb[i][j]))
                claims.append(("commutes[%d,%d]" % (i, j), sum(Pb[i][k] * Fb[k][j] for k in range(n)) == sum(Fb[i][k] * Pb[k][j] for k in range(n))))
        # padding entries of P are literal zeros
        pads = [Pa[b, i, j] for i in range(8) for j in range(8) if i not in idx or j not in idx]
        claims.append(("padding entries zero", z3.And(*[p == 0 for p in pads])))
        for name, c in claims:
            v, m = smt.prove(c, orth, "g:mol %d %s" % (b, name), "nra", 60)
            if v == "sat":
                ob.violation("density constructed from an orthonormal eigenbasis violates '%s'" % name, {"module": "harness.C03", "func": "replay_density", "args": {}})
            else:
                ob.verdict(v, "g:" + name)
    expect_refuted(ob, Pa[0, 0, 0] + Pa[0, 4, 4] == 1, orth, "trace = nocc (wrong factor)", "nra")
    # energy functional
    Pm = S.sym_symmetric("P", 4, batch=1)
    Fq = S.sym_symmetric("F", 4, batch=1)
    Hq = S.sym("H", (1, 4, 4))
    with symbolic_factories():
        E = elec_energy(Pm, Fq, Hq)
    hfull = lambda i, j: Hq.a[0, min(i, j), max(i, j)]
    ref = sum(Pm.a[0, i, j] * (hfull(i, j) + Fq.a[0, i, j]) for i in range(4) for j in range(4)) / 2
    v, m = smt.prove(E.a[0] == ref, [], "g:elec_energy", "auto", 60)
    if v == "sat":
        ob.violation("elec_energy(P,F,H) is not 1/2 sum P (H+F)", {"module": "harness.C03", "func": "replay_density", "args": {}})
    else:
        ob.verdict(v, "g:elec_energy")


def replay_density():
    from seqm.seqm_functions import diag as DG
    from seqm.seqm_functions.energy import elec_energy

    g = torch.Generator().manual_seed(4)
    A = torch.rand(2, 2, generator=g)
    A = A + A.T
    X = torch.zeros(1, 8, 8)
    for i in range(2):
        for j in range(2):
            X[0, 4 * i, 4 * j] = A[i, j]
    e, P, v = DG.sym_eig_trunc(X, torch.tensor([0]), torch.tensor([2]), torch.tensor([1]))
    Pb = P[0][[0, 4]][:, [0, 4]]
    bad = (Pb - Pb.T).abs().max().item() > 1e-12 or abs(Pb.trace().item() - 2) > 1e-12 or (Pb @ Pb - 2 * Pb).abs().max().item() > 1e-10 or (Pb @ A - A @ Pb).abs().max().item() > 1e-10
    Pm = torch.rand(1, 4, 4, generator=g)
    Pm = Pm + Pm.transpose(1, 2)
    Fq = torch.rand(1, 4, 4, generator=g)
    Fq = Fq + Fq.transpose(1, 2)
    H = torch.rand(1, 4, 4, generator=g)
    hf = H.triu() + H.triu(1).transpose(1, 2)
    d = abs(elec_energy(Pm, Fq, H).item() - 0.5 * (Pm * (hf + Fq)).sum().item())
    print("replay density: P block", Pb.tolist(), "energy functional deviation %.3e" % d)
    return bad or d > 1e-10


# ---- shared obligation: SP2 purification multiplies the full packed Fock matrix: it only returns (and returns a symmetric idempotent density) if packing preserves the physical block exactly ----
@obligation(PID, "h", title='[shared with C05.g] PM6 layout: packd moves entry (map(i), map(j)) of the 9-slot-per-atom matrix to (i, j) for every pair of physical orbitals (so symmetric matrices stay symmetric), and unpackd(packd(x)) is the identity on the physical block, for single matrices and heterogeneous batches')
def ob_h_shared(ob):
    """SP2 purification multiplies the full packed Fock matrix: it only returns (and returns a symmetric idempotent density) if packing preserves the physical block exactly"""
    from . import C05 as _m  # imported lazily: the harness modules share obligations in both directions

    ob.note("this obligation is the one registered as C05.g; it is also decided here because SP2 purification multiplies the full packed Fock matrix: it only returns (and returns a symmetric idempotent density) if packing preserves the physical block exactly")
    _m.ob_g(ob)


# ---- shared obligation: the converged density has the trace 2 nocc of its own molecule only if each density step is fed that molecule's occupation number ----
@obligation(PID, "i", title='[shared with C04.g] SCF drivers under partial convergence (fixed mixing, adaptive mixing, adaptive + Pulay, Krylov subspace KSA): the driver completes, at every density step the Fock matrices of the still-active molecules arrive together with the atom counts and occupation numbers of the same molecules, and the convergence flags returned are those of the schedule — for every order in which the molecules of a batch converge')
def ob_i_shared(ob):
    """the converged density has the trace 2 nocc of its own molecule only if each density step is fed that molecule's occupation number"""
    from . import C04 as _m  # imported lazily: the harness modules share obligations in both directions

    ob.note("this obligation is the one registered as C04.g; it is also decided here because the converged density has the trace 2 nocc of its own molecule only if each density step is fed that molecule's occupation number")
    _m.ob_g(ob)


# ---- shared obligation: the electron count of a converged finite-temperature density is that of its own molecule only if padded orbital slots take no part in the occupation ----
@obligation(PID, "j", title="[shared with C09.e] electronic-temperature occupations (Krylov/KSA variant) in a padded batch: whenever the chemical-potential iteration of Fermi_Q stops, the occupations of each molecule's own orbitals add up to its number of occupied orbitals within the tolerance, and padded orbital slots carry no occupation — for arbitrary orbital energies and occupation values")
def ob_j_shared(ob):
    """trace of the density = number of valence electrons also for the thermal-smearing / KSA solvers"""
    from . import C09 as _m  # imported lazily: the harness modules share obligations in both directions

    ob.note("this obligation is the one registered as C09.e; it is also decided here because the trace of a converged density equals the electron count only if padded orbital slots carry no occupation in the finite-temperature solvers")
    _m.ob_e(ob)
