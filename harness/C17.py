"""C17 — surface hopping: energy-conserving velocity rescaling, hop selection, trivial-crossing relabelling, per-trajectory isolation (engine E1)."""
import types
from fractions import Fraction

from .common import *  # noqa: F401,F403
from .common import S, smt, z3, np, torch, SymTensor, symbolic_factories, Explorer, obligation, HarnessError, expect_refuted, expect_feasible

PID = "C17"


def _dyn():
    import seqm.NonadiabaticDynamics as ND

    d = ND.SurfaceHoppingDynamics.__new__(ND.SurfaceHoppingDynamics)
    d._arange_cache = {}
    d._eye_cache = {}
    return d, ND


def replay_rescale(v, d, minv, dE):
    """float64 real _rescale_velocity_along_nac: returns dict(accepted, energy residual, parallel residual, other trajectory change)"""
    import seqm.NonadiabaticDynamics as ND
    from seqm.MolecularDynamics import CONSTANTS

    dyn, _ = _dyn()
    V = torch.tensor(v, dtype=torch.float64)
    D = torch.tensor(d, dtype=torch.float64)
    MI = torch.tensor(minv, dtype=torch.float64)
    mol = types.SimpleNamespace(velocities=V.clone(), mass_inverse=MI)
    ok = dyn._rescale_velocity_along_nac({(0, 1): D}, 0, 1, mol, dE, mol_index=0)
    m = 1.0 / MI[0, :, 0]
    dKE = 0.5 * (m[:, None] * (mol.velocities[0] ** 2 - V[0] ** 2)).sum().item() * CONSTANTS.KINETIC_ENERGY_SCALE
    dv = mol.velocities[0] - V[0]
    dirn = D[0] * MI[0]
    par = (dv - (dv * dirn).sum() / (dirn * dirn).sum() * dirn).abs().max().item() if ok else 0.0
    other = (mol.velocities[1] - V[1]).abs().max().item()
    print("replay rescale: accepted=%s dKE=%.6e -dE=%.6e non-parallel part %.3e other trajectory change %.3e" % (ok, dKE, -dE, par, other))
    return dict(ok=ok, eres=abs(dKE + dE) if ok else (mol.velocities - V).abs().max().item(), par=par, other=other)


@obligation(PID, "a", title="accepted hop: velocities change only along d/m, by the smaller root, and the kinetic energy changes by exactly -dE; frustrated hop: nothing changes; the other trajectory is never touched")
def ob_a(ob):
    import seqm.NonadiabaticDynamics as ND
    from seqm.MolecularDynamics import CONSTANTS

    ob.encodes(ND.SurfaceHoppingDynamics._rescale_velocity_along_nac)
    ob.bound("2 trajectories x 2 atoms; velocities, coupling vector, inverse masses>0 and energy gap dE (both signs) symbolic reals; all paths of the routine")
    ob.assume("v.d != 0 for the energy claim (sign(0)=0 makes alpha=0 on the measure-zero set v.d=0, reported as a note)")
    dyn, _ = _dyn()
    nat = 2
    V, Dv, minv = S.reals("v", (2, nat, 3)), S.reals("d", (2, nat, 3)), S.reals("mi", (2, nat, 1))
    dE = z3.Real("dE")
    KES = S.rv(CONSTANTS.KINETIC_ENERGY_SCALE)
    assm = [m > 0 for m in minv.reshape(-1)]

    def fn():
        mol = types.SimpleNamespace(velocities=SymTensor(V.copy()), mass_inverse=SymTensor(minv.copy()))
        with symbolic_factories(), torch.no_grad():
            ok = dyn._rescale_velocity_along_nac({(0, 1): SymTensor(Dv.copy())}, 0, 1, mol, SymTensor(np.array(dE, dtype=object)), mol_index=0)
        return ok, mol.velocities.a.copy()

    ex = Explorer(assumptions=assm, piecewise="ite", kind="nra")
    res = ex.run(fn)
    ob.paths = ex.paths
    vd = sum(V[0, a, c] * Dv[0, a, c] for a in range(nat) for c in range(3))
    nacc = 0

    def witness(m):
        f = lambda arr: np.vectorize(lambda e: float(smt.model_value(m, e)))(arr).tolist()
        return dict(v=f(V), d=f(Dv), minv=f(minv), dE=float(smt.model_value(m, dE)))

    for pc, side, (ok, Vn) in res:
        S.ST.side[:] = side
        base = assm + list(pc)
        claims = [("other trajectory untouched", z3.And(*[Vn[1, a, c] == V[1, a, c] for a in range(nat) for c in range(3)]), [], "other")]
        if ok:
            nacc += 1
            dKE = sum((Vn[0, a, c] * Vn[0, a, c] - V[0, a, c] * V[0, a, c]) / (2 * minv[0, a, 0]) for a in range(nat) for c in range(3))
            claims.append(("kinetic energy changes by -dE", dKE * KES == -dE, [vd != 0], "eres"))
            # dv parallel to d/m: dv_ac * (d_bd*mi_b) == dv_bd * (d_ac*mi_a)
            par = []
            comps = [(a, c) for a in range(nat) for c in range(3)]
            for i, (a, c) in enumerate(comps):
                for (b, e) in comps[i + 1:]:
                    par.append((Vn[0, a, c] - V[0, a, c]) * (Dv[0, b, e] * minv[0, b, 0]) == (Vn[0, b, e] - V[0, b, e]) * (Dv[0, a, c] * minv[0, a, 0]))
            claims.append(("velocity change parallel to d/m", z3.And(*par), [], "par"))
        else:
            claims.append(("frustrated hop leaves velocities untouched", z3.And(*[Vn[0, a, c] == V[0, a, c] for a in range(nat) for c in range(3)]), [], "eres"))
        for name, c, extra, kind in claims:
            lab = "a:%s path: %s" % ("accepted" if ok else "rejected", name)
            v, m = smt.prove(c, base + extra, lab, "nra", 120)
            if v == "sat":
                w = witness(m)
                r = replay_rescale(**w)
                bad = {"eres": r["eres"] > 1e-9 * max(1.0, abs(w["dE"])), "par": r["par"] > 1e-9, "other": r["other"] > 0}[kind]
                if bad:
                    ob.violation("_rescale_velocity_along_nac: '%s' fails" % name, {"module": "harness.C17", "func": "replay_rescale_kind", "args": dict(kind=kind, **w)})
                else:
                    raise HarnessError("rescale counterexample did not reproduce: %s" % lab)
            else:
                ob.verdict(v, lab)
        if ok:
            # smaller-magnitude root: the other root  alpha' = (-v.d - sign(v.d) sqrt(rad))/d2m  has |alpha'| >= |alpha|
            a0_, c0_ = 0, 0
            d2m = sum(minv[0, a, 0] * Dv[0, a, c] * Dv[0, a, c] for a in range(nat) for c in range(3))
            # alpha from the result: dv = alpha * d * mi  => alpha * d2m = sum dv . d  ... use energy-equivalent statement:
            # |v'.d| sign: the smaller root keeps the sign of v.d  (v'.d = sign(v.d)*sqrt(rad))
            vdn = sum(Vn[0, a, c] * Dv[0, a, c] for a in range(nat) for c in range(3))
            v, m = smt.prove(vdn * vd >= 0, base + [vd != 0], "a:smaller root (v.d keeps its sign)", "nra", 120)
            if v == "sat":
                w = witness(m)
                ob.violation("accepted hop takes the larger-magnitude root (the velocity component along d changes sign)", {"module": "harness.C17", "func": "replay_rescale_kind", "args": dict(kind="eres", **w)})
            else:
                ob.verdict(v, "a:smaller root")
    ob.require(nacc >= 1 and len(res) >= 3, "expected accepted and rejected paths, got %d paths (%d accepted)" % (len(res), nacc))
    ob.note("measure-zero set v.d = 0 with dE<0: sign(0)=0 gives alpha=0 (hop accepted without energy adjustment); not asserted")


def replay_rescale_kind(kind, v, d, minv, dE):
    r = replay_rescale(v, d, minv, dE)
    return {"eres": r["eres"] > 1e-9 * max(1.0, abs(dE)), "par": r["par"] > 1e-9, "other": r["other"] > 0}[kind]


def replay_hop_de():
    """float64: batch of 3 trajectories, only trajectory 2 hops: the energy gap handed to the rescaling must be trajectory 2's"""
    dyn, ND = _dyn()
    E = torch.tensor([[1.0, 2.0, 3.5], [1.1, 2.6, 3.0], [0.9, 1.4, 2.2]])
    got = {}
    _setup_after(dyn, ND, nmol=3, nstates=3, active=[0, 1, 0], targets=[-1, -1, 2])
    dyn._rescale_velocity_along_nac = lambda nac, i, j, molecule, dE, mol_index: got.update(dE=dE, mol=mol_index) or False
    mol = types.SimpleNamespace(coordinates=torch.zeros(3, 1, 3), Etot=torch.zeros(3), force=None, mass_inverse=None)
    dyn._after_electronic_update(mol, E, step=0)
    exp = (E[2, 2] - E[2, 0]).item()
    print("replay hop energy gap: handed dE=%.4f for trajectory %d, its own gap is %.4f" % (got["dE"], got["mol"], exp))
    return abs(got["dE"] - exp) > 1e-12


def _setup_after(dyn, ND, nmol, nstates, active, targets, amp=None, swap=None):
    dyn._active_states = torch.tensor(active)
    dyn._trivial_crossing_mask = swap
    dyn.post_hop_holdoff = torch.zeros(nmol, dtype=torch.long)
    dyn.prev_state = torch.tensor(active)
    dyn.hop_log = []
    dyn._decohere_on_hop = False
    dyn.step_offset = 0
    dyn._amp_phase = amp
    dyn._attempt_hop = lambda: torch.tensor(targets)
    dyn._compute_NACR_for_hop = lambda molecule, pairs: {}
    dyn._recompute_active_force = lambda molecule: None
    dyn._current_potential = None


@obligation(PID, "b", title="hop bookkeeping per trajectory: the energy gap handed to the velocity rescaling is the hopping trajectory's own E[target]-E[active] for every pattern of hopping trajectories in a batch; the potential reported afterwards is re-based on each trajectory's own surfaces")
def ob_b(ob):
    import seqm.NonadiabaticDynamics as ND

    ob.encodes(ND.SurfaceHoppingDynamics._after_electronic_update)
    ob.bound("3 trajectories x 3 states; state energies symbolic reals; every non-empty subset of hopping trajectories x accepted/frustrated outcome enumerated (active/target patterns fixed per subset)")
    ob.assume("_attempt_hop, NAC evaluation and force recomputation stubbed; _rescale_velocity_along_nac replaced by a recorder")
    import itertools

    nmol, ns = 3, 3
    E = S.reals("E", (nmol, ns))
    Etot = S.reals("Etot", (nmol,))
    active = [0, 1, 0]
    tgt_for = [2, 0, 1]
    first = True
    for subset in itertools.product([False, True], repeat=nmol):
        if not any(subset):
            continue
        for accept in (True, False):
            dyn, _ = _dyn()
            targets = [tgt_for[k] if subset[k] else -1 for k in range(nmol)]
            _setup_after(dyn, ND, nmol, ns, list(active), targets)
            rec = []
            dyn._rescale_velocity_along_nac = lambda nac, i, j, molecule, dE, mol_index: rec.append((mol_index, i, j, dE)) or accept
            mol = types.SimpleNamespace(coordinates=torch.zeros(nmol, 1, 3), Etot=SymTensor(Etot.copy()), force=SymTensor(np.full((nmol, 1, 3), z3.RealVal(0), dtype=object)), mass_inverse=torch.ones(nmol, 1, 1), acc=None)
            S.ST.float_placeholder = None
            # the code converts the gap with float(...): keep it symbolic by making float() of a 0-dim SymTensor return the tensor
            saved_float = SymTensor.__float__
            SymTensor.__float__ = lambda self: (_ for _ in ()).throw(TypeError("symbolic"))
            import builtins

            real_float = builtins.float
            try:
                ND.float = lambda x: x if isinstance(x, SymTensor) else real_float(x)
                with symbolic_factories():
                    dyn._after_electronic_update(mol, SymTensor(E.copy()), step=0)
            finally:
                del ND.float
                SymTensor.__float__ = saved_float
            ob.require(len(rec) == sum(subset), "recorder saw %d calls for %d hoppers" % (len(rec), sum(subset)))
            for (mi, i, j, dE) in rec:
                lab = "b:hoppers=%s accept=%s traj %d" % (subset, accept, mi)
                de = dE.a.reshape(-1)[0] if isinstance(dE, SymTensor) else S.rv(dE)
                v, m = smt.prove(de == E[mi, tgt_for[mi]] - E[mi, active[mi]], [], lab, "lra", 30)
                if v == "sat":
                    if replay_hop_de():
                        ob.violation("the energy gap used to rescale trajectory %d's velocities is taken from another trajectory's row of the state energies (hopping pattern %s)" % (mi, subset), {"module": "harness.C17", "func": "replay_hop_de", "args": {}})
                    else:
                        raise HarnessError("hop dE counterexample did not reproduce (%s)" % lab)
                    return
                ob.verdict(v, lab)
            # potential re-basing
            for k in range(nmol):
                new_active = tgt_for[k] if (subset[k] and accept) else active[k]
                spec = Etot[k] - E[k, active[k]] + E[k, new_active]
                v, m = smt.prove(mol.Etot.a[k] == spec, [], "b:potential traj %d" % k, "lra", 30)
                if v == "sat":
                    ob.violation("potential energy reported after the hop step is not re-based on trajectory %d's own surfaces" % k, {"module": "harness.C17", "func": "replay_hop_de", "args": {}})
                    return
                ob.verdict(v, "b:potential re-based")
            if first:
                first = False
                ob.sample({"hoppers": subset, "recorded": [(r[0], r[1], r[2]) for r in rec]})


def replay_relabel(swap):
    dyn, ND = _dyn()
    g = torch.Generator().manual_seed(2)
    amp = torch.rand(2, 3, 3, generator=g)
    old = amp.clone()
    _setup_after(dyn, ND, 2, 3, [0, 1], [-1, -1], amp=amp, swap=torch.tensor(swap))
    mol = types.SimpleNamespace(coordinates=torch.zeros(2, 1, 3), Etot=torch.zeros(2), force=torch.zeros(2, 1, 3), mass_inverse=torch.ones(2, 1, 1), acc=None)
    dyn._after_electronic_update(mol, torch.zeros(2, 3), step=0)
    bad = False
    for k in range(2):
        perm = [swap[k][i] if swap[k][i] >= 0 else i for i in range(3)]
        for i in range(3):
            if (dyn._amp_phase[k, perm[i]] - old[k, i]).abs().max().item() > 0:
                bad = True
    print("replay trivial-crossing relabel swap=%s: amplitudes permuted consistently=%s, active=%s" % (swap, not bad, dyn._active_states.tolist()))
    return bad


@obligation(PID, "d", title="trivial-crossing relabelling permutes amplitudes and the active index by the same involution, preserves the population norm and leaves trajectories without a crossing untouched")
def ob_d(ob):
    import seqm.NonadiabaticDynamics as ND

    ob.encodes(ND.SurfaceHoppingDynamics._after_electronic_update, ND.NonadiabaticDynamicsBase._get_tensor)
    ob.bound("2 trajectories x 3 states, amplitudes (x,y,phase) symbolic reals; swap patterns per trajectory in {none, 0<->1, 1<->2, 0<->2} enumerated (16 combinations); scratch-buffer helper: fill value and stale content symbolic")
    swaps = {"none": [-1, -1, -1], "01": [1, 0, -1], "12": [-1, 2, 1], "02": [2, -1, 0]}
    A = S.reals("a", (2, 3, 3))
    for n0, s0 in swaps.items():
        for n1, s1 in swaps.items():
            dyn, _ = _dyn()
            active = [0, 1]
            swap = None if (n0 == "none" and n1 == "none") else torch.tensor([s0, s1])
            _setup_after(dyn, ND, 2, 3, list(active), [-1, -1], amp=SymTensor(A.copy()), swap=swap)
            mol = types.SimpleNamespace(coordinates=torch.zeros(2, 1, 3), Etot=SymTensor(S.reals("Et", (2,))), force=SymTensor(np.full((2, 1, 3), z3.RealVal(0), dtype=object)), mass_inverse=torch.ones(2, 1, 1), acc=None)
            with symbolic_factories():
                dyn._after_electronic_update(mol, SymTensor(S.reals("E", (2, 3))), step=0)
            out = dyn._amp_phase.a
            for k, sw in enumerate((s0, s1)):
                perm = [sw[i] if sw[i] >= 0 else i for i in range(3)]
                ok = all(z3.is_true(z3.simplify(out[k, perm[i], c] == A[k, i, c])) for i in range(3) for c in range(3))
                ok = ok and int(dyn._active_states[k]) == perm[active[k]]
                if not ok:
                    if replay_relabel([s0, s1]):
                        ob.violation("trivial-crossing relabelling (%s,%s): amplitudes/active index of trajectory %d are not permuted by the crossing's involution" % (n0, n1, k), {"module": "harness.C17", "func": "replay_relabel", "args": {"swap": [s0, s1]}})
                    else:
                        raise HarnessError("relabel counterexample did not reproduce")
                    return
                pop_old = sum(A[k, i, 0] * A[k, i, 0] + A[k, i, 1] * A[k, i, 1] for i in range(3))
                pop_new = sum(out[k, i, 0] * out[k, i, 0] + out[k, i, 1] * out[k, i, 1] for i in range(3))
                v, m = smt.prove(pop_new == pop_old, [], "d:norm (%s,%s) traj %d" % (n0, n1, k), "auto", 30)
                ob.verdict(v, "d:relabel (%s,%s) traj %d" % (n0, n1, k))
    # scratch buffers are re-initialised on every request (a stale swap table would replay an old crossing)
    f, dirt = z3.Reals("fill dirt")
    for fill in (SymTensor(np.array(f, dtype=object)), -1, 0, False):
        cache = {}

        def fn():
            cache.clear()
            with symbolic_factories():
                t = ND.NonadiabaticDynamicsBase._get_tensor(cache, ("k",), (2, 2), torch.device("cpu"), torch.float64, fill_value=fill)
                t[0, 1] = SymTensor(np.array(dirt, dtype=object))
                t2 = ND.NonadiabaticDynamicsBase._get_tensor(cache, ("k",), (2, 2), torch.device("cpu"), torch.float64, fill_value=fill)
            return t2.a.copy()

        ex = Explorer(assumptions=[], piecewise="ite", kind="auto")
        res = ex.run(fn, reset=False)
        fv = f if isinstance(fill, SymTensor) else z3.RealVal(int(fill))
        for pc, side, t2 in res:
            v, m = smt.prove(z3.And(*[S.val(S.lift(e)) == fv for e in t2.reshape(-1).tolist()]), list(pc), "d:scratch buffer refilled (fill=%s)" % (fill if not isinstance(fill, SymTensor) else "symbolic"), "auto", 30)
            if v == "sat":
                if replay_stale_buffer():
                    ob.violation("_get_tensor returns a reused scratch buffer without re-applying the fill value: stale trivial-crossing tables leak into later steps", {"module": "harness.C17", "func": "replay_stale_buffer", "args": {}})
                else:
                    raise HarnessError("stale buffer counterexample did not reproduce")
                return
            ob.verdict(v, "d:scratch buffer refilled")


def replay_stale_buffer():
    import seqm.NonadiabaticDynamics as ND

    cache = {}
    t = ND.NonadiabaticDynamicsBase._get_tensor(cache, ("k",), (2, 2), torch.device("cpu"), torch.long, fill_value=-1)
    t[0, 1] = 5
    t2 = ND.NonadiabaticDynamicsBase._get_tensor(cache, ("k",), (2, 2), torch.device("cpu"), torch.long, fill_value=-1)
    print("replay scratch buffer: second request returns", t2.tolist())
    return bool((t2 != -1).any())


def replay_tdc_antisymmetry(nstates):
    """float64: the real assembly of compute_tdc_hamiltonian_fd with the heavy contractions replaced by distinct numbers:
    is the returned coupling matrix antisymmetric?"""
    import seqm.dynamics.tdc_hamiltonian_fd as T

    D = _tdc_assemble(T, nstates, symbolic=False)
    asym = (D + D.transpose(1, 2)).abs().max().item()
    print("replay TD-NAC assembly, %d states: max |D + D^T| = %.3e" % (nstates, asym))
    return asym > 1e-12


def _tdc_assemble(T, nstates, symbolic=True):
    """run the real compute_tdc_hamiltonian_fd with stubbed geometry/integral/contraction callees; the contraction of state
    pair p of molecule b returns the symbol h_b_p (or a distinct number), state energies are symbols E_b_k"""
    nmol, nocc, nvirt, molsize = 2, 1, 2, 1
    names = ("build_fd_displaced_geometries", "_pair_geometry_from_coords", "_directional_overlap_derivative", "_directional_tetci_derivative", "_prepare_pair_operators_for_directional_nac", "unpackone_batch", "_contract_pair_density_directional_batch")
    saved = {k: getattr(T, k) for k in names}
    count = [0]

    def contract(mol, B, o, e1, e2, nm):
        nb = B.shape[1]
        if symbolic:
            out = SymTensor(np.array([[z3.Real("h_%d_%d" % (b, count[0] + p)) for p in range(nb)] for b in range(nmol)], dtype=object))
        else:
            out = torch.tensor([[1.0 + 10 * b + (count[0] + p) for p in range(nb)] for b in range(nmol)], dtype=torch.float64)
        count[0] += nb
        return out

    T.build_fd_displaced_geometries = lambda *a, **k: (None, None)
    T._pair_geometry_from_coords = lambda *a, **k: (None, None)
    T._directional_overlap_derivative = lambda *a, **k: None
    T._directional_tetci_derivative = lambda *a, **k: (None, None, None)
    T._prepare_pair_operators_for_directional_nac = lambda *a, **k: (None, None, None)
    T.unpackone_batch = lambda x, *a, **k: torch.zeros(x.shape[0], molsize * 4, molsize * 4, dtype=torch.float64)
    T._contract_pair_density_directional_batch = contract
    try:
        amp = torch.arange(nmol * nstates * nocc * nvirt, dtype=torch.float64).reshape(nmol, nstates, nocc * nvirt)
        if symbolic:
            en = SymTensor(np.array([[z3.Real("E_%d_%d" % (b, k)) for k in range(nstates)] for b in range(nmol)], dtype=object))
        else:
            en = torch.tensor([[0.3 * k * k + 0.1 * b + 1.0 for k in range(nstates)] for b in range(nmol)], dtype=torch.float64)
        mol = types.SimpleNamespace(method="AM1", dm=torch.zeros(nmol, 4, 4, dtype=torch.float64), molecular_orbitals=torch.eye(4, dtype=torch.float64).repeat(nmol, 1, 1), nmol=nmol, molsize=molsize, nocc=torch.tensor([nocc] * nmol), norb=torch.tensor([4] * nmol), nHeavy=torch.tensor([1] * nmol), nHydro=torch.tensor([0] * nmol))
        nad = types.SimpleNamespace(_dtnact=0.01, timestep=0.1, damp=None)
        if symbolic:
            with symbolic_factories():
                return T.compute_tdc_hamiltonian_fd(nad, mol, {"cis_amp": amp, "energies": en}, None, None, None)
        return T.compute_tdc_hamiltonian_fd(nad, mol, {"cis_amp": amp, "energies": en}, None, None, None)
    finally:
        for k, v in saved.items():
            setattr(T, k, v)


@obligation(PID, "e", title="time-derivative coupling assembled from the Hamiltonian finite difference is antisymmetric with zero diagonal (so the amplitude propagation is norm conserving), and element (i,j), i<j, is state pair (i,j)'s own contraction over E_j - E_i — for 2..6 states, arbitrary contraction values and energies")
def ob_e(ob):
    import seqm.dynamics.tdc_hamiltonian_fd as T

    ob.encodes(T.compute_tdc_hamiltonian_fd)
    ob.bound("2 trajectories, 2..6 (thorough: 2..9) excited states; the contraction of each state pair and every state energy are symbolic reals; geometry displacement, overlap/integral derivatives and the pair-density contraction are recorders")
    ob.assume("state energies pairwise distinct (the code divides by E_j - E_i)")
    for ns in range(2, 7 if ob.tier != "thorough" else 10):
        S.reset()
        D = _tdc_assemble(T, ns)
        ob.require(isinstance(D, SymTensor) and D.a.shape == (2, ns, ns), "unexpected result of compute_tdc_hamiltonian_fd")
        pairs = [(i, j) for i in range(ns) for j in range(i + 1, ns)]
        bad = None
        for b in range(2):
            E = [z3.Real("E_%d_%d" % (b, k)) for k in range(ns)]
            distinct = [E[i] != E[j] for i, j in pairs]
            cl = [D.a[b, i, i] == 0 for i in range(ns)]
            for p, (i, j) in enumerate(pairs):
                cl.append(D.a[b, i, j] + D.a[b, j, i] == 0)
                cl.append(D.a[b, i, j] * (E[j] - E[i]) == z3.Real("h_%d_%d" % (b, p)))
            v, m = smt.prove(z3.And(*cl), distinct, "e:%d states, trajectory %d" % (ns, b), "nra", 60)
            if v == "sat":
                bad = (ns, b)
                break
            ob.verdict(v, "e:%d states, trajectory %d" % (ns, b))
        if bad:
            if replay_tdc_antisymmetry(ns):
                ob.violation("time-derivative coupling matrix for %d states is not antisymmetric / pairs are mislabelled: the RK4 amplitude propagation does not conserve the population norm" % ns, {"module": "harness.C17", "func": "replay_tdc_antisymmetry", "args": {"nstates": ns}})
                return
            raise HarnessError("TD-NAC assembly counterexample did not reproduce (%d states)" % ns)
    x, y = z3.Reals("x y")
    expect_refuted(ob, x + y == 0, [x != y], "twin: two unrelated entries are not antisymmetric", "nra")


def _tully(cls_name):
    import importlib

    T = importlib.import_module("scripts.tully_surface_hopping.TullyModels")
    cls = getattr(T, cls_name)
    d = cls.__new__(cls)
    d._arange_cache = {}
    d._eye_cache = {}
    d._nstates = 2
    d.compute_nac = True
    return T, d


def replay_tully_isolation(active):
    """float64, real TullyFSSH code on a 2-trajectory batch with the given active states: does every trajectory get the force,
    potential and time-derivative coupling of its own state / position / velocity?"""
    T, d = _tully("TullyFSSH")
    d.model = T.TullyModel.single_crossing()
    x = torch.tensor([-0.4, 0.7], dtype=torch.float64)
    v = torch.tensor([1.5, -0.8], dtype=torch.float64)
    worst = 0.0
    for fn in ("_compute_electronic_structure", "_recompute_active_force"):
        d._active_states = torch.tensor(active)
        mol = types.SimpleNamespace(coordinates=torch.zeros(2, 1, 3, dtype=torch.float64), velocities=torch.zeros(2, 1, 3, dtype=torch.float64))
        mol.coordinates[:, 0, 0] = x
        mol.velocities[:, 0, 0] = v
        if fn == "_compute_electronic_structure":
            d._compute_electronic_structure(mol, {})
        else:
            d._recompute_active_force(mol)
        E, dE, nac = d.model.pot(x)
        for b in range(2):
            dev = [abs(mol.force[b, 0, 0].item() + dE[b, active[b]].item()), abs(mol.Etot[b].item() - E[b, active[b]].item()), abs(mol.nac_dot[b, 0, 1].item() - (nac[b] * v[b]).item())]
            worst = max(worst, max(dev))
            print("replay %s active=%s trajectory %d: |force + dE_active|=%.3e |Etot - E_active|=%.3e |nac_dot - d.v|=%.3e" % (fn, active, b, *dev))
    return worst > 1e-10


@obligation(PID, "f", title="Tully model driver, batch isolation: every trajectory gets the force and potential of its own active state at its own position and the coupling d(x_b).v_b of its own velocity — for every pattern of active states, all positions and velocities, arbitrary model potential")
def ob_f(ob):
    T, _ = _tully("TullyFSSH")
    ob.encodes(T._TullyDynamicsMixin._compute_electronic_structure, T.TullyFSSH._recompute_active_force, T.TullyDynamics._after_electronic_update)
    ob.bound("2 and 3 trajectories; positions, velocities, and the model's energies / slopes / coupling of every trajectory symbolic reals (uninterpreted potential); all patterns of active states in {0,1}^n")
    import itertools

    known = ob.is_known("C17-tully-force-of-trajectory-0")
    for n in (2, 3):
        for active in itertools.product((0, 1), repeat=n):
            for cls, fn in (("TullyFSSH", "_compute_electronic_structure"), ("TullyFSSH", "_recompute_active_force"), ("TullyDynamics", "_after_electronic_update")):
                S.reset()
                T, d = _tully(cls)
                E = SymTensor(np.array([[z3.Real("E_%d_%d" % (b, k)) for k in range(2)] for b in range(n)], dtype=object))
                dE = SymTensor(np.array([[z3.Real("dE_%d_%d" % (b, k)) for k in range(2)] for b in range(n)], dtype=object))
                nac = SymTensor(np.array([z3.Real("d_%d" % b) for b in range(n)], dtype=object))
                d.model = types.SimpleNamespace(pot=lambda x: (E, dE, nac))
                d._active_states = torch.tensor(active)
                d._record_density_matrix = lambda: None
                co = SymTensor(np.array([[[z3.Real("x_%d" % b), z3.RealVal(0), z3.RealVal(0)]] for b in range(n)], dtype=object))
                ve = SymTensor(np.array([[[z3.Real("v_%d" % b), z3.Real("vy_%d" % b), z3.RealVal(0)]] for b in range(n)], dtype=object))
                mol = types.SimpleNamespace(coordinates=co, velocities=ve)
                with symbolic_factories():
                    if fn == "_after_electronic_update":
                        en = d._compute_electronic_structure(mol, {})
                        d._after_electronic_update(mol, en)
                    elif fn == "_compute_electronic_structure":
                        d._compute_electronic_structure(mol, {})
                    else:
                        d._recompute_active_force(mol)
                cl = []
                for b in range(n):
                    a = active[b]
                    F = mol.force.a if isinstance(mol.force, SymTensor) else S.to_obj(mol.force)
                    Et = mol.Etot.a if isinstance(mol.Etot, SymTensor) else S.to_obj(mol.Etot)
                    nd = mol.nac_dot.a if isinstance(mol.nac_dot, SymTensor) else S.to_obj(mol.nac_dot)
                    cl += [F[b, 0, 0] == -z3.Real("dE_%d_%d" % (b, a)), Et.reshape(-1)[b] == z3.Real("E_%d_%d" % (b, a))]
                    cl += [nd[b, 0, 1] == z3.Real("d_%d" % b) * z3.Real("v_%d" % b), nd[b, 1, 0] == -z3.Real("d_%d" % b) * z3.Real("v_%d" % b)]
                lab = "f:%s.%s active=%s" % (cls, fn, active)
                v, m = smt.prove(z3.And(*cl), [], lab, "nra", 60)
                if v == "sat":
                    mixed = len(set(active)) > 1
                    if known and mixed and cls == "TullyFSSH":
                        if not ob.known_lines:
                            if not replay_tully_isolation(list(active)[:2] if len(set(active[:2])) > 1 else [0, 1]):
                                raise HarnessError("known finding C17-tully-force-of-trajectory-0 no longer reproduces: remove it from known_findings.json")
                            ob.known_finding("C17-tully-force-of-trajectory-0", known["what"])
                        continue
                    act2 = list(active)[:2]
                    if replay_tully_isolation(act2) or replay_tully_isolation(list(active)[-2:]):
                        ob.violation("%s.%s with active states %s: a trajectory's force, potential or coupling is taken from another trajectory's state or velocity" % (cls, fn, active), {"module": "harness.C17", "func": "replay_tully_isolation", "args": {"active": act2}})
                        return
                    raise HarnessError("Tully isolation counterexample did not reproduce (%s)" % lab)
                ob.verdict(v, lab)
    a, b = z3.Reals("a b")
    expect_refuted(ob, a == b, [], "twin: another trajectory's slope is not this trajectory's", "nra")


def replay_rk4_norm():
    """float64, real _propagate_electronic: random antisymmetric couplings, energies and amplitudes; the population norm
    after one nuclear step must stay within the integrator's error (here < 1e-8 for dt = 0.05 fs, 8 sub-steps)"""
    dyn, ND = _dyn()
    g = torch.Generator().manual_seed(7)
    n = 4
    A = torch.rand(1, n, n, generator=g, dtype=torch.float64) - 0.5
    D0, D1 = A - A.transpose(1, 2), (A - A.transpose(1, 2)) * 1.1
    amp = torch.zeros(1, n, 3, dtype=torch.float64)
    amp[0, :, 0] = torch.tensor([0.6, 0.5, 0.4, 0.3])
    amp[0, :, 1] = torch.tensor([0.1, -0.2, 0.3, 0.05])
    amp[..., :2] /= torch.sqrt((amp[..., :2] ** 2).sum())
    amp[0, :, 2] = torch.tensor([0.3, -1.0, 2.0, 0.7])
    dyn._amp_phase, dyn._nstates, dyn.timestep = amp.clone(), n, 0.05
    e0 = torch.tensor([[0.0, 1.0, 2.5, 3.0]], dtype=torch.float64)
    dyn._propagate_electronic({"energies": e0, "nac_dot": D0}, {"energies": e0 + 0.05, "nac_dot": D1}, substeps=8)
    norm = (dyn._amp_phase[..., :2] ** 2).sum().item()
    H = dyn._hop_integral[0]
    print("replay RK4 propagation: |norm - 1| = %.3e, max |hop integral + its transpose| = %.3e" % (abs(norm - 1), (H + H.T).abs().max().item()))
    return abs(norm - 1) > 1e-8 or (H + H.T).abs().max().item() > 1e-12


@obligation(PID, "c", title="amplitude propagation: for every antisymmetric coupling matrix, state energies, amplitudes and phases the population norm is stationary to first order in the time step through the real RK4 step (the generator conserves the norm; higher orders are the integrator's), and the hop integral is the antisymmetric 2 dt Re(c_i* c_j) D_ij with zero diagonal")
def ob_c(ob):
    import seqm.NonadiabaticDynamics as ND

    ob.encodes(ND.NonadiabaticDynamicsBase._propagate_electronic)
    ob.bound("1 trajectory x 3 states, one RK4 sub-step; amplitudes (x, y), phases, energies at both ends and both coupling matrices symbolic; the time step is a dual number at dt = 0 (exact first derivative through the real code); sin/cos uninterpreted with s^2 + c^2 = 1")
    ob.assume("first order only: the O(dt^5) local error of RK4 is the integrator's accuracy order, which the property allows")
    S.reset()
    S.ST.dual_n = 1
    try:
        n = 3
        dyn, _ = _dyn()
        dyn._nstates = n
        X = S.reals("x", (1, n))
        Y = S.reals("y", (1, n))
        TH = S.reals("th", (1, n))
        amp = np.empty((1, n, 3), dtype=object)
        amp[..., 0], amp[..., 1], amp[..., 2] = X, Y, TH
        dyn._amp_phase = SymTensor(amp)
        dyn.timestep = SymTensor(np.array(Dual(z3.RealVal(0), (z3.RealVal(1),)), dtype=object))

        def antisym(name):
            d = np.full((1, n, n), z3.RealVal(0), dtype=object)
            for i in range(n):
                for j in range(i + 1, n):
                    d[0, i, j] = z3.Real("%s_%d_%d" % (name, i, j))
                    d[0, j, i] = -d[0, i, j]
            return d

        D0, D1 = antisym("d0"), antisym("d1")
        E0, E1 = S.reals("e0", (1, n)), S.reals("e1", (1, n))
        with symbolic_factories():
            dyn._propagate_electronic({"energies": SymTensor(E0.copy()), "nac_dot": SymTensor(D0.copy())}, {"energies": SymTensor(E1.copy()), "nac_dot": SymTensor(D1.copy())}, substeps=1)
        out = dyn._amp_phase.a
        H = dyn._hop_integral.a
    finally:
        S.ST.dual_n = 0
    side = list(S.ST.side)
    tan = lambda e: e.t[0] if isinstance(e, Dual) else z3.RealVal(0)
    valv = lambda e: e.v if isinstance(e, Dual) else e
    dnorm = sum(2 * (valv(out[0, k, 0]) * tan(out[0, k, 0]) + valv(out[0, k, 1]) * tan(out[0, k, 1])) for k in range(n))
    claims = [("d(norm)/dt = 0 at dt = 0", dnorm == 0)]
    claims += [("amplitude %d unchanged at dt = 0" % k, z3.And(valv(out[0, k, 0]) == X[0, k], valv(out[0, k, 1]) == Y[0, k])) for k in range(n)]
    for i in range(n):
        claims.append(("hop integral diagonal %d" % i, z3.And(valv(H[0, i, i]) == 0, tan(H[0, i, i]) == 0)))
        for j in range(i + 1, n):
            claims.append(("hop integral antisymmetric (%d,%d)" % (i, j), tan(H[0, i, j]) + tan(H[0, j, i]) == 0))
    for name, c in claims:
        lab = "c:" + name
        v, m = smt.prove(c, side, lab, "nra", 120)
        if v == "sat":
            if replay_rk4_norm():
                ob.violation("amplitude propagation does not conserve the population norm to first order in dt for an antisymmetric coupling (%s)" % name, {"module": "harness.C17", "func": "replay_rk4_norm", "args": {}})
                return
            raise HarnessError("RK4 generator counterexample did not reproduce (%s)" % lab)
        ob.verdict(v, lab)
    a, b = z3.Reals("a b")
    expect_refuted(ob, a * b - b * a + a * a == 0, [a != 0], "twin: a symmetric part of the coupling changes the norm", "nra")


def replay_attempt_hop(active, Hrow, pop, r):
    """float64, real _attempt_hop for one trajectory: hop integral row, population of the active state and the random draw
    given; compares the selected target with the fewest-switches rule"""
    dyn, ND = _dyn()
    n = len(Hrow)
    H = torch.zeros(1, n, n, dtype=torch.float64)
    H[0, active] = torch.tensor(Hrow, dtype=torch.float64)
    amp = torch.zeros(1, n, 3, dtype=torch.float64)
    amp[0, active, 0] = pop**0.5
    dyn._amp_phase, dyn._hop_integral, dyn._active_states, dyn._nstates = amp, H, torch.tensor([active]), n
    saved = torch.rand
    torch.rand = lambda *a, **k: torch.tensor([r], dtype=torch.float64)
    try:
        got = int(dyn._attempt_hop()[0])
    finally:
        torch.rand = saved
    g = [max(0.0, h / max(pop, 1e-10)) for h in Hrow]
    s = sum(g)
    if s > 1:
        g = [x / s for x in g]
    want, c = -1, 0.0
    for j, x in enumerate(g):
        c += x
        if c >= r:
            want = j
            break
    print("replay _attempt_hop: active %d, probabilities %s, draw %.6f -> target %d, fewest-switches rule %d" % (active, [round(x, 6) for x in g], r, got, want))
    return got != want


@obligation(PID, "g", title="hop selection: the probabilities used are g_j = max(0, H_ij / a_ii) rescaled to sum 1 when they exceed it (so each lies in [0,1] and the row sum is at most one), and the target is the first state whose cumulative probability reaches the random draw, per trajectory — for arbitrary hop integrals, populations and draws")
def ob_g(ob):
    import seqm.NonadiabaticDynamics as ND

    ob.encodes(ND.SurfaceHoppingDynamics._attempt_hop)
    ob.bound("2 trajectories x 3 states with different active states; hop integrals, amplitudes and the two random draws in (0,1) symbolic reals; path forking over the selection")
    n, nmol = 3, 2
    active = [1, 2]
    H = S.reals("h", (nmol, n, n))
    X, Y = S.reals("x", (nmol, n)), S.reals("y", (nmol, n))
    R = [z3.Real("r_%d" % b) for b in range(nmol)]
    assm = [z3.And(r > 0, r < 1) for r in R]
    amp = np.empty((nmol, n, 3), dtype=object)
    amp[..., 0], amp[..., 1], amp[..., 2] = X, Y, z3.RealVal(0)
    saved = torch.rand
    torch.rand = lambda *a, **k: SymTensor(np.array(R, dtype=object))

    def fn():
        dyn, _ = _dyn()
        dyn._amp_phase, dyn._hop_integral, dyn._active_states, dyn._nstates = SymTensor(amp.copy()), SymTensor(H.copy()), torch.tensor(active), n
        with symbolic_factories(bool_symbolic=True):
            t = dyn._attempt_hop()
        return t.a.copy() if isinstance(t, SymTensor) else S.to_obj(t)

    try:
        ex = Explorer(assumptions=assm, piecewise="ite", kind="nra", max_paths=60)
        res = ex.run(fn)
    finally:
        torch.rand = saved
    ob.paths += ex.paths
    ob.require(len(res) >= 1, "no feasible path through _attempt_hop")
    mx = lambda a, b: z3.If(a >= b, a, b)
    for pc, side, T in res:
        base = assm + list(pc) + list(side)
        for b in range(nmol):
            i = active[b]
            pop = X[b, i] * X[b, i] + Y[b, i] * Y[b, i]
            den = mx(pop, S.rv(1e-10))
            g = [mx(z3.RealVal(0), H[b, i, j] / den) for j in range(n)]
            s = sum(g)
            g2 = [z3.If(s > 1, gj / mx(s, S.rv(1e-12)), gj) for gj in g]
            cum = [sum(g2[: j + 1]) for j in range(n)]
            want = z3.RealVal(-1)
            for j in reversed(range(n)):
                want = z3.If(cum[j] >= R[b], z3.RealVal(j), want)
            t = T.reshape(-1)[b]
            t = z3.ToReal(t) if z3.is_int(t) else t
            lab = "g:trajectory %d target follows the fewest-switches rule" % b
            v, m = smt.prove(t == want, base, lab, "nra", 120)
            if v == "sat":
                ev = lambda e: float(smt.model_value(m, e))
                args = dict(active=i, Hrow=[ev(H[b, i, j]) for j in range(n)], pop=max(ev(pop), 0.0), r=ev(R[b]))
                if replay_attempt_hop(**args):
                    ob.violation("_attempt_hop selects a target that the fewest-switches probabilities do not give (trajectory %d of a batch with active states %s)" % (b, active), {"module": "harness.C17", "func": "replay_attempt_hop", "args": args})
                    return
                raise HarnessError("hop-selection counterexample did not reproduce (%s): %s" % (lab, args))
            ob.verdict(v, lab)
            # consequences stated by the property: probabilities in [0,1], row sum <= 1
            v2, _ = smt.prove(z3.And(*[z3.And(gj >= 0, gj <= 1) for gj in g2] + [sum(g2) <= 1]), assm, "g:probabilities in [0,1], row sum <= 1", "nra", 60)
            ob.verdict(v2, "g:probabilities in [0,1], row sum <= 1 (trajectory %d)" % b)
    a_, b_ = z3.Reals("a b")
    expect_refuted(ob, a_ + b_ <= 1, [a_ >= 0, b_ >= 0, a_ <= 1, b_ <= 1], "twin: unnormalised probabilities can exceed a row sum of one", "lra")


# ------------------------------------------------------------------------------------------------------------------------
# h: nonadiabatic coupling vectors: derivative operators of nac.py vs the exact derivative of the Fock matrix
# ------------------------------------------------------------------------------------------------------------------------
def _nac_setup(species, symbolic=True, seed=3):
    """real Parser layout; derivative blocks of overlap*beta, core attraction (upper triangles) and two-electron integrals,
    the ground-state density and a symmetrised transition density either symbolic or random numbers"""
    from .C01 import _layout, _phys
    from .C06 import _sym_density

    mol, const, nmol, molsize = _layout(species, False)
    n = 4 * molsize
    phys = _phys(species)
    npairs = mol.idxi.shape[0]
    Z0 = z3.RealVal(0)
    g = torch.Generator().manual_seed(seed)
    rnd = lambda: float(torch.rand(1, generator=g)) - 0.5
    mk = (lambda name: z3.Real(name)) if symbolic else (lambda name: rnd())
    zero = Z0 if symbolic else 0.0
    dt = object if symbolic else float
    wx = np.full((npairs, 3, 10, 10), zero, dtype=dt)
    ovx = np.full((npairs, 3, 4, 4), zero, dtype=dt)
    e1bx = np.full((npairs, 3, 4, 4), zero, dtype=dt)
    e2ax = np.full((npairs, 3, 4, 4), zero, dtype=dt)
    for p in range(npairs):
        na = 4 if int(mol.ni[p]) > 1 else 1
        nb = 4 if int(mol.nj[p]) > 1 else 1
        for d in range(3):
            for k in range(10 if na == 4 else 1):
                for l in range(10 if nb == 4 else 1):
                    wx[p, d, k, l] = mk("wx%d_%d_%d_%d" % (p, d, k, l))
            for mu in range(na):
                for la in range(nb):
                    ovx[p, d, mu, la] = mk("ov%d_%d_%d_%d" % (p, d, mu, la))
            for mu in range(na):
                for nu in range(mu, na):
                    e1bx[p, d, mu, nu] = mk("e1b%d_%d_%d_%d" % (p, d, mu, nu))
            for mu in range(nb):
                for nu in range(mu, nb):
                    e2ax[p, d, mu, nu] = mk("e2a%d_%d_%d_%d" % (p, d, mu, nu))
    if symbolic:
        P = _sym_density("P", nmol, n, phys)
        B = _sym_density("B", nmol, n, phys)
    else:
        P = np.zeros((nmol, n, n))
        B = np.zeros((nmol, n, n))
        for b in range(nmol):
            for ii, i in enumerate(phys[b]):
                for j in phys[b][ii:]:
                    P[b, i, j] = P[b, j, i] = rnd()
                    B[b, i, j] = B[b, j, i] = rnd()
    return mol, const, nmol, molsize, n, phys, npairs, wx, ovx, e1bx, e2ax, P, B


def _nac_code(mol, nmol, molsize, n, wx, ovx, e1bx, e2ax, P, B, wrap):
    """real _build_nac_derivative_operators + _contract_nac_density_batch with the integral-derivative routines replaced by
    recorders that hand out the given derivative blocks"""
    from seqm.seqm_functions import nac as NAC

    saved = (NAC.overlap_der_finiteDiff, NAC.w_der)

    def ovstub(overlap_x, *a, **k):
        overlap_x[...] = wrap(ovx.copy())

    def wderstub(const_, Z_, tore_, ni_, nj_, w_x, *a, **k):
        w_x[...] = wrap(wx.copy())
        return wrap(e1bx.copy()), wrap(e2ax.copy())

    NAC.overlap_der_finiteDiff, NAC.w_der = ovstub, wderstub
    try:
        blk = lambda X: wrap(np.ascontiguousarray(X.reshape(nmol, molsize, 4, molsize, 4).transpose(0, 1, 3, 2, 4).reshape(nmol * molsize * molsize, 4, 4)))
        ops = NAC._build_nac_derivative_operators(mol, blk(P), "ri", "riXH", torch.float64, torch.device("cpu"))
        Bb = blk(B)
        Bb = Bb.reshape(nmol * molsize * molsize, 1, 4, 4) if hasattr(Bb, "reshape") else Bb
        return NAC._contract_nac_density_batch(mol, Bb, *ops, nmol, molsize)
    finally:
        NAC.overlap_der_finiteDiff, NAC.w_der = saved


def replay_nac_operators(species):
    """float64: the real NAC operator assembly + contraction on random derivative blocks vs a central finite difference of
    sum_{mu nu} B_{mu nu} F_{mu nu} along the one-parameter family H(t) = H + t H', w(t) = w + t w' (density held fixed),
    F from the real fock()"""
    from seqm.seqm_functions.fock import fock
    from seqm.seqm_functions.hcore import hcore
    from .common import quiet

    mol, const, nmol, molsize, n, phys, npairs, wx, ovx, e1bx, e2ax, P, B = _nac_setup(species, symbolic=False)
    T = lambda a: torch.tensor(a, dtype=torch.float64)
    got = _nac_code(mol, nmol, molsize, n, wx, ovx, e1bx, e2ax, P, B, T)  # (nmol, 1, molsize, 3)
    with quiet():
        M0, w0, *_ = hcore(mol)
    M0, w0 = M0.detach().double(), w0.detach().double()
    pr = mol.parameters
    maskd, mask = mol.maskd.tolist(), mol.mask.tolist()
    natoms = mol.Z.shape[0]
    real_atoms = torch.arange(nmol * molsize)[mol.species.reshape(-1) > 0].tolist()
    worst = 0.0
    for a in range(natoms):
        for d in range(3):
            Mt, wt = torch.zeros_like(M0), torch.zeros_like(w0)
            for p in range(npairs):
                s = 1 if int(mol.idxi[p]) == a else (-1 if int(mol.idxj[p]) == a else 0)
                if s == 0:
                    continue
                bi, bj, bo = maskd[int(mol.idxi[p])], maskd[int(mol.idxj[p])], mask[p]
                Mt[bi] += s * T(e1bx[p, d])
                Mt[bj] += s * T(e2ax[p, d])
                Mt[bo] += s * T(ovx[p, d]) / 2
                wt[p] += s * T(wx[p, d])
            vals = []
            for h in (1e-4, -1e-4):
                F = fock(nmol, molsize, T(P), M0 + h * Mt, mol.maskd, mol.mask, mol.idxi, mol.idxj, w0 + h * wt, torch.tensor([0]), pr["g_ss"], pr["g_pp"], pr["g_sp"], pr["g_p2"], pr["h_sp"], "AM1", None, None, None, mol.Z, None, None)
                vals.append((T(B) * F).sum().item())
            fd = (vals[0] - vals[1]) / 2e-4
            row = real_atoms[a]
            worst = max(worst, abs(got[row // molsize, 0, row % molsize, d].item() - fd))
    print("replay NAC operators %s: max |code - d/dt sum B F(t)| = %.3e" % (species, worst))
    return worst > 1e-6


@obligation(PID, "h", title="nonadiabatic coupling vectors: the derivative operators assembled in nac.py (overlap, exchange, Coulomb and core-attraction parts) contracted with a symmetric transition density give, for every atom and Cartesian direction, the exact derivative of sum_{mu nu} B_{mu nu} F_{mu nu} at fixed ground-state density — so the coupling vector is a gradient-type (rotation-covariant) quantity")
def ob_h(ob):
    from seqm.seqm_functions import nac as NAC
    from seqm.seqm_functions.fock import fock
    from seqm.seqm_functions.hcore import hcore
    from .C06 import _sym_hcore_blocks
    from .common import quiet

    ob.encodes(NAC._build_nac_derivative_operators, NAC._contract_nac_density_batch, fock)
    ob.bound("molecule O-C-H (heavy-heavy and heavy-hydrogen pairs); derivative blocks of overlap*beta, core attraction and two-electron integrals, the integrals themselves, H, one-centre parameters, the ground-state density and the symmetric transition density are free symbolic reals")
    ob.assume("overlap finite differences and the integral-derivative kernel are recorders (the kernel itself is C01.c); oracle: forward-mode dual numbers through the real fock()", "hcore assembly convention as in C01.f: M[diag block of i] += e1b, M[diag block of j] += e2a, M[off-diagonal block] = overlap*(beta_i+beta_j)/2")
    species = [[8, 6, 1]]
    S.reset()
    mol, const, nmol, molsize, n, phys, npairs, wx, ovx, e1bx, e2ax, P, B = _nac_setup(species)
    with symbolic_factories():
        got = _nac_code(mol, nmol, molsize, n, wx, ovx, e1bx, e2ax, P, B, lambda a: SymTensor(a))
    got = got.a  # (nmol, 1, molsize, 3)
    natoms = mol.Z.shape[0]
    w = np.full((npairs, 10, 10), z3.RealVal(0), dtype=object)
    for p in range(npairs):
        for k in range(10 if int(mol.ni[p]) > 1 else 1):
            for l in range(10 if int(mol.nj[p]) > 1 else 1):
                w[p, k, l] = z3.Real("w%d_%d_%d" % (p, k, l))
    g = {k: S.reals(k, (natoms,)) for k in ("gss", "gpp", "gsp", "gp2", "hsp")}
    Hfull, M = _sym_hcore_blocks(nmol, molsize, phys)
    maskd, mask = mol.maskd.tolist(), mol.mask.tolist()
    real_atoms = torch.arange(nmol * molsize)[mol.species.reshape(-1) > 0].tolist()
    Z0 = z3.RealVal(0)
    for a in range(natoms):
        for d in range(3):
            Mt = np.full(M.shape, Z0, dtype=object)
            wt = np.full(w.shape, Z0, dtype=object)
            for p in range(npairs):
                s = 1 if int(mol.idxi[p]) == a else (-1 if int(mol.idxj[p]) == a else 0)
                if s == 0:
                    continue
                bi, bj, bo = maskd[int(mol.idxi[p])], maskd[int(mol.idxj[p])], mask[p]
                for mu in range(4):
                    for nu in range(4):
                        Mt[bi, mu, nu] = Mt[bi, mu, nu] + s * e1bx[p, d, mu, nu]
                        Mt[bj, mu, nu] = Mt[bj, mu, nu] + s * e2ax[p, d, mu, nu]
                        Mt[bo, mu, nu] = Mt[bo, mu, nu] + s * ovx[p, d, mu, nu] / 2
                wt[p] = wt[p] + s * wx[p, d]
            S.ST.dual_n = 1
            try:
                mkd = np.frompyfunc(lambda v, t: Dual(v, (t,)), 2, 1)
                MD, wD = SymTensor(mkd(M, Mt)), SymTensor(mkd(w, wt))
                with symbolic_factories():
                    F = fock(nmol, molsize, SymTensor(P.copy()), MD, mol.maskd, mol.mask, mol.idxi, mol.idxj, wD, torch.tensor([0]), SymTensor(g["gss"]), SymTensor(g["gpp"]), SymTensor(g["gsp"]), SymTensor(g["gp2"]), SymTensor(g["hsp"]), "AM1", None, None, None, mol.Z, None, None)
                dS = z3.RealVal(0)
                for i in phys[0]:
                    for j in phys[0]:
                        e = F.a[0, i, j]
                        if isinstance(e, Dual):
                            dS = dS + B[0, i, j] * e.t[0]
            finally:
                S.ST.dual_n = 0
            row = real_atoms[a]
            lab = "h:atom %d direction %d" % (a, d)
            v, m = smt.prove(got[row // molsize, 0, row % molsize, d] == dS, [], lab, "auto", 120)
            if v == "sat":
                if replay_nac_operators(species):
                    ob.violation("NAC derivative operators: the contraction for atom %d, direction %d is not the derivative of sum B F (an operator block is dropped, transposed or mis-scaled): coupling vectors are wrong and not rotation covariant" % (a, d), {"module": "harness.C17", "func": "replay_nac_operators", "args": {"species": species}})
                    return
                raise HarnessError("NAC operator counterexample did not reproduce (%s)" % lab)
            ob.verdict(v, lab)
    x, y = z3.Reals("x y")
    expect_refuted(ob, x + y == x, [y != 0], "twin: a dropped operator block is noticed", "lra")
