"""Rank-m Krylov kernel (Niklasson 2020, Alg. 3) as executed by EnergyXL.forward (XL-BOMD, max_rank branch) and by the KSA
SCF driver scf_forward3.  The real code runs on symbolic matrices; the electronic-structure callees are replaced by a
*linear-response model*: the density step returns P + r (r = symbolic residual) and the response step returns L(v) for a
symbolic linear map L on symmetric matrices.  The linear solve / inverse of the small Gram matrix is a fresh unknown
constrained by its defining equations (engine: ST.solves), so every claim below is a polynomial identity that is decided
coefficient-wise in those unknowns."""

import types

import numpy as np
import torch
import z3

from engine import symtorch as S
from engine.symtorch import SymTensor, symbolic_factories

NB = 4  # one atom: 4x4 matrices; the symbolic part lives in the leading 2x2 block


def sym_block(name, B):
    """(B,4,4) object array: symmetric symbolic leading 2x2 block, zero elsewhere; returns array and coordinate list"""
    a = np.empty((B, NB, NB), dtype=object)
    a[...] = S.ZERO
    coords = []
    for b in range(B):
        x, y, z = (z3.Real("%s%d_%s" % (name, b, c)) for c in "abc")
        a[b, 0, 0], a[b, 0, 1], a[b, 1, 0], a[b, 1, 1] = x, y, y, z
        coords.append((x, y, z))
    return a, coords


def lin_map(B):
    """symbolic linear map on symmetric 2x2 blocks, one per molecule: coordinates (X00, (X01+X10)/2, X11)"""
    Ls = []
    for b in range(B):
        Ls.append([[z3.Real("L%d_%d%d" % (b, i, j)) for j in range(3)] for i in range(3)])

    def apply(X):
        x = S.to_obj(X)
        out = np.empty(x.shape, dtype=object)
        out[...] = S.ZERO
        for b in range(x.shape[0]):
            c = (x[b, 0, 0], (x[b, 0, 1] + x[b, 1, 0]) / 2, x[b, 1, 1])
            y = [sum(Ls[b][i][j] * c[j] for j in range(3)) for i in range(3)]
            out[b, 0, 0], out[b, 0, 1], out[b, 1, 0], out[b, 1, 1] = y[0], y[1], y[1], y[2]
        return out

    return Ls, apply


def frob(x, y):
    return sum(x[i, j] * y[i, j] for i in range(NB) for j in range(NB))


class _Params(dict):
    def __missing__(self, k):
        return torch.zeros(1, dtype=torch.float64)


def run_xl(rank, B, thr=0.0, float_env=None):
    """one execution of the real EnergyXL.forward (all_terms=True, Krylov branch).  float_env=None: symbolic (call inside an
    Explorer); otherwise a dict name -> float and everything runs in torch floats (replay)."""
    from seqm.dynamics import xlbomd as XB

    rec = {"V": [], "LV": []}
    if float_env is None:
        P = np.empty((B, NB, NB), dtype=object)
        P[...] = S.ZERO
        r, _ = sym_block("r", B)
        Ls, L = lin_map(B)
        wrap = lambda a: SymTensor(a.copy())
        Pt = torch.zeros(B, NB, NB, dtype=torch.float64)
    else:
        ev = lambda n: float(float_env.get(n, 0.0))
        Pt = torch.zeros(B, NB, NB, dtype=torch.float64)
        r = torch.zeros(B, NB, NB, dtype=torch.float64)
        Lf = torch.zeros(B, 3, 3, dtype=torch.float64)
        for b in range(B):
            x, y, z = (ev("r%d_%s" % (b, c)) for c in "abc")
            r[b, 0, 0], r[b, 0, 1], r[b, 1, 0], r[b, 1, 1] = x, y, y, z
            for i in range(3):
                for j in range(3):
                    Lf[b, i, j] = ev("L%d_%d%d" % (b, i, j))

        def L(X):
            out = torch.zeros_like(X)
            for b in range(X.shape[0]):
                c = torch.stack((X[b, 0, 0], (X[b, 0, 1] + X[b, 1, 0]) / 2, X[b, 1, 1]))
                y = Lf[b] @ c
                out[b, 0, 0], out[b, 0, 1], out[b, 1, 0], out[b, 1, 1] = y[0], y[1], y[1], y[2]
            return out

        wrap = lambda a: a.clone()

    def fermi(F, T, nocc, nHeavy, nHydro, kB, scf_backward=0):
        D = wrap(r)  # P = 0, so D - P = r
        one = torch.ones(B, NB, dtype=torch.float64)
        return (D, torch.zeros(B, dtype=torch.float64), torch.eye(NB, dtype=torch.float64).repeat(B, 1, 1), torch.arange(NB, dtype=torch.float64).repeat(B, 1), 0.5 * one, torch.zeros(B, 1, dtype=torch.float64), one)

    def g(nmol, molsize, dD, *a):
        rec["V"].append(S.to_obj(dD).copy() if float_env is None else dD.clone())
        return dD

    def canon(FO1, *a):
        out = L(FO1)
        rec["LV"].append(out.copy() if float_env is None else out.clone())
        return wrap(out)

    zB = torch.zeros(B, dtype=torch.float64)
    names = ("hcore", "fock", "Fermi_Q", "G", "Canon_DM_PRT", "pair_nuclear_energy", "elec_energy_xl", "calc_ground_dipole", "total_energy", "elec_energy_isolated_atom", "heat_formation")
    saved = {k: getattr(XB, k) for k in names}
    XB.hcore = lambda mol: (torch.zeros(B, 4, 4, dtype=torch.float64), torch.zeros(1, 10, 10, dtype=torch.float64), zB, zB, zB, zB)
    XB.fock = lambda *a: torch.zeros(B, NB, NB, dtype=torch.float64)
    XB.Fermi_Q, XB.G, XB.Canon_DM_PRT = fermi, g, canon
    XB.pair_nuclear_energy = lambda *a, **k: zB
    XB.elec_energy_xl = lambda *a: zB.clone()
    XB.calc_ground_dipole = lambda *a: None
    XB.total_energy = lambda *a: (zB, zB)
    XB.elec_energy_isolated_atom = lambda *a, **k: zB
    XB.heat_formation = lambda *a, **k: (zB, zB)
    try:
        en = XB.EnergyXL.__new__(XB.EnergyXL)
        torch.nn.Module.__init__(en)
        en.seqm_parameters = {"method": "MNDO"}
        en.method = "MNDO"
        en.excited_states = None
        en.Hf_flag = True
        mol = types.SimpleNamespace(method="MNDO", const=types.SimpleNamespace(do_timing=False), species=torch.ones(B, 1, dtype=torch.int64), coordinates=torch.zeros(B, 1, 3, dtype=torch.float64))
        li = torch.zeros(0, dtype=torch.int64)
        en.parser = lambda m, method, *a, **k: (B, 1, torch.zeros(B, dtype=torch.int64), torch.ones(B, dtype=torch.int64), torch.zeros(B, dtype=torch.int64), torch.ones(B, dtype=torch.int64), torch.ones(B, dtype=torch.int64), torch.arange(B), torch.arange(B), li, li, li, li, li, li, torch.zeros(0, 3, dtype=torch.float64), torch.zeros(0, dtype=torch.float64))
        en.packpar = lambda Z, learned_params=None: (_Params(), zB, zB)
        xl = {"max_rank": rank, "err_threshold": thr, "T_el": 1500.0}
        if float_env is None:
            with symbolic_factories(bool_symbolic=True):
                out = en.forward(mol, Pt, None, xl_bomd_params=xl, all_terms=True)
        else:
            out = en.forward(mol, Pt, None, xl_bomd_params=xl, all_terms=True)
    finally:
        for k, v in saved.items():
            setattr(XB, k, v)
    dP2, Err = out[8], out[9]
    rec.update(dP2=S.to_obj(dP2).copy() if float_env is None else dP2, Err=S.to_obj(Err).copy() if float_env is None else Err, r=r, solves=list(S.ST.solves) if float_env is None else None, side=list(S.ST.side_raw) if float_env is None else None)
    return rec


def coords(M):
    return (M[0, 0], (M[0, 1] + M[1, 0]) / 2, M[1, 1])


def det3(a, b, c):
    return a[0] * (b[1] * c[2] - b[2] * c[1]) - a[1] * (b[0] * c[2] - b[2] * c[0]) + a[2] * (b[0] * c[1] - b[1] * c[0])


def aux_consts(t):
    out, todo, seen = [], [t], set()
    while todo:
        x = todo.pop()
        if x.get_id() in seen:
            continue
        seen.add(x.get_id())
        if z3.is_const(x) and x.decl().kind() == z3.Z3_OP_UNINTERPRETED:
            if "!" in x.decl().name():
                out.append(x)
        else:
            todo.extend(x.children())
    return out


class Chain:
    """lemma chaining by generalisation: once a fact about a (large) term is proven, the term is replaced by a fresh variable
    that is only known to satisfy the proven facts; later claims are decided for every value of the fresh variable"""

    def __init__(self, base, prove):
        self.base = list(base)  # path condition + side constraints (original terms)
        self.pairs = []  # (original term, fresh variable or constant)
        self.facts = []  # proven facts restated on the fresh variables
        self.prove = prove
        self.nonzero = {}  # divisor id -> proven non-zero

    def sub(self, t):
        return z3.substitute(t, *self.pairs) if self.pairs else t

    @staticmethod
    def _aux(t, memo={}):
        """indices of the auxiliary variables (sqrt!k, lsx!k, inv!k: created in program order) occurring in t"""
        out, todo, seen = set(), [t], set()
        while todo:
            x = todo.pop()
            if x.get_id() in seen:
                continue
            seen.add(x.get_id())
            if z3.is_const(x) and x.decl().kind() == z3.Z3_OP_UNINTERPRETED:
                n = x.decl().name()
                if "!" in n:
                    out.add(int(n.rsplit("!", 1)[1]))
            else:
                todo.extend(x.children())
        return out

    def sliced(self, claim, constraints):
        """the constraints that only speak about auxiliaries created no later than the newest one in the claim (dropping
        assumptions is sound for a proof; a model found this way is not trusted)"""
        ks = self._aux(claim)
        top = max(ks) if ks else -1
        return [c for c in constraints if all(k <= top for k in self._aux(c))]

    def _attempt(self, claim, cons, label, timeout):
        """claim under cons: first with the divisions cleared (divisors proven non-zero), then as it stands"""
        from engine import smt

        cd = smt.clear_denominators(claim)
        if cd is not None:
            c2, divisors = cd
            okd = True
            for d in divisors:
                key = d.get_id()
                if key not in self.nonzero:
                    v, _ = self.prove(d != 0, cons, label + " [divisor non-zero]", min(timeout, 20))
                    self.nonzero[key] = v == "unsat"
                okd &= self.nonzero[key]
            if okd:
                v, m = self.prove(z3.simplify(c2, som=True), cons, label + " [divisions cleared]", timeout)
                if v == "unsat":
                    return v, None
        return self.prove(claim, cons, label, timeout)

    def minimal(self, claim, constraints):
        """conjuncts that speak only about auxiliaries of the claim itself"""
        ks = self._aux(claim)
        out = []
        for c in constraints:
            for part in (c.children() if z3.is_and(c) else [c]):
                if self._aux(part) <= ks:
                    out.append(part)
        return out

    def decide(self, claim, label, timeout=60):
        """-> verdict, model; attempts: minimal slice, generalised + sliced, original + sliced, original with every constraint"""
        if not z3.is_eq(claim):
            v, m = self.prove(claim, self.minimal(claim, self.base), label + " [minimal]", min(timeout, 10))
            if v == "unsat":
                return v, None
        weak = None
        if self.pairs:
            g = self.sub(claim)
            gb = self.sliced(g, [self.sub(c) for c in self.base]) + self.facts
            v, m = self._attempt(g, gb, label + " [generalised]", timeout)
            if v == "unsat":
                return v, None
            if v == "sat":
                weak = m
        v, m = self._attempt(claim, self.sliced(claim, self.base), label + " [sliced]", timeout)
        if v == "unsat":
            return v, None
        if v == "sat":
            weak = weak or m
        v, m = self.prove(claim, self.base, label, timeout)
        if v == "unknown" and weak is not None:
            return "sat?", weak  # refuted only under an over-approximation: a candidate, to be settled by the replay
        return v, m

    def hide(self, terms, name):
        """terms: dict key -> z3 term (already decided facts are added by the caller through .fact)"""
        out = {}
        for k, t in terms.items():
            same = [to for (fr, to) in self.pairs if fr.eq(t)]
            if same:
                out[k] = same[0]
                continue
            ts = z3.simplify(self.sub(t))
            if z3.is_rational_value(ts):
                out[k] = ts
                if not z3.is_rational_value(t):
                    self.pairs.append((t, ts))
                continue
            f = z3.Real("%s_%s" % (name, k))
            self.pairs.append((t, f))
            out[k] = f
        return out

    def fact(self, c):
        self.facts.append(c)


BLOCK = ((0, 0), (0, 1), (1, 0), (1, 1))


def _unit_by_radicand(V, defs):
    """V = N / s entrywise with s = sqrt(R): <V,V> = 1 is the division-free identity sum N_ij^2 = R (s > 0)"""
    from engine import smt

    memo, tot, den = {}, None, None
    for i in range(NB):
        for j in range(NB):
            n, d = smt.numden(V[i, j], memo)
            if z3.is_rational_value(z3.simplify(n)) and z3.simplify(n).numerator_as_long() == 0:
                continue
            if len(d) != 1:
                return None
            (t, p), = d.values()
            if p != 1 or not z3.is_const(t) or t.decl().name() not in defs or (den is not None and not den.eq(t)):
                return None
            den = t
            tot = n * n if tot is None else tot + n * n
    if den is None:
        return None
    return tot == defs[den.decl().name()]


def decide_kernel(rec, B, sign, base, prove, report, timeout=60):
    """decide the claims that characterise the published rank-m update on one explored execution.
    report(label, verdict, model) is called once per claim."""
    m = len(rec["V"])
    r = rec["r"]
    # no breakdown: every normalisation divides by a non-zero norm (D != P, and each new direction has a component
    # orthogonal to the earlier ones); 0/0 is NaN in the code and an unspecified value in the solver
    norms = {}
    for q in range(m):
        for b in range(B):
            for t in rec["V"][q][b].reshape(-1):
                for a in aux_consts(t):
                    if a.decl().name().startswith("sqrt!"):
                        norms[a.decl().name()] = a
    ch = Chain(list(base) + [a > 0 for a in norms.values()], prove)
    defs = {}  # sqrt auxiliary -> radicand as the program built it
    for c in base:
        if z3.is_and(c) and c.num_args() == 2 and z3.is_eq(c.arg(1)):
            l = c.arg(1).arg(0)
            if z3.is_app(l) and l.decl().kind() == z3.Z3_OP_MUL and l.num_args() == 2 and l.arg(0).eq(l.arg(1)) and z3.is_const(l.arg(0)):
                defs[l.arg(0).decl().name()] = c.arg(1).arg(1)
    Vh = {}
    for q in range(m):
        for b in range(B):
            V = rec["V"][q][b]
            pre = "Krylov vector %d, molecule %d: " % (q, b)
            ok = True

            def dec(claim, what):
                v, mod = ch.decide(claim, pre + what, timeout)
                report(pre + what, v, mod)
                return v == "unsat"

            for i in range(NB):
                for j in range(NB):
                    if (i, j) not in BLOCK:
                        ok &= dec(V[i, j] == 0, "entry (%d,%d) outside the molecule's block is zero" % (i, j))
            ok &= dec(V[0, 1] == V[1, 0], "symmetric")
            Vs = np.empty((NB, NB), dtype=object)
            for i in range(NB):
                for j in range(NB):
                    Vs[i, j] = ch.sub(V[i, j])
            un = _unit_by_radicand(Vs, {k_: ch.sub(x_) for k_, x_ in defs.items()})
            if un is not None and prove(z3.simplify(un, som=True), ch.facts, pre + "unit Frobenius norm [generalised: sum of squared numerators = radicand of the normaliser]", timeout)[0] == "unsat":
                report(pre + "unit Frobenius norm", "unsat", None)
            else:
                ok &= dec(frob(V, V) == 1, "unit Frobenius norm")
            for p_ in range(q):
                ok &= dec(frob(V, rec["V"][p_][b]) == 0, "orthogonal to Krylov vector %d" % p_)
            if q == 0:
                c0, cr = coords(V), coords(r[b])
                for i, j in ((0, 1), (0, 2), (1, 2)):
                    dec(c0[i] * cr[j] - c0[j] * cr[i] == 0, "parallel to the residual D - P (minor %d%d)" % (i, j))
                dec(frob(V, r[b]) >= 0, "points along +(D - P)")
            if q == 1:
                W0 = rec["LV"][0][b] - rec["V"][0][b]
                dec(det3(coords(V), coords(rec["V"][0][b]), coords(W0)) == 0, "lies in span{V0, W0} with W0 = K0 (response(V0) - V0)")
            if not ok:
                continue  # nothing proven about this vector: it stays as it is
            f = ch.hide({"%d%d" % (i, j): V[i, j] for i in range(NB) for j in range(NB)}, "v%d_%d" % (q, b))
            Vh[(q, b)] = f
            for i in range(NB):
                for j in range(NB):
                    if (i, j) not in BLOCK and not z3.is_rational_value(f["%d%d" % (i, j)]):
                        ch.fact(f["%d%d" % (i, j)] == 0)
            ch.fact(f["01"] == f["10"])
            g = lambda x, y: sum(x["%d%d" % (i, j)] * y["%d%d" % (i, j)] for i in range(NB) for j in range(NB))
            ch.fact(g(f, f) == 1)
            for p_ in range(q):
                if (p_, b) in Vh:
                    ch.fact(g(f, Vh[(p_, b)]) == 0)
            # the response to this vector is hidden as well (symmetric, confined to the block: both are facts about the model)
            A = rec["LV"][q][b]
            if all(dec(A[i, j] == 0, "response entry (%d,%d) outside the block is zero" % (i, j)) for i in range(NB) for j in range(NB) if (i, j) not in BLOCK) and dec(A[0, 1] == A[1, 0], "response symmetric"):
                fa = ch.hide({"%d%d" % (i, j): A[i, j] for i in range(NB) for j in range(NB)}, "a%d_%d" % (q, b))
                for i in range(NB):
                    for j in range(NB):
                        if (i, j) not in BLOCK and not z3.is_rational_value(fa["%d%d" % (i, j)]):
                            ch.fact(fa["%d%d" % (i, j)] == 0)
                ch.fact(fa["01"] == fa["10"])
    for lab, c in kernel_claims(rec, B, sign):
        if isinstance(c, tuple):  # relative residual: (error term, |D-P|^2, |residual|^2)
            e, rr, res2 = c
            sq = [a for a in aux_consts(e) if a.decl().name().startswith("sqrt!")]
            v = "unknown"
            if len(sq) == 2:
                orders = (sq, sq[::-1])
                if z3.is_app(e) and e.decl().kind() == z3.Z3_OP_DIV and any(e.arg(0).eq(a) for a in sq) and any(e.arg(1).eq(a) for a in sq):
                    orders = ((e.arg(0), e.arg(1)),)
                for sa, sb in orders:
                    if all(ch.decide(x, lab + " [%s]" % w, timeout)[0] == "unsat" for w, x in (("quotient of two norms", e * sb == sa), ("denominator is |D-P|", sb * sb == rr), ("numerator is the residual norm", sa * sa == res2))):
                        v = "unsat"
                        break
            mod = None
            if v != "unsat":
                v, mod = ch.decide(e * e * rr == res2, lab, timeout)
            report(lab, v, mod)
            continue
        if "update[" in lab:
            # both sides are linear in the unknowns of the last solve: decide the identity coefficient by coefficient
            # (stronger than needed, and free of the solve constraints); a failure here is only a candidate
            X = [u for u in rec["solves"][-1][3].reshape(-1)]
            verdicts = []
            for pick in [None] + list(range(len(X))):
                pairs = [(u, z3.RealVal(1 if k_ == pick else 0)) for k_, u in enumerate(X)]
                cu = z3.substitute(c, *pairs)
                v, mod = ch.decide(cu, lab + " [coefficient of unknown %s]" % ("-" if pick is None else pick), timeout)
                verdicts.append((v, mod))
                if v != "unsat":
                    break
            if all(v == "unsat" for v, _ in verdicts):
                report(lab, "unsat", None)
                continue
            if verdicts[-1][0] in ("sat", "sat?"):
                report(lab, "sat?", verdicts[-1][1])
                continue
        v, mod = ch.decide(c, lab, timeout)
        report(lab, v, mod)


def kernel_claims(rec, B, sign):
    """list of (label, z3 claim) characterising the published rank-m update for the recorded execution.
    sign = -1: the code returns -sum_q x_q V_q (XL-BOMD: second time derivative); +1: it subtracts sum_q x_q V_q from P."""
    out = []
    m = len(rec["V"])
    r = rec["r"]
    for b in range(B):
        V = [v[b] for v in rec["V"]]
        W = [a[b] - v[b] for a, v in zip(rec["LV"], rec["V"])]  # K0 = 1
        # every linear solve met: Gram matrix and right-hand side of the normal equations of min |sum x_q W_q - (D-P)|
        for n, (kind, A, Bm, X) in enumerate(rec["solves"]):
            k = A.shape[-1]
            for p in range(k):
                for q in range(k):
                    out.append(("mol %d: solve %d (rank %d): matrix entry (%d,%d) = <W%d,W%d>" % (b, n, k, p, q, p, q), A[b, p, q] == frob(W[p], W[q])))
                if Bm is not None:
                    out.append(("mol %d: solve %d (rank %d): right-hand side %d = <W%d, D-P>" % (b, n, k, p, p), Bm[b, p, 0] == frob(W[p], r[b])))
        kind, A, Bm, X = rec["solves"][-1]
        k = A.shape[-1]
        out.append(("mol %d: the final solve uses all %d Krylov vectors" % (b, m), z3.BoolVal(k == m)))
        if kind == "inverse":  # x = A^-1 (W^T (D-P))
            x = [sum(X[b, q, j] * frob(W[j], r[b]) for j in range(k)) for q in range(k)]
        else:
            x = [X[b, q, 0] for q in range(k)]
        for i in range(NB):
            for j in range(NB):
                spec = sum(x[q] * V[q][i, j] for q in range(k))
                out.append(("mol %d: update[%d,%d] = %s sum_q x_q V_q" % (b, i, j, "-" if sign < 0 else "+"), rec["dP2"][b, i, j] == sign * spec))
        if rec.get("Err") is not None and len(rec["solves"]) >= 2:
            kind, A, Bm, X = rec["solves"][-2]
            k = A.shape[-1]
            res = sum(W[q] * X[b, q, 0] for q in range(k)) - r[b]
            e = rec["Err"].reshape(-1)[b]
            out.append(("mol %d: Error^2 |D-P|^2 = |sum x_q W_q - (D-P)|^2 (relative residual of the rank-%d model)" % (b, k), (e, frob(r[b], r[b]), frob(res, res))))
            out.append(("mol %d: Error >= 0" % b, e >= 0))
    return out


def run_ksa(rank, B, thr=0.0, float_env=None):
    """one outer iteration of the real KSA SCF driver scf_forward3 (iteration cap 1) with the same linear-response model;
    the returned density is P - sum_q x_q V_q with P = 0"""
    from seqm.seqm_functions import scf_loop as SL

    rec = {"V": [], "LV": []}
    if float_env is None:
        r, _ = sym_block("r", B)
        Ls, L = lin_map(B)
        wrap = lambda a: SymTensor(a.copy())
        P0 = np.empty((B, NB, NB), dtype=object)
        P0[...] = S.ZERO
        P0 = SymTensor(P0)
    else:
        ev = lambda n: float(float_env.get(n, 0.0))
        r = torch.zeros(B, NB, NB, dtype=torch.float64)
        Lf = torch.zeros(B, 3, 3, dtype=torch.float64)
        for b in range(B):
            x, y, z = (ev("r%d_%s" % (b, c)) for c in "abc")
            r[b, 0, 0], r[b, 0, 1], r[b, 1, 0], r[b, 1, 1] = x, y, y, z
            for i in range(3):
                for j in range(3):
                    Lf[b, i, j] = ev("L%d_%d%d" % (b, i, j))

        def L(X):
            out = torch.zeros_like(X)
            for b in range(X.shape[0]):
                c = torch.stack((X[b, 0, 0], (X[b, 0, 1] + X[b, 1, 0]) / 2, X[b, 1, 1]))
                y = Lf[b] @ c
                out[b, 0, 0], out[b, 0, 1], out[b, 1, 0], out[b, 1, 1] = y[0], y[1], y[1], y[2]
            return out

        wrap = lambda a: a.clone()
        P0 = torch.zeros(B, NB, NB, dtype=torch.float64)

    def fermi(F, T, nocc, nHeavy, nHydro, kB, scf_backward=0):
        one = torch.ones(B, NB, dtype=torch.float64)
        return (wrap(r), torch.zeros(B, dtype=torch.float64), torch.eye(NB, dtype=torch.float64).repeat(B, 1, 1), torch.arange(NB, dtype=torch.float64).repeat(B, 1), 0.5 * one, torch.zeros(B, 1, dtype=torch.float64), one)

    def g(nmol, molsize, dD, *a):
        rec["V"].append(S.to_obj(dD).copy() if float_env is None else dD.clone())
        return dD

    def canon(FO1, *a):
        out = L(FO1)
        rec["LV"].append(out.copy() if float_env is None else out.clone())
        return wrap(out)

    names = ("fock_restricted", "Fermi_Q", "Canon_DM_PRT", "G", "elec_energy", "reshape_Hcore", "MAX_ITER")
    saved = {k: getattr(SL, k) for k in names}
    zF = torch.zeros(B, NB, NB, dtype=torch.float64)
    SL.fock_restricted = lambda *a: zF.clone()
    SL.Fermi_Q, SL.G, SL.Canon_DM_PRT = fermi, g, canon
    SL.elec_energy = lambda P, F, H: torch.zeros(P.shape[0], dtype=torch.float64)
    SL.reshape_Hcore = lambda M, nmol, molsize, method: zF.clone()
    SL.MAX_ITER = 1
    one = torch.ones(B, dtype=torch.int64)
    args = (zF.clone(), None, None, None, None, None, None, None, 0 * one, one, 0 * one, one, B, 1, None, None, None, None, P0, torch.tensor(1e-6, dtype=torch.float64), "AM1", None, None, None, None, None, None, {"max_rank": rank, "err_threshold": thr, "T_el": 1500.0})
    try:
        if float_env is None:
            with symbolic_factories(bool_symbolic=True):
                P, nc = SL.scf_forward3(*args, backward=False, verbose=False)
        else:
            P, nc = SL.scf_forward3(*args, backward=False, verbose=False)
    finally:
        for k, v in saved.items():
            setattr(SL, k, v)
    rec.update(dP2=S.to_obj(P).copy() if float_env is None else P, Err=None, r=r, solves=list(S.ST.solves) if float_env is None else None, side=list(S.ST.side_raw) if float_env is None else None)
    return rec


# ---------------------------------------------------------------------------------------------------------------------
def float_failures(which, rank, B, env, tol=1e-8):
    """replay on the real code in float64: the same execution with concrete r, L; returns the list of claims that fail"""
    rec = (run_xl if which == "xl" else run_ksa)(rank, B, 0.0, float_env=env)
    bad = []
    m = len(rec["V"])
    fr = lambda x, y: float((x * y).sum())
    for b in range(B):
        V = [v[b] for v in rec["V"]]
        W = [a[b] - v[b] for a, v in zip(rec["LV"], rec["V"])]
        r = rec["r"][b]
        for q in range(m):
            off = V[q].clone()
            off[:2, :2] = 0
            if float(off.abs().max()) > tol or abs(float(V[q][0, 1] - V[q][1, 0])) > tol:
                bad.append("mol %d: Krylov vector %d is not a symmetric matrix confined to the molecule's block" % (b, q))
            for p in range(q + 1):
                if abs(fr(V[q], V[p]) - (1.0 if p == q else 0.0)) > tol:
                    bad.append("mol %d: <V%d,V%d> = %.3e" % (b, q, p, fr(V[q], V[p])))
        c0 = fr(V[0], r) / (fr(r, r) ** 0.5)
        if abs(c0 - 1.0) > tol:
            bad.append("mol %d: first Krylov vector is not (D-P)/|D-P| (cosine %.6f)" % (b, c0))
        if m >= 2:
            basis = torch.stack([V[0].reshape(-1), W[0].reshape(-1)], dim=1)
            sol = torch.linalg.lstsq(basis, V[1].reshape(-1, 1)).solution
            if float((basis @ sol - V[1].reshape(-1, 1)).norm()) > tol:
                bad.append("mol %d: second Krylov vector leaves span{V0, W0}" % b)
        Wm = torch.stack([w.reshape(-1) for w in W], dim=1)
        Vm = torch.stack([v.reshape(-1) for v in V], dim=1)
        x = torch.linalg.solve(Wm.T @ Wm, Wm.T @ r.reshape(-1, 1))
        y = (Vm @ x).reshape(NB, NB)
        got = rec["dP2"][b]
        if float((got + y).abs().max()) > tol * max(1.0, float(y.abs().max())):
            bad.append("mol %d: returned update differs from -V (W^T W)^-1 W^T (D-P) by %.3e (rank %d)" % (b, float((got + y).abs().max()), m))
        if rec.get("Err") is not None:
            e_spec = float((Wm @ x - r.reshape(-1, 1)).norm() / r.norm())
            if abs(float(rec["Err"].reshape(-1)[b]) - e_spec) > 1e-7:
                bad.append("mol %d: reported relative residual %.3e, the rank-%d model has %.3e" % (b, float(rec["Err"].reshape(-1)[b]), m, e_spec))
    return bad


REPLAY_ENVS = (
    {"r": (0.3, -0.2, 0.5), "L": ((0.2, 0.1, -0.3), (0.05, -0.4, 0.2), (0.3, 0.2, 0.1))},
    {"r": (-1.0, 0.4, 0.25), "L": ((-0.3, 0.6, 0.1), (0.2, 0.1, -0.5), (-0.1, 0.3, 0.45))},
    {"r": (0.0, 1.0, 0.0), "L": ((0.0, 0.5, 0.0), (0.25, 0.0, -0.25), (0.0, 0.75, 0.5))},
)


def _env_of(spec, B, shift=0):
    env = {}
    for b in range(B):
        s_ = REPLAY_ENVS[(shift + b) % len(REPLAY_ENVS)] if spec is None else spec
        for c, v in zip("abc", s_["r"]):
            env["r%d_%s" % (b, c)] = v
        for i in range(3):
            for j in range(3):
                env["L%d_%d%d" % (b, i, j)] = s_["L"][i][j]
    return env


def replay_kernel(which, rank, B, env=None):
    bad = []
    envs = ([dict(env)] if env else []) + [_env_of(None, B, k) for k in range(len(REPLAY_ENVS))]
    for e in envs:
        try:
            f = float_failures(which, rank, B, e)
        except Exception as ex:  # noqa
            f = ["the real code raised %s: %s" % (type(ex).__name__, str(ex)[:120])]
        if f:
            print("   inputs:", {k: round(v, 6) for k, v in sorted(e.items())})
            for x in f[:6]:
                print("     ", x)
            bad += f
            break
    return bool(bad)


class _Found(Exception):
    pass


def obligation_body(ob, which, configs, timeout):
    """configs: [(rank, B)]"""
    from engine import smt
    from .common import HarnessError, expect_refuted

    from engine.explorer import Explorer

    sign = -1
    prove = lambda c, a, lab, to: smt.prove(c, a, lab, "nra", to, with_side=False)
    for rank, B in configs:
        nz = [z3.Or(*[z3.Real("r%d_%s" % (b, c)) != 0 for c in "abc"]) for b in range(B)]
        ex = Explorer(assumptions=nz, piecewise="ite", kind="nra", max_paths=40, timeout_s=10)
        ex.unknown_as_feasible = True
        res = ex.run(lambda: (run_xl if which == "xl" else run_ksa)(rank, B))
        ob.paths += ex.paths
        ranks_seen = sorted(len(r_["V"]) for _, _, r_ in res)
        ob.require(ranks_seen == list(range(1, rank + 1)), "max_rank %d: expected one execution per rank reached (early exit when the rank-m model is exact), got %s" % (rank, ranks_seen))
        for pc, _, rec in sorted(res, key=lambda t: len(t[2]["V"])):
            m = len(rec["V"])

            def report(lab, v, mod):
                full = "%s max_rank %d, batch %d, rank reached %d: %s" % (which, rank, B, m, lab)
                if v not in ("sat", "sat?"):
                    ob.verdict(v, full)
                    return
                env = {}
                if mod is not None and v == "sat":
                    for b in range(B):
                        for n in ["r%d_%s" % (b, c) for c in "abc"] + ["L%d_%d%d" % (b, i, j) for i in range(3) for j in range(3)]:
                            env[n] = float(smt.model_value(mod, z3.Real(n)))
                    if any(all(env["r%d_%s" % (b, c)] == 0 for c in "abc") for b in range(B)):
                        env = {}
                print("counterexample candidate:", full)
                if replay_kernel(which, rank, B, env or None):
                    ob.violation("%s: %s" % ("EnergyXL.forward (rank-m kernel)" if which == "xl" else "scf_forward3 (Krylov update)", full), {"module": "harness.krylov", "func": "replay_kernel", "args": {"which": which, "rank": rank, "B": B, "env": env or None}})
                    raise _Found()
                if v == "sat?":
                    ob.inconclusive(full + " (refuted only under the generalisation, not reproduced on the real code)")
                    return
                raise HarnessError("kernel counterexample did not reproduce on the real code: %s" % full)

            try:
                decide_kernel(rec, B, sign, nz + list(pc) + list(rec["side"]), prove, report, timeout)
            except _Found:
                return
            if m == 1 and B == 1:
                # reachability twin: the update with the opposite sign must be refuted on the same execution
                lab, c = [x_ for x_ in kernel_claims(rec, B, -sign) if "update[0,0]" in x_[0]][0]
                v, _ = smt.prove(c, nz + list(pc) + list(rec["side"]), "twin: " + lab, "nra", 60, with_side=False)
                if v != "sat":
                    raise HarnessError("sensitivity twin (update with the opposite sign) was not refuted (%s)" % v)
