"""Rank-m Krylov kernel (Niklasson 2020, Alg. 3) as executed by EnergyXL.forward (XL-BOMD, max_rank branch) and by the KSA
SCF driver scf_forward3.  The real code runs on symbolic matrices; the electronic-structure callees are replaced by a
*linear-response model*: the density step returns P + r (r = symbolic residual) and the response step returns L(v) for a
symbolic linear map L on symmetric matrices.  The linear solve / inverse of the small Gram matrix is a fresh unknown
constrained by its defining equations (engine: ST.solves), so every claim below is a polynomial identity that is decided
coefficient-wise in those unknowns."""

import types

import numpy as np
import torch
import z3

from engine import symtorch as S
from engine.symtorch import SymTensor, symbolic_factories

NB = 4  # one atom: 4x4 matrices; the symbolic part lives in the leading 2x2 block


def sym_block(name, B):
    """(B,4,4) object array: symmetric symbolic leading 2x2 block, zero elsewhere; returns array and coordinate list"""
    a = np.empty((B, NB, NB), dtype=object)
    a[...] = S.ZERO
    coords = []
    for b in range(B):
        x, y, z = (z3.Real("%s%d_%s" % (name, b, c)) for c in "abc")
        a[b, 0, 0], a[b, 0, 1], a[b, 1, 0], a[b, 1, 1] = x, y, y, z
        coords.append((x, y, z))
    return a, coords


def lin_map(B):
    """symbolic linear map on symmetric 2x2 blocks, one per molecule: coordinates (X00, (X01+X10)/2, X11)"""
    Ls = []
    for b in range(B):
        Ls.append([[z3.Real("L%d_%d%d" % (b, i, j)) for j in range(3)] for i in range(3)])

    def apply(X):
        x = S.to_obj(X)
        out = np.empty(x.shape, dtype=object)
        out[...] = S.ZERO
        for b in range(x.shape[0]):
            c = (x[b, 0, 0], (x[b, 0, 1] + x[b, 1, 0]) / 2, x[b, 1, 1])
            y = [sum(Ls[b][i][j] * c[j] for j in range(3)) for i in range(3)]
            out[b, 0, 0], out[b, 0, 1], out[b, 1, 0], out[b, 1, 1] = y[0], y[1], y[1], y[2]
        return out

    return Ls, apply


def frob(x, y):
    return sum(x[i, j] * y[i, j] for i in range(NB) for j in range(NB))


class _Params(dict):
    def __missing__(self, k):
        return torch.zeros(1, dtype=torch.float64)


def run_xl(rank, B, thr=0.0, float_env=None):
    """one execution of the real EnergyXL.forward (all_terms=True, Krylov branch).  float_env=None: symbolic (call inside an
    Explorer); otherwise a dict name -> float and everything runs in torch floats (replay)."""
    from seqm.dynamics import xlbomd as XB

    rec = {"V": [], "LV": []}
    if float_env is None:
        P = np.empty((B, NB, NB), dtype=object)
        P[...] = S.ZERO
        r, _ = sym_block("r", B)
        Ls, L = lin_map(B)
        wrap = lambda a: SymTensor(a.copy())
        Pt = torch.zeros(B, NB, NB, dtype=torch.float64)
    else:
        ev = lambda n: float(float_env.get(n, 0.0))
        Pt = torch.zeros(B, NB, NB, dtype=torch.float64)
        r = torch.zeros(B, NB, NB, dtype=torch.float64)
        Lf = torch.zeros(B, 3, 3, dtype=torch.float64)
        for b in range(B):
            x, y, z = (ev("r%d_%s" % (b, c)) for c in "abc")
            r[b, 0, 0], r[b, 0, 1], r[b, 1, 0], r[b, 1, 1] = x, y, y, z
            for i in range(3):
                for j in range(3):
                    Lf[b, i, j] = ev("L%d_%d%d" % (b, i, j))

        def L(X):
            out = torch.zeros_like(X)
            for b in range(X.shape[0]):
                c = torch.stack((X[b, 0, 0], (X[b, 0, 1] + X[b, 1, 0]) / 2, X[b, 1, 1]))
                y = Lf[b] @ c
                out[b, 0, 0], out[b, 0, 1], out[b, 1, 0], out[b, 1, 1] = y[0], y[1], y[1], y[2]
            return out

        wrap = lambda a: a.clone()

    def fermi(F, T, nocc, nHeavy, nHydro, kB, scf_backward=0):
        D = wrap(r)  # P = 0, so D - P = r
        one = torch.ones(B, NB, dtype=torch.float64)
        return (D, torch.zeros(B, dtype=torch.float64), torch.eye(NB, dtype=torch.float64).repeat(B, 1, 1), torch.arange(NB, dtype=torch.float64).repeat(B, 1), 0.5 * one, torch.zeros(B, 1, dtype=torch.float64), one)

    def g(nmol, molsize, dD, *a):
        rec["V"].append(S.to_obj(dD).copy() if float_env is None else dD.clone())
        return dD

    def canon(FO1, *a):
        out = L(FO1)
        rec["LV"].append(out.copy() if float_env is None else out.clone())
        return wrap(out)

    zB = torch.zeros(B, dtype=torch.float64)
    names = ("hcore", "fock", "Fermi_Q", "G", "Canon_DM_PRT", "pair_nuclear_energy", "elec_energy_xl", "calc_ground_dipole", "total_energy", "elec_energy_isolated_atom", "heat_formation")
    saved = {k: getattr(XB, k) for k in names}
    XB.hcore = lambda mol: (torch.zeros(B, 4, 4, dtype=torch.float64), torch.zeros(1, 10, 10, dtype=torch.float64), zB, zB, zB, zB)
    XB.fock = lambda *a: torch.zeros(B, NB, NB, dtype=torch.float64)
    XB.Fermi_Q, XB.G, XB.Canon_DM_PRT = fermi, g, canon
    XB.pair_nuclear_energy = lambda *a, **k: zB
    XB.elec_energy_xl = lambda *a: zB.clone()
    XB.calc_ground_dipole = lambda *a: None
    XB.total_energy = lambda *a: (zB, zB)
    XB.elec_energy_isolated_atom = lambda *a, **k: zB
    XB.heat_formation = lambda *a, **k: (zB, zB)
    try:
        en = XB.EnergyXL.__new__(XB.EnergyXL)
        torch.nn.Module.__init__(en)
        en.seqm_parameters = {"method": "MNDO"}
        en.method = "MNDO"
        en.excited_states = None
        en.Hf_flag = True
        mol = types.SimpleNamespace(method="MNDO", const=types.SimpleNamespace(do_timing=False), species=torch.ones(B, 1, dtype=torch.int64), coordinates=torch.zeros(B, 1, 3, dtype=torch.float64))
        li = torch.zeros(0, dtype=torch.int64)
        en.parser = lambda m, method, *a, **k: (B, 1, torch.zeros(B, dtype=torch.int64), torch.ones(B, dtype=torch.int64), torch.zeros(B, dtype=torch.int64), torch.ones(B, dtype=torch.int64), torch.ones(B, dtype=torch.int64), torch.arange(B), torch.arange(B), li, li, li, li, li, li, torch.zeros(0, 3, dtype=torch.float64), torch.zeros(0, dtype=torch.float64))
        en.packpar = lambda Z, learned_params=None: (_Params(), zB, zB)
        xl = {"max_rank": rank, "err_threshold": thr, "T_el": 1500.0}
        if float_env is None:
            with symbolic_factories(bool_symbolic=True):
                out = en.forward(mol, Pt, None, xl_bomd_params=xl, all_terms=True)
        else:
            out = en.forward(mol, Pt, None, xl_bomd_params=xl, all_terms=True)
    finally:
        for k, v in saved.items():
            setattr(XB, k, v)
    dP2, Err = out[8], out[9]
    rec.update(dP2=S.to_obj(dP2).copy() if float_env is None else dP2, Err=S.to_obj(Err).copy() if float_env is None else Err, r=r, solves=list(S.ST.solves) if float_env is None else None, side=list(S.ST.side_raw) if float_env is None else None)
    return rec


def coords(M):
    return (M[0, 0], (M[0, 1] + M[1, 0]) / 2, M[1, 1])


def det3(a, b, c):
    return a[0] * (b[1] * c[2] - b[2] * c[1]) - a[1] * (b[0] * c[2] - b[2] * c[0]) + a[2] * (b[0] * c[1] - b[1] * c[0])


def aux_consts(t):
    out, todo, seen = [], [t], set()
    while todo:
        x = todo.pop()
        if x.get_id() in seen:
            continue
        seen.add(x.get_id())
        if z3.is_const(x) and x.decl().kind() == z3.Z3_OP_UNINTERPRETED:
            if "!" in x.decl().name():
                out.append(x)
        else:
            todo.extend(x.children())
    return out


class Chain:
    """lemma chaining by generalisation: once a fact about a (large) term is proven, the term is replaced by a fresh variable
    that is only known to satisfy the proven facts; later claims are decided for every value of the fresh variable"""

    def __init__(self, base, prove):
        self.base = list(base)  # path condition + side constraints (original terms)
        self.pairs = []  # (original term, fresh variable or constant)
        self.facts = []  # proven facts restated on the fresh variables
        self.prove = prove

    def sub(self, t):
        return z3.substitute(t, *self.pairs) if self.pairs else t

    @staticmethod
    def _aux(t, memo={}):
        """indices of the auxiliary variables (sqrt!k, lsx!k, inv!k: created in program order) occurring in t"""
        out, todo, seen = set(), [t], set()
        while todo:
            x = todo.pop()
            if x.get_id() in seen:
                continue
            seen.add(x.get_id())
            if z3.is_const(x) and x.decl().kind() == z3.Z3_OP_UNINTERPRETED:
                n = x.decl().name()
                if "!" in n:
                    out.add(int(n.rsplit("!", 1)[1]))
            else:
                todo.extend(x.children())
        return out

    def sliced(self, claim, constraints):
        """the constraints that only speak about auxiliaries created no later than the newest one in the claim (dropping
        assumptions is sound for a proof; a model found this way is not trusted)"""
        ks = self._aux(claim)
        top = max(ks) if ks else -1
        return [c for c in constraints if all(k <= top for k in self._aux(c))]

    def decide(self, claim, label, timeout=60):
        """-> verdict, model; attempts: generalised + sliced, original + sliced, original with every constraint"""
        if self.pairs:
            g = self.sub(claim)
            gb = self.sliced(g, [self.sub(c) for c in self.base]) + self.facts
            v, m = self.prove(g, gb, label + " [generalised]", timeout)
            if v == "unsat":
                return v, None
        v, m = self.prove(claim, self.sliced(claim, self.base), label + " [sliced]", timeout)
        if v == "unsat":
            return v, None
        return self.prove(claim, self.base, label, timeout)

    def hide(self, terms, name):
        """terms: dict key -> z3 term (already decided facts are added by the caller through .fact)"""
        out = {}
        for k, t in terms.items():
            same = [to for (fr, to) in self.pairs if fr.eq(t)]
            if same:
                out[k] = same[0]
                continue
            ts = z3.simplify(self.sub(t))
            if z3.is_rational_value(ts):
                out[k] = ts
                if not z3.is_rational_value(t):
                    self.pairs.append((t, ts))
                continue
            f = z3.Real("%s_%s" % (name, k))
            self.pairs.append((t, f))
            out[k] = f
        return out

    def fact(self, c):
        self.facts.append(c)


BLOCK = ((0, 0), (0, 1), (1, 0), (1, 1))


def decide_kernel(rec, B, sign, base, prove, report, timeout=60):
    """decide the claims that characterise the published rank-m update on one explored execution.
    report(label, verdict, model) is called once per claim."""
    m = len(rec["V"])
    r = rec["r"]
    # no breakdown: every normalisation divides by a non-zero norm (D != P, and each new direction has a component
    # orthogonal to the earlier ones); 0/0 is NaN in the code and an unspecified value in the solver
    norms = {}
    for q in range(m):
        for b in range(B):
            for t in rec["V"][q][b].reshape(-1):
                for a in aux_consts(t):
                    if a.decl().name().startswith("sqrt!"):
                        norms[a.decl().name()] = a
    ch = Chain(list(base) + [a > 0 for a in norms.values()], prove)
    Vh = {}
    for q in range(m):
        for b in range(B):
            V = rec["V"][q][b]
            pre = "Krylov vector %d, molecule %d: " % (q, b)
            ok = True

            def dec(claim, what):
                v, mod = ch.decide(claim, pre + what, timeout)
                report(pre + what, v, mod)
                return v == "unsat"

            for i in range(NB):
                for j in range(NB):
                    if (i, j) not in BLOCK:
                        ok &= dec(V[i, j] == 0, "entry (%d,%d) outside the molecule's block is zero" % (i, j))
            ok &= dec(V[0, 1] == V[1, 0], "symmetric")
            ok &= dec(frob(V, V) == 1, "unit Frobenius norm")
            for p_ in range(q):
                ok &= dec(frob(V, rec["V"][p_][b]) == 0, "orthogonal to Krylov vector %d" % p_)
            if q == 0:
                c0, cr = coords(V), coords(r[b])
                for i, j in ((0, 1), (0, 2), (1, 2)):
                    dec(c0[i] * cr[j] - c0[j] * cr[i] == 0, "parallel to the residual D - P (minor %d%d)" % (i, j))
                dec(frob(V, r[b]) >= 0, "points along +(D - P)")
            if q == 1:
                W0 = rec["LV"][0][b] - rec["V"][0][b]
                dec(det3(coords(V), coords(rec["V"][0][b]), coords(W0)) == 0, "lies in span{V0, W0} with W0 = K0 (response(V0) - V0)")
            if not ok:
                continue  # nothing proven about this vector: it stays as it is
            f = ch.hide({"%d%d" % (i, j): V[i, j] for i in range(NB) for j in range(NB)}, "v%d_%d" % (q, b))
            Vh[(q, b)] = f
            for i in range(NB):
                for j in range(NB):
                    if (i, j) not in BLOCK and not z3.is_rational_value(f["%d%d" % (i, j)]):
                        ch.fact(f["%d%d" % (i, j)] == 0)
            ch.fact(f["01"] == f["10"])
            g = lambda x, y: sum(x["%d%d" % (i, j)] * y["%d%d" % (i, j)] for i in range(NB) for j in range(NB))
            ch.fact(g(f, f) == 1)
            for p_ in range(q):
                if (p_, b) in Vh:
                    ch.fact(g(f, Vh[(p_, b)]) == 0)
    for lab, c in kernel_claims(rec, B, sign):
        v, mod = ch.decide(c, lab, timeout)
        report(lab, v, mod)


def kernel_claims(rec, B, sign):
    """list of (label, z3 claim) characterising the published rank-m update for the recorded execution.
    sign = -1: the code returns -sum_q x_q V_q (XL-BOMD: second time derivative); +1: it subtracts sum_q x_q V_q from P."""
    out = []
    m = len(rec["V"])
    r = rec["r"]
    for b in range(B):
        V = [v[b] for v in rec["V"]]
        W = [a[b] - v[b] for a, v in zip(rec["LV"], rec["V"])]  # K0 = 1
        # every linear solve met: Gram matrix and right-hand side of the normal equations of min |sum x_q W_q - (D-P)|
        for n, (kind, A, Bm, X) in enumerate(rec["solves"]):
            k = A.shape[-1]
            for p in range(k):
                for q in range(k):
                    out.append(("mol %d: solve %d (rank %d): matrix entry (%d,%d) = <W%d,W%d>" % (b, n, k, p, q, p, q), A[b, p, q] == frob(W[p], W[q])))
                if Bm is not None:
                    out.append(("mol %d: solve %d (rank %d): right-hand side %d = <W%d, D-P>" % (b, n, k, p, p), Bm[b, p, 0] == frob(W[p], r[b])))
        kind, A, Bm, X = rec["solves"][-1]
        k = A.shape[-1]
        out.append(("mol %d: the final solve uses all %d Krylov vectors" % (b, m), z3.BoolVal(k == m)))
        x = [X[b, q, 0] for q in range(k)]
        for i in range(NB):
            for j in range(NB):
                spec = sum(x[q] * V[q][i, j] for q in range(k))
                out.append(("mol %d: update[%d,%d] = %s sum_q x_q V_q" % (b, i, j, "-" if sign < 0 else "+"), rec["dP2"][b, i, j] == sign * spec))
        if rec.get("Err") is not None and len(rec["solves"]) >= 2:
            kind, A, Bm, X = rec["solves"][-2]
            k = A.shape[-1]
            res = sum(W[q] * X[b, q, 0] for q in range(k)) - r[b]
            e = rec["Err"].reshape(-1)[b]
            out.append(("mol %d: Error^2 |D-P|^2 = |sum x_q W_q - (D-P)|^2 (relative residual of the rank-%d model)" % (b, k), e * e * frob(r[b], r[b]) == frob(res, res)))
            out.append(("mol %d: Error >= 0" % b, e >= 0))
    return out
