"""C13 — initial conditions, centre-of-mass handling, seeding (engine E1 + CrossHair for the seed logic)."""
from fractions import Fraction

from .common import *  # noqa: F401,F403
from .common import S, smt, z3, np, torch, SymTensor, symbolic_factories, Explorer, obligation, HarnessError, expect_refuted, expect_feasible
from . import mdsym
from engine import chrun

PID = "C13"
FINDING_USERV = "C13-user-velocities-projected"

GEOM = {
    # non-centred, non-collinear water-like geometry + a diatomic with a padding slot holding junk coordinates
    "padded": ([[8, 1, 1], [1, 1, 0]], [[[0.5, 0.25, 0.0], [1.5, 0.25, 0.125], [0.25, 1.25, -0.25]], [[2.0, 1.0, 0.5], [2.75, 1.0, 0.5], [7.0, -3.0, 1.0]]]),
    "single": ([[8, 1, 1]], [[[0.5, 0.25, 0.0], [1.5, 0.25, 0.125], [0.25, 1.25, -0.25]]]),
    "shifted": ([[8, 6, 1, 1], [8, 1, 1, 0]], [[[10.0, -4.0, 2.0], [11.25, -4.0, 2.0], [9.5, -3.0, 2.5], [9.5, -5.0, 1.75]], [[-3.0, 0.5, 0.25], [-2.0, 0.5, 0.25], [-3.25, 1.5, 0.0], [0.0, 0.0, 0.0]]]),
}


def _pinv_stub():
    """exact Moore-Penrose pseudo-inverse of a *concrete rational* inertia tensor (contract of torch.linalg.pinv)"""
    import sympy as sp
    import engine.symtorch as ST_

    def pinv(I, hermitian=False, atol=None, rtol=None, **k):
        a = I.a if isinstance(I, SymTensor) else S.to_obj(I)
        out = np.empty(a.shape, dtype=object)
        for b in range(a.shape[0]):
            M = sp.Matrix(3, 3, lambda i, j: sp.Rational(*_frac(a[b, i, j])))
            P = M.pinv()
            for i in range(3):
                for j in range(3):
                    out[b, i, j] = z3.RealVal(Fraction(int(P[i, j].p), int(P[i, j].q)))
        return SymTensor(out)

    def _frac(e):
        e = z3.simplify(S.val(e))
        if not z3.is_rational_value(e):
            raise HarnessError("pinv stub: inertia tensor is not concrete")
        return e.numerator_as_long(), e.denominator_as_long()

    ST_.HANDLERS[torch.linalg.pinv] = pinv


def _mol(key, sym_v=True):
    species, coords = GEOM[key]
    mol, real, _ = mdsym.sym_molecule(species, concrete_coords=coords, sym_mass=False)
    return mol, real


def _momenta(mol, real, x, v):
    """per molecule: sum m v (3), L about the centre of mass (3), Ek"""
    out = []
    m = mol.mass.a
    nmol, molsize = real.shape
    for b in range(nmol):
        atoms = [a for a in range(molsize) if real[b, a]]
        M = sum(m[b, a, 0] for a in atoms)
        com = [sum(m[b, a, 0] * x[b, a, c] for a in atoms) / M for c in range(3)]
        P = [sum(m[b, a, 0] * v[b, a, c] for a in atoms) for c in range(3)]
        r = {a: [x[b, a, c] - com[c] for c in range(3)] for a in atoms}
        cr = lambda p, q: [p[1] * q[2] - p[2] * q[1], p[2] * q[0] - p[0] * q[2], p[0] * q[1] - p[1] * q[0]]
        L = [sum(m[b, a, 0] * cr(r[a], [v[b, a, c] for c in range(3)])[k] for a in atoms) for k in range(3)]
        Ek = sum(m[b, a, 0] * v[b, a, c] * v[b, a, c] for a in atoms for c in range(3)) / 2
        out.append((P, L, Ek))
    return out


def replay_zero_com(key="padded", angular=True):
    """float64 real _zero_com on a real padded Molecule-like object with random velocities"""
    import seqm.MolecularDynamics as MD
    from seqm.seqm_functions.constants import Constants
    import types as _t

    class FF(torch.nn.Module):
        def __init__(s, *a, **k):
            super().__init__()

    MD.esdriver = FF
    md = MD.Molecular_Dynamics_Basic(seqm_parameters={"method": "AM1"}, timestep=0.5, Temp=300.0, output={"molid": [0], "prefix": "x", "h5": {}})
    species, coords = GEOM[key]
    sp = torch.tensor(species)
    const = Constants()
    mass = const.mass[sp].unsqueeze(2)
    g = torch.Generator().manual_seed(3)
    v = (torch.rand(sp.shape[0], sp.shape[1], 3, generator=g) - 0.5) * 0.02 * (sp > 0).unsqueeze(-1)
    mol = _t.SimpleNamespace(mass=mass, coordinates=torch.tensor(coords), velocities=v.clone())
    ek0 = md._kinetic_energy(mol)
    md._zero_com(mol, remove_angular=angular)
    real = sp > 0
    res = {}
    worstP = worstL = worstE = worstPad = 0.0
    for b in range(sp.shape[0]):
        at = real[b]
        m = mass[b, at, 0]
        x, vv = mol.coordinates[b, at], mol.velocities[b, at]
        com = (m[:, None] * x).sum(0) / m.sum()
        P = (m[:, None] * vv).sum(0)
        L = (m[:, None] * torch.linalg.cross(x - com, vv)).sum(0)
        worstP = max(worstP, P.abs().max().item())
        worstL = max(worstL, L.abs().max().item() if angular else 0.0)
        worstPad = max(worstPad, mol.velocities[b, ~at].abs().max().item() if (~at).any() else 0.0)
    worstE = (md._kinetic_energy(mol) - ek0).abs().max().item()
    print("replay _zero_com(%s, angular=%s): |P|=%.3e |L|=%.3e |dEk|=%.3e |v_padding|=%.3e" % (key, angular, worstP, worstL, worstE, worstPad))
    return {"P": worstP > 1e-12, "L": worstL > 1e-12, "Ek": worstE > 1e-12, "pad": worstPad > 0}


@obligation(PID, "a", title="_zero_com: afterwards sum m v = 0, angular momentum about the COM = 0 (where requested), kinetic energy preserved, padding atoms at rest — for all velocity fields, COM off the origin, padded batch incl. a linear molecule")
def ob_a(ob):
    import seqm.MolecularDynamics as MD

    ob.encodes(MD.Molecular_Dynamics_Basic._zero_com, MD.Molecular_Dynamics_Basic._kinetic_energy)
    ob.bound("concrete rational geometries (water-like, centre of mass off the origin; batch with a diatomic and a padding slot holding junk coordinates), table masses; all velocity components symbolic reals with padding velocities 0; paths with non-vanishing kinetic energy")
    ob.assume("torch.linalg.pinv replaced by the exact rational Moore-Penrose inverse of the (concrete) inertia tensor; sqrt as auxiliary variable")
    _pinv_stub()
    for key in (("padded",) if ob.tier == "quick" else ("padded", "single", "shifted")):
        for angular in (True, False):
            species, coords = GEOM[key]
            S.reset()
            md = mdsym.make_md("Molecular_Dynamics_Basic")
            mol, real = _mol(key)
            nmol, molsize = real.shape
            v0 = mol.velocities.a
            for b in range(nmol):
                for a in range(molsize):
                    if not real[b, a]:
                        v0[b, a, :] = z3.RealVal(0)
            v0 = v0.copy()
            x0 = mol.coordinates.a.copy()

            def fn():
                mol.velocities = SymTensor(v0.copy())
                mol.coordinates = SymTensor(x0.copy())
                try:
                    with symbolic_factories():
                        md._zero_com(mol, remove_angular=angular)
                except RuntimeError as e:
                    # the guard raises on the zero-kinetic-energy path: expected control flow of the code under test
                    if "Zero kinetic energy" not in str(e):
                        raise
                    return None
                return mol.velocities.a.copy()

            ex = Explorer(assumptions=[], piecewise="ite", kind="nra", max_paths=50)
            res = ex.run(fn, reset=False)
            ob.paths += ex.paths
            before = _momenta(mol, real, x0, v0)
            good = [(pc, side, v1) for pc, side, v1 in res if v1 is not None]
            ob.require(len(good) >= 1, "no completed path through _zero_com")
            for pc, side, v1 in good:
                S.ST.side[:] = side
                after = _momenta(mol, real, x0, v1)
                base = list(pc)
                for b in range(nmol):
                    (P0, L0, E0), (P1, L1, E1) = before[b], after[b]
                    claims = [("linear momentum comp %d" % c, P1[c] == 0, "P") for c in range(3)]
                    if angular:
                        claims += [("angular momentum comp %d" % c, L1[c] == 0, "L") for c in range(3)]
                    claims.append(("kinetic energy preserved", E1 == E0, "Ek"))
                    for a in range(molsize):
                        if not real[b, a]:
                            claims += [("padding atom %d at rest comp %d" % (a, c), v1[b, a, c] == 0, "pad") for c in range(3)]
                    for name, c, kind in claims:
                        lab = "a:%s angular=%s mol %d: %s" % (key, angular, b, name)
                        v, m = smt.prove(c, base, lab, "nra", 90)
                        if v == "sat":
                            if replay_zero_com(key, angular)[kind]:
                                ob.violation("_zero_com(remove_angular=%s): '%s' fails for molecule %d of the batch '%s'" % (angular, name, b, key), {"module": "harness.C13", "func": "replay_zero_com_kind", "args": {"key": key, "angular": angular, "kind": kind}})
                            else:
                                raise HarnessError("_zero_com counterexample did not reproduce: %s" % lab)
                            break  # one replayed violation per molecule and mode is enough (the remaining queries get slow on broken code)
                        else:
                            ob.verdict(v, lab)
            ob.sample({"angular": angular, "paths": ex.paths})


def replay_zero_com_kind(key, angular, kind):
    return replay_zero_com(key, angular)[kind]


def replay_fresh_temperature(Temp=300.0):
    import seqm.MolecularDynamics as MD
    from seqm.seqm_functions.constants import Constants
    import types as _t

    class FF(torch.nn.Module):
        def __init__(s, *a, **k):
            super().__init__()

    MD.esdriver = FF
    md = MD.Molecular_Dynamics_Basic(seqm_parameters={"method": "AM1"}, timestep=0.5, Temp=Temp, output={"molid": [0], "prefix": "x", "h5": {}})
    species, coords = GEOM["padded"]
    sp = torch.tensor(species)
    const = Constants()
    mass = const.mass[sp].unsqueeze(2)
    mi = torch.zeros_like(mass)
    mi[sp > 0] = 1 / mass[sp > 0]
    mol = _t.SimpleNamespace(mass=mass, mass_inverse=mi, coordinates=torch.tensor(coords), velocities=None, num_atoms=(sp > 0).sum(1).double(), molsize=sp.shape[1], nmol=sp.shape[0], species=sp)
    md.set_dof(mol, 0.0)
    torch.manual_seed(4)
    md.initialize_velocity(mol)
    T = md._calc_temperature(md._kinetic_energy(mol))
    pad = mol.velocities[~(sp > 0)].abs().max().item()
    print("replay fresh velocities: T=%s (target %g), max |v_padding| = %.3e" % (T.tolist(), Temp, pad))
    return {"T": (T - Temp).abs().max().item() > 1e-9, "pad": pad > 0}


def replay_fresh_kind(kind):
    return replay_fresh_temperature()[kind]


@obligation(PID, "b", title="fresh velocities: after the Maxwell-Boltzmann draw, rescale and COM removal the kinetic temperature equals the target exactly under the n_dof in force and padding atoms are at rest — for every random draw")
def ob_b(ob):
    import seqm.MolecularDynamics as MD
    import engine.symtorch as ST_

    ob.encodes(MD.Molecular_Dynamics_Basic.initialize_velocity, MD.Molecular_Dynamics_Basic._zero_com, MD.Molecular_Dynamics_Basic._calc_temperature)
    ob.bound("single water-like molecule (T claim, asserted on the velocities handed to _zero_com, whose kinetic-energy preservation is obligation a) and the padded batch (padding claim); target temperature 300 K concrete, n_dof = 3N; random numbers free symbolic reals (every draw)")
    ob.assume("randn_like -> free symbols; pinv -> exact rational pseudo-inverse; sqrt -> auxiliary variables")
    _pinv_stub()
    for key, what in (("single", "T"), ("padded", "pad")):
        S.reset()
        species, coords = GEOM[key]
        md = mdsym.make_md("Molecular_Dynamics_Basic", Temp=300.0)
        mol, real = _mol(key)
        nmol, molsize = real.shape
        md.n_dof = 3.0 * mol.num_atoms
        xi = S.reals("xi", (nmol, molsize, 3))
        saved = ST_.HANDLERS[torch.randn_like]
        ST_.HANDLERS[torch.randn_like] = lambda x, **k: SymTensor(xi.copy())
        x0 = mol.coordinates.a.copy()

        captured = {}

        def fn():
            mol.velocities = None
            mol.coordinates = SymTensor(x0.copy())
            if what == "T":
                # cut: record the velocities handed to _zero_com (which preserves the kinetic energy: obligation a)
                md._zero_com = lambda molecule, **k: captured.__setitem__("v", molecule.velocities.a.copy())
            try:
                with symbolic_factories():
                    md.initialize_velocity(mol)
            except RuntimeError as e:
                if "Zero kinetic energy" not in str(e):
                    raise
                return None
            finally:
                md.__dict__.pop("_zero_com", None)
            return captured["v"] if what == "T" else mol.velocities.a.copy()

        try:
            ex = Explorer(assumptions=[], piecewise="ite", kind="nra", max_paths=50)
            res = [r for r in ex.run(fn, reset=False) if r[2] is not None]
        finally:
            ST_.HANDLERS[torch.randn_like] = saved
        ob.paths += ex.paths
        ob.require(len(res) >= 1, "no completed path through initialize_velocity")
        KES, TS = S.rv(MD.CONSTANTS.KINETIC_ENERGY_SCALE), S.rv(MD.CONSTANTS.TEMPERATURE_SCALE)
        for pc, side, v1 in res:
            S.ST.side[:] = side
            for b in range(nmol):
                atoms = [a for a in range(molsize) if real[b, a]]
                if what == "T":
                    ek = sum(mol.mass.a[b, a, 0] * v1[b, a, c] * v1[b, a, c] for a in atoms for c in range(3)) / 2 * KES
                    T = ek * TS / (Fraction(1, 2) * 3 * len(atoms))
                    lab = "b:T = target (mol %d)" % b
                    nonzero = z3.Or(*[xi[b, a, c] != 0 for a in atoms for c in range(3)])  # a draw of all zeros has no temperature to rescale
                    v, m = smt.prove(T == 300, list(pc) + [nonzero], lab, "nra", 120)
                    if v == "sat":
                        if replay_fresh_temperature()["T"]:
                            ob.violation("freshly drawn velocities do not realise the requested temperature exactly", {"module": "harness.C13", "func": "replay_fresh_kind", "args": {"kind": "T"}})
                        else:
                            raise HarnessError("fresh-temperature counterexample did not reproduce")
                    else:
                        ob.verdict(v, lab)
                else:
                    for a in range(molsize):
                        if not real[b, a]:
                            for c in range(3):
                                lab = "b:padding atom at rest after fresh initialisation (mol %d comp %d)" % (b, c)
                                v, m = smt.prove(v1[b, a, c] == 0, list(pc), lab, "nra", 120)
                                if v == "sat":
                                    if replay_fresh_temperature()["pad"]:
                                        ob.violation("padding atom acquires a velocity during fresh velocity initialisation", {"module": "harness.C13", "func": "replay_fresh_kind", "args": {"kind": "pad"}})
                                    else:
                                        raise HarnessError("padding counterexample did not reproduce")
                                    return
                                ob.verdict(v, lab)


def replay_user_velocities():
    """public API (real initialize with a stub electronic-structure driver): user-supplied velocities vs the velocities the first step starts from"""
    import seqm.MolecularDynamics as MD
    from seqm.seqm_functions.constants import Constants
    import types as _t

    class FF(torch.nn.Module):
        def __init__(s, *a, **k):
            super().__init__()
            s.conservative_force = _t.SimpleNamespace(energy=_t.SimpleNamespace(md=False))
            s.device = torch.device("cpu")

        def forward(s, molecule, *a, **k):
            molecule.force = torch.zeros_like(molecule.coordinates)

    MD.esdriver = FF
    md = MD.Molecular_Dynamics_Basic(seqm_parameters={"method": "AM1"}, timestep=0.5, Temp=300.0, output={"molid": [0], "prefix": "x", "print every": 0, "h5": {}})
    sp = torch.tensor([[1, 1]])
    const = Constants()
    mass = const.mass[sp].unsqueeze(2)
    user = torch.tensor([[[0.01, 0.0, 0.0], [-0.005, 0.002, 0.0]]])
    mol = _t.SimpleNamespace(mass=mass, mass_inverse=1 / mass, coordinates=torch.tensor([[[0.0, 0, 0], [0.74, 0, 0]]]), velocities=user.clone(), num_atoms=torch.tensor([2.0]), molsize=2, nmol=1, force=None, dm=None, cis_amplitudes=None, verbose=True, species=sp)
    md.initialize(mol)
    d = (mol.velocities - user).abs().max().item()
    print("replay user velocities: supplied %s, after initialize %s" % (user.tolist(), mol.velocities.tolist()))
    return d > 1e-15


@obligation(PID, "c", title="velocities supplied by the user are the velocities the first step starts from")
def ob_c(ob):
    import seqm.MolecularDynamics as MD

    ob.encodes(MD.Molecular_Dynamics_Basic.initialize_velocity, MD.Molecular_Dynamics_Basic.initialize)
    ob.bound("water-like molecule, all 9 user velocity components symbolic reals")
    _pinv_stub()
    known = ob.is_known(FINDING_USERV)
    S.reset()
    md = mdsym.make_md("Molecular_Dynamics_Basic", Temp=300.0)
    mol, real = _mol("single")
    md.n_dof = 3.0 * mol.num_atoms
    v0 = mol.velocities.a.copy()
    x0 = mol.coordinates.a.copy()

    def fn():
        mol.velocities = SymTensor(v0.copy())
        mol.coordinates = SymTensor(x0.copy())
        try:
            with symbolic_factories():
                md.initialize_velocity(mol)
        except RuntimeError as e:
            if "Zero kinetic energy" not in str(e):
                raise
            return None
        return mol.velocities.a.copy()

    ex = Explorer(assumptions=[], piecewise="ite", kind="nra", max_paths=50)
    res = [r for r in ex.run(fn, reset=False) if r[2] is not None]
    ob.paths += ex.paths
    changed = False
    for pc, side, v1 in res:
        S.ST.side[:] = side
        for k in np.ndindex(v0.shape):
            v, m = smt.prove(v1[k] == v0[k], list(pc), "c:user velocity %s unchanged" % list(k), "nra", 60)
            if v == "sat":
                changed = True
                break
            ob.verdict(v, "c:user velocity unchanged")
        if changed:
            break
    if changed:
        if not replay_user_velocities():
            raise HarnessError("user-velocity counterexample did not reproduce")
        if known:
            ob.known_finding(FINDING_USERV, "user-supplied velocities are projected (centre-of-mass translation and rotation removed, not rescaled) before the first step although the manual says they are used directly; an all-zero or purely rigid-body field raises 'Zero kinetic energy'")
        else:
            ob.violation("user-supplied velocities are modified by initialize() before the first step", {"module": "harness.C13", "func": "replay_user_velocities", "args": {}})


def replay_seed(seed, preset):
    """real run() prologue with recording torch facade: the first RNG-relevant event must be manual_seed(seed)"""
    from . import seedsim

    ev = seedsim.events(int(seed), bool(preset))
    print("replay seed=%d preset_velocities=%s: RNG events %s" % (seed, preset, ev[:3]))
    return not (len(ev) >= 1 and ev[0] == ("seed", int(seed)))


@obligation(PID, "d", title="run(seed=s) seeds the generator with s before anything else consumes random numbers, whether or not velocities are preset (so the trajectory depends on s only, not on earlier draws)")
def ob_d(ob):
    import seqm.MolecularDynamics as MD

    ob.encodes(MD.Molecular_Dynamics_Basic.run)
    ob.bound("seed symbolic int in [-2^31, 2^31), preset-velocity flag symbolic bool, engine in {Basic, Langevin}; CrossHair explores run() up to the first integrator step")
    ob.assume("torch inside MolecularDynamics replaced by a recording facade (manual_seed, randn_like and initialize are logged); electronic-structure driver stubbed")
    slices = []
    for eng in ("basic", "langevin"):
        pre = "from harness import seedsim\nseedsim.warm()\n"
        body = "ev = seedsim.events(seed, preset, %r)\nreturn len(ev) >= 1 and ev[0] == ('seed', seed)" % eng
        sl = chrun.Slice("seed_" + eng, pre, "seed: int, preset: bool", "-2147483648 <= seed < 2147483648", body, "_", 200)
        slices.append(sl)
    tw = chrun.Slice("twin_seed", "from harness import seedsim\nseedsim.warm()\n", "seed: int, preset: bool", "0 <= seed < 10", "ev = seedsim.events(seed, preset, 'basic')\nreturn len(ev) >= 1 and ev[0] == ('seed', seed)", "not _", 200)
    res = chrun.run_slices(slices + [tw], jobs=3)
    for sl, r in zip(slices + [tw], res):
        ob.paths += 1
        ob.ch_conditions += 1
        ob.ch_definite += r["verdict"] in ("confirmed", "counterexample")
        ob.sample({"slice": sl.name, "verdict": r["verdict"], "seconds": r["seconds"], "call": r.get("call")})
        if sl.name == "twin_seed":
            ob.require(r["verdict"] == "counterexample", "vacuity twin not refuted: %s" % r["raw"][-300:])
            continue
        if r["verdict"] == "confirmed":
            ob.discharged(sl.name)
        elif r["verdict"] == "counterexample":
            vals = chrun.parse_int_args(r["args"])
            if replay_seed(vals[0], vals[1]):
                ob.violation("run(seed=%d) with %s velocities does not seed the generator first: the trajectory depends on earlier random draws" % (vals[0], "preset" if vals[1] else "fresh"), {"module": "harness.C13", "func": "replay_seed", "args": {"seed": vals[0], "preset": vals[1]}})
            else:
                raise HarnessError("seed counterexample did not reproduce: %s" % r.get("call"))
        elif r["verdict"] == "inconclusive":
            ob.inconclusive(sl.name)
        else:
            raise HarnessError("crosshair failed: %s" % r["raw"][-800:])


def replay_num_atoms():
    """public API: Molecule(...).num_atoms for the batch H2S / OH- (padded), under AM1-type and PM6 parsing"""
    from seqm.Molecule import Molecule
    from seqm.seqm_functions.constants import Constants
    from .common import quiet

    bad = False
    sp = torch.tensor([[16, 1, 1], [8, 1, 0]])
    xyz = torch.tensor([[[0.0, 0, 0], [1.3, 0.1, 0], [-0.3, 1.3, 0]], [[0.0, 0, 0], [0.96, 0, 0], [0.0, 0, 0]]])
    for method in ("AM1", "PM6"):
        try:
            with quiet():
                m = Molecule(Constants(), {"method": method, "scf_eps": 1e-6, "scf_converger": [1]}, xyz.clone(), sp, charges=torch.tensor([0, -1]))
        except Exception as ex:  # noqa
            print("replay num_atoms (%s): Molecule raised %s: %s" % (method, type(ex).__name__, str(ex)[:120]))
            continue
        got = [float(x) for x in m.num_atoms]
        print("replay num_atoms (%s): %s, real atoms per row [3.0, 2.0]" % (method, got))
        bad |= got != [3.0, 2.0]
    return bad


@obligation(PID, "e", title="the atom count behind the degrees of freedom (Molecule.num_atoms) is the number of non-padding atoms of each batch row, however the Parser files them (hydrogen / heavy / d-orbital 'super-heavy'), and padding atoms get zero inverse mass")
def ob_e(ob):
    import importlib

    MM = importlib.import_module("seqm.Molecule")  # `import seqm.Molecule as MM` yields the class re-exported by the package
    from seqm.seqm_functions.constants import Constants

    ob.encodes(MM.Molecule.__init__)
    ob.bound("padded batch [[S,H,H],[O,H,pad]]; the Parser's three per-molecule counts symbolic integers constrained only by their sum (every way of filing the atoms, incl. d-orbital elements counted as super-heavy under PM6); methods AM1 and PM6")
    ob.assume("Parser and Pack_Parameters are recorders (their own bookkeeping is C05.a / C18.b)")
    species = torch.tensor([[16, 1, 1], [8, 1, 0]])
    xyz = torch.zeros(2, 3, 3, dtype=torch.float64)
    real = [3, 2]
    sh = [z3.Int("nSH_%d" % b) for b in range(2)]
    hv = [z3.Int("nHv_%d" % b) for b in range(2)]
    hy = [z3.Int("nHy_%d" % b) for b in range(2)]
    assm = []
    for b in range(2):
        assm += [sh[b] >= 0, hv[b] >= 0, hy[b] >= 0, sh[b] + hv[b] + hy[b] == real[b]]
    saved = (MM.Parser, MM.Pack_Parameters)

    class _Parser:
        def __init__(self, *a, **k):
            pass

        def __call__(self, mol, method, *a, **k):
            Z = torch.tensor([16, 1, 1, 8, 1])
            d = torch.zeros(1, dtype=torch.long)
            return (2, 3, SymTensor(np.array(sh, dtype=object)), SymTensor(np.array(hv, dtype=object)), SymTensor(np.array(hy, dtype=object)), torch.tensor([4, 4]), Z, d, d, d, d, d, d, d, d, d, torch.zeros(1, 3), torch.zeros(1))

    class _Pack:
        def __init__(self, *a, **k):
            pass

        def to(self, *a, **k):
            return self

        def __call__(self, Z, learned_params=None):
            t = torch.ones(5, dtype=torch.float64)
            return ({k: t.clone() for k in ("beta_s", "beta_p", "beta_d", "zeta_s", "U_ss")}, None, None)

    MM.Parser, MM.Pack_Parameters = _Parser, _Pack
    try:
        for method in ("AM1", "PM6"):
            with symbolic_factories():
                m = MM.Molecule(Constants(), {"method": method, "elements": [0, 1, 8, 16]}, xyz.clone(), species)
            na = m.num_atoms
            for b in range(2):
                e = na.a.reshape(-1)[b] if isinstance(na, SymTensor) else S.rv(float(na.reshape(-1)[b]))
                lab = "e:%s num_atoms of row %d" % (method, b)
                v, mdl = smt.prove(e == real[b], assm, lab, "auto", 20)
                if v == "sat":
                    MM.Parser, MM.Pack_Parameters = saved  # the replay uses the unstubbed classes
                    if replay_num_atoms():
                        ob.violation("Molecule.num_atoms of batch row %d is derived from the Parser's heavy/hydrogen counts (%s): atoms filed as d-orbital 'super-heavy' under PM6 are not counted, so n_dof and every temperature are wrong for such molecules" % (b, z3.simplify(e)), {"module": "harness.C13", "func": "replay_num_atoms", "args": {}})
                        return
                    raise HarnessError("num_atoms counterexample did not reproduce (%s)" % lab)
                ob.verdict(v, lab)
            mi = m.mass_inverse
            mi = mi.a if isinstance(mi, SymTensor) else S.to_obj(mi)
            v, mdl = smt.prove(z3.And(mi[1, 2, 0] == 0, mi[0, 0, 0] > 0, mi[1, 1, 0] > 0), assm, "e:%s inverse masses" % method, "auto", 20)
            ob.verdict(v, "e:%s padding atom has zero inverse mass, real atoms a positive one" % method)
    finally:
        MM.Parser, MM.Pack_Parameters = saved
    x = z3.Int("x")
    expect_refuted(ob, 3 - x == 3, [x >= 0, x <= 3], "twin: a count that leaves out x atoms is noticed", "auto")
