"""C15 — results depend only on the call's inputs, not on process history (engine E1 symbolic tags, partial)."""
import types

from .common import *  # noqa: F401,F403
from .common import S, smt, z3, np, torch, SymTensor, symbolic_factories, Explorer, obligation, HarnessError, expect_refuted, molecule, quiet
from . import scfbw

PID = "C15"


def replay_backward_history():
    """public API: gradient of the gap w.r.t. coordinates for an AM1 job with scf_backward=1, computed (i) alone and
    (ii) with another job (different SCF threshold) run between its forward and its backward"""
    from seqm.ElectronicStructure import Electronic_Structure
    from seqm.Molecule import Molecule
    from seqm.seqm_functions.constants import Constants

    const = Constants()
    sp = torch.tensor([[8, 1, 1]])
    xyz = torch.tensor([[[0.0, 0, 0], [0.96, 0.1, 0], [-0.24, 0.93, 0.2]]])

    from seqm.basics import Energy

    def job(eps, interleave):
        p = {"method": "AM1", "scf_eps": eps, "scf_converger": [1], "scf_backward": 1}
        with quiet():
            m = Molecule(const, p, xyz.clone(), sp)
            m.verbose = False
            out = Energy(p)(m, all_terms=True)
            loss = out[6].sum()  # HOMO-LUMO gap: depends on the converged density
            if interleave:
                p2 = {"method": "AM1", "scf_eps": 1e-2, "scf_converger": [1], "scf_backward": 1}
                m2 = Molecule(const, p2, xyz.clone() * 1.05, sp)
                m2.verbose = False
                Energy(p2)(m2, all_terms=True)
            (g,) = torch.autograd.grad(loss, m.coordinates)
        return g.detach().clone()

    g1, g2 = job(1e-9, False), job(1e-9, True)
    d = (g1 - g2).abs().max().item()
    print("replay backward after an interleaved job: max |grad alone - grad with history| = %.3e" % d)
    return d > 1e-12


@obligation(PID, "a", title="SCF.backward of a job uses the method and tolerance of its own forward pass, whatever other forward passes ran in between (interleaved jobs)")
def ob_a(ob):
    from seqm.seqm_functions import scf_loop as SL

    ob.encodes(SL.SCF.forward, SL.SCF.backward)
    ob.bound("two jobs A, B; SCF tolerances symbolic reals; method pairs (A,B) in {AM1,PM3,MNDO,PM6}^2 enumerated; job B's forward runs between job A's forward and backward")
    ob.assume("SCF iterations, Fock build, eigen-solver, autograd products and the adjoint fixed-point solvers are recorders (symbolic tags); decided: which method string and tolerance the backward pass uses")
    eA, eB = z3.Reals("epsA epsB")
    done = False
    for mA in ("AM1", "PM3", "MNDO", "PM6"):
        for mB in ("AM1", "PM6", "MNDO"):
            S.reset()
            ctxA, _ = scfbw.forward("A", mA, SymTensor(np.array(eA, dtype=object)))
            ctxB, _ = scfbw.forward("B", mB, SymTensor(np.array(eB, dtype=object)))
            r = scfbw.backward(ctxA)
            ok_method = all(m == mA for m in r["methods"]) and len(r["methods"]) >= 1
            tols = [t.a.reshape(-1)[0] if isinstance(t, SymTensor) else S.rv(float(t)) for t in r["tols"]]
            ob.require(len(tols) >= 1, "no adjoint solve recorded")
            claims = [tols[-1] == eA] + ([tols[0] == 10 * eA] if len(tols) > 1 else [])
            verdicts = [smt.prove(c, [eA > 0, eB > 0], "a:%s/%s tolerance" % (mA, mB), "lra", 20)[0] for c in claims]
            if not ok_method or "sat" in verdicts:
                if not done:
                    done = True
                    if replay_backward_history():
                        ob.violation("SCF.backward of job A (%s) uses %s of the most recent forward pass (job B: %s) instead of its own" % (mA, "the method string %r" % r["methods"] if not ok_method else "the tolerance", mB), {"module": "harness.C15", "func": "replay_backward_history", "args": {}})
                    else:
                        raise HarnessError("backward-history counterexample did not reproduce")
            else:
                for v in verdicts:
                    ob.verdict(v, "a:%s/%s" % (mA, mB))
                ob.discharged("a:%s/%s method" % (mA, mB))
    ob.sample({"methods_used": r["methods"], "tolerances_used": [str(t) for t in tols]})


def replay_dict_reuse():
    from seqm.basics import Hamiltonian

    p = {"method": "AM1", "scf_eps": 1e-4, "scf_converger": [1], "elements": [0, 1, 8], "excited_states": {"n_states": 2}}
    with quiet():
        h1 = Hamiltonian(p)
        h2 = Hamiltonian(p)
    print("replay settings reuse: first driver eps=%g, second driver (same dict) eps=%g, dict now scf_eps=%g" % (h1.eps.item(), h2.eps.item(), p["scf_eps"]))
    return h1.eps.item() != h2.eps.item() or h1.scf_backward_eps.item() != h2.scf_backward_eps.item()


@obligation(PID, "c", title="a settings dictionary reused for a second driver gives that driver the same SCF thresholds as the first one got (no alteration that changes later numbers), for every scf_eps / excited-state tolerance")
def ob_c(ob):
    from seqm import basics

    ob.encodes(basics.Hamiltonian.__init__)
    ob.bound("scf_eps>0 and CIS tolerance>0 symbolic reals; with and without excited_states; with and without an explicit scf_backward_eps; two constructions from the same dict object")
    e, t, be = z3.Reals("scf_eps cis_tol bw_eps")
    assm = [e > 0, t > 0, be > 0]
    saved_param = torch.nn.Parameter
    for exc in (True, False):
        for with_bw in (False, True):
            def fn():
                p = {"method": "AM1", "scf_eps": SymTensor(np.array(e, dtype=object)), "scf_converger": [1], "elements": [0, 1, 8]}
                if exc:
                    p["excited_states"] = {"n_states": 2, "tolerance": SymTensor(np.array(t, dtype=object))}
                if with_bw:
                    p["scf_backward_eps"] = SymTensor(np.array(be, dtype=object))
                torch.nn.Parameter = lambda x, requires_grad=False: x if isinstance(x, SymTensor) else saved_param(x, requires_grad=requires_grad)
                try:
                    with symbolic_factories(), quiet():
                        h1 = basics.Hamiltonian(p)
                        h2 = basics.Hamiltonian(p)
                finally:
                    torch.nn.Parameter = saved_param
                g = lambda x: x.a.reshape(-1)[0] if isinstance(x, SymTensor) else S.rv(float(x))
                return g(h1.eps), g(h2.eps), g(h1.scf_backward_eps), g(h2.scf_backward_eps)

            ex = Explorer(assumptions=assm, piecewise="ite", kind="auto")
            res = ex.run(fn)
            ob.paths += ex.paths
            for pc, side, (e1, e2, b1, b2) in res:
                for name, c in (("scf threshold", e1 == e2), ("backward threshold", b1 == b2)):
                    lab = "c:exc=%s bw=%s %s" % (exc, with_bw, name)
                    v, m = smt.prove(c, assm + list(pc), lab, "auto", 30)
                    if v == "sat":
                        if replay_dict_reuse():
                            ob.violation("a second driver built from the same settings dictionary gets a different %s than the first (the first construction altered the dictionary after reading it)" % name, {"module": "harness.C15", "func": "replay_dict_reuse", "args": {}})
                        else:
                            raise HarnessError("dict reuse counterexample did not reproduce (%s)" % lab)
                        return
                    ob.verdict(v, lab)
                if exc:
                    # and the threshold honours the documented coupling scf_eps <= 0.1*cis_tol
                    v, m = smt.prove(e1 <= t / 10 + z3.RealVal("1e-30") + e1 * z3.RealVal("1e-12"), assm + list(pc), "c:scf_eps <= 0.1 cis_tol", "auto", 30)
                    ob.verdict(v, "c:coupling")


def replay_packpar():
    from seqm.basics import Pack_Parameters

    pp = Pack_Parameters({"method": "AM1", "elements": [0, 1, 8]})
    Z = torch.tensor([8, 1, 1])
    d0 = Pack_Parameters.forward.__defaults__[0]
    d0.clear()
    ref = {k: v.clone() for k, v in pp(Z)[0].items()}
    for k in list(d0):
        d0[k] = torch.full_like(d0[k], 123.0)
    d0["junk"] = 1
    out = pp(Z)[0]
    bad = [k for k in ref if not torch.equal(out[k], ref[k])]
    print("replay Pack_Parameters shared default dict: keys not refreshed %s" % bad)
    d0.clear()
    return bool(bad)


@obligation(PID, "b", title="Pack_Parameters.forward: returned Hamiltonian parameters depend only on (Z, tables), not on what earlier calls left in the shared default dictionary")
def ob_b(ob):
    from seqm.basics import Pack_Parameters
    from seqm.seqm_functions.parameters import params

    ob.encodes(Pack_Parameters.forward)
    ob.bound("methods AM1, PM3, MNDO; the shared default dict pre-populated with arbitrary (symbolic) values under every parameter name")
    for method in ("AM1", "PM3", "MNDO"):
        with quiet():
            pp = Pack_Parameters({"method": method, "elements": [0, 1, 6, 8]})
        Z = torch.tensor([8, 6, 1])
        d0 = Pack_Parameters.forward.__defaults__[0]
        d0.clear()
        for k in pp.parameters:
            d0[k] = SymTensor(np.full((3,), z3.Real("junk_" + k), dtype=object))
        out = pp(Z)[0]
        bad = []
        for i, k in enumerate(pp.required_list):
            val = out[k]
            if isinstance(val, SymTensor) or not torch.equal(val, pp.p[Z, i]):
                bad.append(k)
        d0.clear()
        if bad:
            if replay_packpar():
                ob.violation("%s: parameters %s returned by Pack_Parameters.forward are left over from the shared default dictionary" % (method, bad), {"module": "harness.C15", "func": "replay_packpar", "args": {}})
            else:
                raise HarnessError("packpar counterexample did not reproduce")
        else:
            ob.discharged("b:%s all %d required parameters refreshed" % (method, len(pp.required_list)))


def replay_dof_reuse():
    import seqm.MolecularDynamics as MD
    import types as _t

    class FF(torch.nn.Module):
        def __init__(s, *a, **k):
            super().__init__()
            s.conservative_force = _t.SimpleNamespace(energy=_t.SimpleNamespace(md=False, excited_states=None))
            s.device = torch.device("cpu")

    class _Stop(Exception):
        pass

    MD.esdriver = FF
    md = MD.Molecular_Dynamics_Basic(seqm_parameters={"method": "AM1"}, timestep=0.5, Temp=300.0, output={"molid": [0], "prefix": "x", "print every": 0, "h5": {}})

    def stop(*a, **k):
        raise _Stop()

    md.initialize_velocity = stop
    out = []
    for natoms, rc in ((5.0, None), (3.0, ("angular", 1))):
        mol = _t.SimpleNamespace(coordinates=torch.zeros(1, 5, 3), velocities=None, num_atoms=torch.tensor([natoms]), molsize=5, nmol=1, verbose=True)
        try:
            md.initialize(mol, remove_com=rc)
        except _Stop:
            pass
        out.append(float(md.n_dof))
    print("replay reused MD driver: n_dof after first job %.0f (5 atoms, no COM removal), after second job %.0f (3 atoms, angular removal: expected 3)" % (out[0], out[1]))
    return out[1] != 3.0


@obligation(PID, "d", title="a reused MD driver recomputes its degrees of freedom for every run: the temperature of a second job on the same driver is that of a fresh driver")
def ob_d(ob):
    import seqm.MolecularDynamics as MD
    from . import mdsym
    from fractions import Fraction

    ob.encodes(MD.Molecular_Dynamics_Basic.initialize, MD.Molecular_Dynamics_Basic.set_dof, MD.Molecular_Dynamics_Basic._calc_temperature)
    ob.bound("one driver object, job 1 = padded batch without COM removal, job 2 = same batch with ('angular',1) (and the reverse order); velocities and masses symbolic")

    class _Stop(Exception):
        pass

    def stop(*a, **k):
        raise _Stop()

    species = [[8, 1, 1], [1, 1, 0]]
    for order in ((None, ("angular", 1)), (("angular", 1), None), (("linear", 2), ("angular", 1))):
        S.reset()
        md = mdsym.make_md("Molecular_Dynamics_Basic", Temp=300.0)
        md.initialize_velocity = stop
        for rc in order:
            mol, real, mass_pos = mdsym.sym_molecule(species)
            mol.velocities = None
            try:
                with symbolic_factories():
                    md.initialize(mol, remove_com=rc)
            except _Stop:
                pass
        cons = {None: 0, "linear": 3, "angular": 6}[order[1][0] if order[1] else None]
        mol.velocities = S.sym("v", (2, 3, 3))
        with symbolic_factories():
            T = md._calc_temperature(md._kinetic_energy(mol))
        KES, TS = S.rv(MD.CONSTANTS.KINETIC_ENERGY_SCALE), S.rv(MD.CONSTANTS.TEMPERATURE_SCALE)
        for b in range(2):
            nreal = int(real[b].sum())
            ek = sum(Fraction(1, 2) * mol.mass.a[b, a, 0] * mol.velocities.a[b, a, c] * mol.velocities.a[b, a, c] for a in range(3) for c in range(3)) * KES
            spec = ek * TS / (Fraction(1, 2) * (3 * nreal - cons))
            lab = "d:jobs %s mol %d" % (order, b)
            v, m = smt.prove(T.a[b] == spec, mass_pos, lab, "auto", 60)
            if v == "sat":
                if replay_dof_reuse():
                    ob.violation("second job on a reused MD driver (%s after %s) reports a temperature computed with the first job's degrees of freedom" % (order[1], order[0]), {"module": "harness.C15", "func": "replay_dof_reuse", "args": {}})
                else:
                    raise HarnessError("dof reuse counterexample did not reproduce")
                return
            ob.verdict(v, lab)


MEMO_PRELUDE = '''
import seqm.seqm_functions.two_elec_two_center_int as TE

def _scp(*a):
    return sum((0.37 + 0.11 * k) * float(x) for k, x in enumerate(a))

def _pick(x, lo, hi):
    # one solver-decided branch per value: the selectors stay symbolic for CrossHair, everything downstream is concrete
    for k in range(lo, hi + 1):
        if x == k:
            return k
    raise ValueError(x)

def memo_violations(cat, z, qn0, i, scale_pct):
    """fill the module-level PM6 d-parameter cache with one job's key, then ask for a key that differs in component i:
    the answer must be what an empty cache gives"""
    cat, i = _pick(cat, 0, 1), _pick(i, 0, 10)
    saved = (TE.GetSlaterCondonParameter, TE.AIJL, dict(TE._PM6_D_PARAM_CACHE))
    TE.GetSlaterCondonParameter = _scp
    TE.AIJL = _scp
    try:
        base = ["PM6", "AB"[cat], z, qn0, 1.9, 1.6, 1.2, 2.1, 1.7, 1.3, 0.0]
        other = list(base)
        if i == 0:
            other[0] = "PM6_SP"
        elif i == 1:
            other[1] = "AB"[1 - cat]
        elif i in (2, 3):
            other[i] = base[i] + 1
        elif i == 10:
            other[10] = 0.5 + scale_pct / 100.0
        else:
            other[i] = base[i] * (1.0 + scale_pct / 100.0)
        k1, k2 = TE._pm6_d_param_key(*base), TE._pm6_d_param_key(*other)
        TE._PM6_D_PARAM_CACHE.clear()
        fresh = TE._pm6_d_param_from_key(k2)
        TE._PM6_D_PARAM_CACHE.clear()
        TE._pm6_d_param_from_key(k1)
        after = TE._pm6_d_param_from_key(k2)
        again = TE._pm6_d_param_from_key(k2)
        bad = []
        if tuple(after) != tuple(fresh):
            bad.append("after a job with key %r the d-orbital terms for key %r are %r, a fresh process gives %r" % (k1, k2, after, fresh))
        if tuple(again) != tuple(fresh):
            bad.append("repeated request differs")
        return bad
    finally:
        TE.GetSlaterCondonParameter, TE.AIJL = saved[0], saved[1]
        TE._PM6_D_PARAM_CACHE.clear()
        TE._PM6_D_PARAM_CACHE.update(saved[2])
'''


def replay_memo(cat, z, qn0, i, scale_pct):
    ns = {}
    exec(MEMO_PRELUDE, ns)
    bad = ns["memo_violations"](cat, z, qn0, i, scale_pct)
    for b in bad:
        print("  ", b[:400])
    return bool(bad)


@obligation(PID, "e", title="memoisation is transparent: the module-level cache of PM6 d-orbital one-centre terms returns, for every request, what an empty cache returns — whatever job filled it before (every component of the request varied: method, category, element, quantum number, each exponent, G2SD)")
def ob_e(ob):
    from seqm.seqm_functions import two_elec_two_center_int as TE
    from engine import chrun

    ob.encodes(TE._pm6_d_param_from_key, TE._pm6_d_param_key)
    ob.bound("category in {A,B} and the index of the varied component in [0,10] symbolic ints (selectors); element S/Br (Z=16, 35), quantum number 3 and 4, variation of 15 percent concrete")
    ob.assume("Slater-Condon and AIJL integrals replaced by one injective linear recorder of their arguments (their formulas are not under test here)")
    sls = []
    for z, qn0 in ((16, 3), (35, 4)):
        sls.append(chrun.Slice("memo_%d" % z, MEMO_PRELUDE, "cat: int, i: int", "0 <= cat <= 1 and 0 <= i <= 10", "return memo_violations(cat, %d, %d, i, 15) == []" % (z, qn0), "_", 200))
        sls[-1].meta = dict(z=z, qn0=qn0)
    tw = chrun.Slice("twin_memo", MEMO_PRELUDE, "cat: int, i: int", "0 <= cat <= 1 and 0 <= i <= 10", "return memo_violations(cat, 16, 3, i, 15) == [] and not (i == 6 and cat == 0)", "_", 200)
    tw.meta = dict(z=16, qn0=3)
    res = chrun.run_slices(sls + [tw], jobs=3)
    for s_, r in zip(sls + [tw], res):
        ob.paths += 1
        ob.ch_conditions += 1
        ob.ch_definite += r["verdict"] in ("confirmed", "counterexample")
        if s_.name == "twin_memo":
            if r["verdict"] != "counterexample":
                raise HarnessError("twin_memo: expected the planted counterexample, got %s" % r["verdict"])
            continue
        ob.sample({"slice": s_.name, "pre": s_.pre, "verdict": r["verdict"], "seconds": r["seconds"], "call": r.get("call")})
        if r["verdict"] == "confirmed":
            ob.discharged("e:" + s_.name)
        elif r["verdict"] == "counterexample":
            vals = chrun.parse_int_args(r["args"])
            kw = dict(cat=vals[0], z=s_.meta["z"], qn0=s_.meta["qn0"], i=vals[1], scale_pct=15)
            print("counterexample from CrossHair:", r["call"])
            if replay_memo(**kw):
                ob.violation("PM6 d-orbital parameter cache returns a previous job's terms for a request that differs in component %d (category %s, Z=%d)" % (kw["i"], "AB"[kw["cat"]], kw["z"]), {"module": "harness.C15", "func": "replay_memo", "args": kw})
            else:
                raise HarnessError("memoisation counterexample did not reproduce: %s" % r["call"])
        elif r["verdict"] == "inconclusive":
            ob.inconclusive("e:memo")
        else:
            raise HarnessError("crosshair failed on memo:\n%s" % r["raw"][-1000:])


# ---- shared obligation: a reused Langevin driver equals a fresh one only if its thermostat coefficients are recomputed from the current molecule and settings at every initialisation ----
@obligation(PID, "f", title="[shared with C12.a] fluctuation-dissipation: c1^2*sigma^2 + c2^2 = sigma^2 (sigma^2 = k_B T/m) for every dt, damping time, temperature and mass; the update is v' = c1 v + c2 xi; limits T=0 and padding atoms; coefficients follow the current settings when a driver is re-initialised")
def ob_f_shared(ob):
    """a reused Langevin driver equals a fresh one only if its thermostat coefficients are recomputed from the current molecule and settings at every initialisation"""
    from . import C12 as _m  # imported lazily: the harness modules share obligations in both directions

    ob.note("this obligation is the one registered as C12.a; it is also decided here because a reused Langevin driver equals a fresh one only if its thermostat coefficients are recomputed from the current molecule and settings at every initialisation")
    _m.ob_a(ob)
