"""C09 — XL-BOMD propagation: fixed point, published recurrence + buffer layout (all k, all phases, restart), linear stability, shadow energy."""
import os
import types
from fractions import Fraction

from .common import *  # noqa: F401,F403
from .common import S, smt, z3, np, torch, SymTensor, symbolic_factories, obligation, HarnessError, expect_refuted, expect_feasible, validate_close

PID = "C09"

# Niklasson, Steneteg, Odell, Bock, Challacombe, Tymczak, Holmstrom, Zheng, Weber, JCP 130, 214109 (2009), Table I
PUBLISHED = {
    3: [1.69, 150e-3, -2, 3, 0, -1],
    4: [1.75, 57e-3, -3, 6, -2, -2, 1],
    5: [1.82, 18e-3, -6, 14, -8, -3, 4, -1],
    6: [1.84, 5.5e-3, -14, 36, -27, -2, 12, -6, 1],
    7: [1.86, 1.6e-3, -36, 99, -88, 11, 32, -25, 8, -1],
    8: [1.88, 0.44e-3, -99, 286, -286, 78, 78, -90, 42, -10, 1],
    9: [1.89, 0.12e-3, -286, 858, -936, 364, 168, -300, 184, -63, 12, -1],
}
C_SCALE = Fraction(95, 100)  # documented "scaling delta function" c in _propagate_P


class _ES(torch.nn.Module):
    def __init__(s, *a, **k):
        super().__init__()

    def forward(s, molecule, *a, **k):
        molecule.force = SymTensor(np.full((1, 1, 3), z3.RealVal(0), dtype=object))


def _md(cls_name, k, damp=None):
    import seqm.MolecularDynamics as MD

    MD.esdriver = _ES
    MD.active_state_tensor = lambda a, n, d: torch.zeros(n, dtype=torch.long)
    p = {"method": "AM1", "scf_eps": 1e-6, "scf_converger": [1], "elements": [0, 1]}
    cls = getattr(MD, cls_name)
    return cls(damp=damp, xl_bomd_params={"k": k}, seqm_parameters=p, timestep=0.5, Temp=0.0, output={"molid": [0], "prefix": "x", "h5": {}})


def _mol(D, extra=None):
    z = lambda: SymTensor(np.full((1, 1, 3), z3.RealVal(0), dtype=object))
    m = types.SimpleNamespace(const=types.SimpleNamespace(do_timing=False), velocities=z(), coordinates=z(), acc=z(), mass_inverse=torch.ones(1, 1, 1), dm=SymTensor(np.array([[[D]]], dtype=object)), active_state=0, nmol=1, force=None)
    if extra:
        for k_, v in extra.items():
            setattr(m, k_, v)
    return m


def _history(m, phase, H):
    """Pt under Inv(phase): slot s holds lag (phase+s) mod m"""
    Pt = np.empty((m, 1, 1, 1), dtype=object)
    for s_ in range(m):
        Pt[s_, 0, 0, 0] = H[(phase + s_) % m]
    return Pt


def replay_recurrence(k, phase, cls_name="XL_BOMD"):
    """float64: drive the real one_step with a random history laid out under Inv(phase) and compare with the published recurrence"""
    import seqm.MolecularDynamics as MD

    class ES(torch.nn.Module):
        def __init__(s, *a, **k):
            super().__init__()

        def forward(s, molecule, *a, **k):
            molecule.force = torch.zeros(1, 1, 3)

    MD.esdriver = ES
    p = {"method": "AM1", "scf_eps": 1e-6, "scf_converger": [1], "elements": [0, 1]}
    md = getattr(MD, cls_name)(damp=None, xl_bomd_params={"k": k}, seqm_parameters=p, timestep=0.5, Temp=0.0, output={"molid": [0], "prefix": "x", "h5": {}})
    m = k + 1
    g = torch.Generator().manual_seed(5)
    H = torch.rand(m, generator=g) * 2 - 1
    D = (torch.rand(1, generator=g) * 2 - 1).item()
    Pt = torch.zeros(m, 1, 1, 1)
    for s_ in range(m):
        Pt[s_] = H[(phase + s_) % m]
    mol = types.SimpleNamespace(const=types.SimpleNamespace(do_timing=False), velocities=torch.zeros(1, 1, 3), coordinates=torch.zeros(1, 1, 3), acc=torch.zeros(1, 1, 3), mass_inverse=torch.ones(1, 1, 1), dm=torch.full((1, 1, 1), D), active_state=0, nmol=1, force=None, dP2dt2=torch.zeros(1, 1, 1))
    Pn, Ptn, _, _ = md.one_step(mol, phase + 2 * m, torch.full((1, 1, 1), H[0].item()), Pt.clone())
    kap, al, *c = PUBLISHED[k]
    if cls_name == "KSA_XL_BOMD":
        exp = 2 * H[0] - H[1] + al * sum(c[j] * H[j] for j in range(m))
    else:
        exp = 2 * H[0] - H[1] + kap * 0.95 * (D - H[0]) + al * sum(c[j] * H[j] for j in range(m))
    newH = [Pn.item()] + H.tolist()[:-1]
    lay = max(abs(Ptn[s_].item() - newH[(phase + 1 + s_) % m]) for s_ in range(m))
    d = abs(Pn.item() - exp.item())
    print("replay %s k=%d phase=%d: |P_new - published recurrence| = %.3e, layout error %.3e" % (cls_name, k, phase, d, lay))
    return d > 1e-6 or lay > 1e-12


def _bounds01(vs):
    return [z3.And(v >= -1, v <= 1) for v in vs]


@obligation(PID, "a", title="fixed point: history = D = P  =>  P_new = P, every k, every buffer phase, plain/KSA/excited-state propagators")
def ob_a(ob):
    import seqm.MolecularDynamics as MD

    ob.encodes(MD.XL_BOMD.__init__, MD.XL_BOMD._propagate_P, MD.KSA_XL_BOMD._propagate_P, MD.XL_BOMD._propagate_excited_state, MD.XL_ESMD._propagate_excited_state)
    ob.bound("k in 3..9 x phase in 0..k enumerated; density a symbolic real in [-1,1] (the propagator is element-wise, so one element is general); tolerance 1e-12 absorbs the float rounding of the coefficient table")
    Pv = z3.Real("P")
    tol = z3.RealVal("1e-12")
    for k in range(3, 10):
        m = k + 1
        for cls in ("XL_BOMD", "KSA_XL_BOMD", "XL_ESMD"):
            md = _md(cls, k)
            for phase in range(m):
                Pt = SymTensor(_history(m, phase, [Pv] * m))
                P = SymTensor(np.array([[[Pv]]], dtype=object))
                mol = _mol(Pv, {"dP2dt2": SymTensor(np.array([[[z3.RealVal(0)]]], dtype=object))})
                with symbolic_factories():
                    Pn = md._propagate_P(P, Pt, phase, mol)
                d = Pn.a[0, 0, 0] - Pv
                v, mdl = smt.prove(z3.And(d <= tol, d >= -tol), _bounds01([Pv]), "a:%s k=%d phase=%d" % (cls, k, phase), "lra", 30)
                if v == "sat":
                    if replay_fixed_point(k, phase, cls):
                        ob.violation("%s k=%d phase=%d: a stationary auxiliary density is not a fixed point of _propagate_P" % (cls, k, phase), {"module": "harness.C09", "func": "replay_fixed_point", "args": {"k": k, "phase": phase, "cls_name": cls}})
                    else:
                        raise HarnessError("fixed-point counterexample did not reproduce")
                else:
                    ob.verdict(v, "a:%s k=%d phase=%d" % (cls, k, phase))
            if cls != "KSA_XL_BOMD":
                # excited-state propagator (5-d tensors)
                for phase in (0, m - 1):
                    es_t = SymTensor(np.full((m, 1, 1, 1, 1), Pv, dtype=object))
                    es = SymTensor(np.full((1, 1, 1, 1), Pv, dtype=object))
                    mol = _mol(Pv, {"transition_density_matrices": SymTensor(np.full((1, 1, 1, 1), Pv, dtype=object)), "dxi2dt2": None})
                    with symbolic_factories():
                        en = md._propagate_excited_state(es, es_t, phase, mol)
                    d = en.a.reshape(-1)[0] - Pv
                    v, _ = smt.prove(z3.And(d <= tol, d >= -tol), _bounds01([Pv]), "a:es %s k=%d" % (cls, k), "lra", 30)
                    if v == "sat":
                        ob.violation("%s k=%d: excited-state auxiliary propagation does not keep a stationary amplitude" % (cls, k), {"module": "harness.C09", "func": "replay_fixed_point", "args": {"k": k, "phase": phase, "cls_name": cls}})
                    else:
                        ob.verdict(v, "a:es")
    # sensitivity twin
    md = _md("XL_BOMD", 5)
    Pt = SymTensor(_history(6, 2, [Pv] * 6))
    with symbolic_factories():
        Pn = md._propagate_P(SymTensor(np.array([[[Pv]]], dtype=object)), Pt, 3, _mol(Pv * z3.RealVal("1.001")))
    expect_refuted(ob, z3.And(Pn.a[0, 0, 0] - Pv <= tol, Pn.a[0, 0, 0] - Pv >= -tol), _bounds01([Pv]), "D != P must move P")
    ob.sample({"k": 5, "phase": 2, "P_new - P": str(z3.simplify(Pn.a[0, 0, 0] - Pv))[:200]})


def replay_fixed_point(k, phase, cls_name="XL_BOMD"):
    import seqm.MolecularDynamics as MD

    class ES(torch.nn.Module):
        def __init__(s, *a, **k):
            super().__init__()

    MD.esdriver = ES
    p = {"method": "AM1", "scf_eps": 1e-6, "scf_converger": [1], "elements": [0, 1]}
    md = getattr(MD, cls_name)(damp=None, xl_bomd_params={"k": k}, seqm_parameters=p, timestep=0.5, Temp=0.0, output={"molid": [0], "prefix": "x", "h5": {}})
    m = k + 1
    P = torch.full((1, 1, 1), 0.73)
    mol = types.SimpleNamespace(dm=P.clone(), dP2dt2=torch.zeros(1, 1, 1))
    Pn = md._propagate_P(P, P.unsqueeze(0).expand(m, 1, 1, 1).clone(), phase, mol)
    d = (Pn - P).abs().max().item()
    print("replay fixed point %s k=%d phase=%d: |P_new - P| = %.3e" % (cls_name, k, phase, d))
    return d > 1e-10


@obligation(PID, "b", title="one real one_step from Inv(phase): P_new = published dissipative Verlet recurrence, Inv(phase+1) re-established; restart picks the newest slot")
def ob_b(ob):
    import seqm.MolecularDynamics as MD

    ob.encodes(MD.XL_BOMD.one_step, MD.XL_BOMD._propagate_P, MD.KSA_XL_BOMD._propagate_P, MD.Molecular_Dynamics_Basic.run_from_checkpoint)
    ob.bound("k in 3..9 x phase in 0..k enumerated; history values, D symbolic reals in [-1,1]; tolerance 1e-5 against the published decimals (a unit slip in any c_j changes the result by >= 1.2e-4)")
    ob.assume("esdriver stubbed (zero force); Inv(phase): slot s holds lag (phase+s) mod m; restart: _load_checkpoint_base / md.run stubbed, Pt symbolic")
    tol = z3.RealVal("1e-5")
    for cls in ("XL_BOMD", "KSA_XL_BOMD"):
        for k in range(3, 10):
            md = _md(cls, k)
            m = k + 1
            kap, al, *c = [Fraction(str(v)) for v in PUBLISHED[k]]
            for phase in range(m):
                H = [z3.Real("H%d" % l) for l in range(m)]
                D = z3.Real("D")
                G = z3.Real("G")  # KSA: dP2dt2 (kernel-updated residual)
                Pt = SymTensor(_history(m, phase, H))
                mol = _mol(D, {"dP2dt2": SymTensor(np.array([[[G]]], dtype=object))})
                step = phase + 3 * m
                with symbolic_factories():
                    Pn, Ptn, _, _ = md.one_step(mol, step, SymTensor(np.array([[[H[0]]]], dtype=object)), Pt)
                if cls == "XL_BOMD":
                    expect = 2 * H[0] - H[1] + z3.RealVal(kap * C_SCALE) * (D - H[0]) + z3.RealVal(al) * sum(z3.RealVal(c[j]) * H[j] for j in range(m))
                else:
                    expect = 2 * H[0] - H[1] + z3.RealVal(kap) * G + z3.RealVal(al) * sum(z3.RealVal(c[j]) * H[j] for j in range(m))
                d = Pn.a[0, 0, 0] - expect
                lab = "b:%s k=%d phase=%d recurrence" % (cls, k, phase)
                v, mdl = smt.prove(z3.And(d <= tol, d >= -tol), _bounds01(H + [D, G]), lab, "lra", 30)
                if v == "sat":
                    if replay_recurrence(k, phase, cls):
                        ob.violation("%s k=%d phase=%d: the executed auxiliary-density update is not the published dissipative Verlet recurrence" % (cls, k, phase), {"module": "harness.C09", "func": "replay_recurrence", "args": {"k": k, "phase": phase, "cls_name": cls}})
                    else:
                        raise HarnessError("recurrence counterexample did not reproduce (k=%d phase=%d)" % (k, phase))
                else:
                    ob.verdict(v, lab)
                newH = [Pn.a[0, 0, 0]] + H[:-1]
                ok = all(z3.is_true(z3.simplify(Ptn.a[s_, 0, 0, 0] == newH[(phase + 1 + s_) % m])) for s_ in range(m))
                if ok:
                    ob.discharged("b:layout")
                else:
                    bad = [smt.prove(Ptn.a[s_, 0, 0, 0] == newH[(phase + 1 + s_) % m], [], "b:layout k=%d phase=%d slot=%d" % (k, phase, s_), "lra", 30)[0] for s_ in range(m)]
                    if "sat" in bad:
                        if replay_recurrence(k, phase, cls):
                            ob.violation("%s k=%d phase=%d: history buffer layout invariant broken after one step" % (cls, k, phase), {"module": "harness.C09", "func": "replay_recurrence", "args": {"k": k, "phase": phase, "cls_name": cls}})
                        else:
                            raise HarnessError("layout counterexample did not reproduce")
                    elif "unknown" in bad:
                        ob.inconclusive("b:layout")
                    else:
                        ob.discharged("b:layout")
    # restart: the slot selected by run_from_checkpoint must be the newest entry (lag 0) under Inv(step_done mod m)
    for k in range(3, 10):
        m = k + 1
        for step_done in range(1, 2 * m + 2):
            H = [z3.Real("H%d" % l) for l in range(m)]
            Pt = SymTensor(_history(m, step_done % m, H))
            got = _restart_P(k, step_done, Pt)
            lab = "b:restart k=%d step_done=%d" % (k, step_done)
            v, mdl = smt.prove(got.a.reshape(-1)[0] == H[0], [], lab, "lra", 30)
            if v == "sat":
                if replay_restart(k, step_done):
                    ob.violation("XL-BOMD k=%d: resuming from a checkpoint written at step %d takes a stale history slot as the current auxiliary density" % (k, step_done), {"module": "harness.C09", "func": "replay_restart", "args": {"k": k, "step_done": step_done}})
                else:
                    raise HarnessError("restart counterexample did not reproduce")
            else:
                ob.verdict(v, lab)
    # sensitivity twin: a history laid out one phase off must violate the recurrence
    md = _md("XL_BOMD", 4)
    H = [z3.Real("H%d" % l) for l in range(5)]
    D = z3.Real("D")
    with symbolic_factories():
        Pn, _, _, _ = md.one_step(_mol(D), 2 + 15, SymTensor(np.array([[[H[0]]]], dtype=object)), SymTensor(_history(5, 3, H)))
    kap, al, *c = [Fraction(str(v)) for v in PUBLISHED[4]]
    expect = 2 * H[0] - H[1] + z3.RealVal(kap * C_SCALE) * (D - H[0]) + z3.RealVal(al) * sum(z3.RealVal(c[j]) * H[j] for j in range(5))
    d = Pn.a[0, 0, 0] - expect
    expect_refuted(ob, z3.And(d <= tol, d >= -tol), _bounds01(H + [D]), "history off by one phase")
    ob.sample({"k": 4, "phase": 2, "P_new": str(z3.simplify(Pn.a[0, 0, 0]))[:300]})


def _restart_P(k, step_done, Pt):
    """run the real run_from_checkpoint with stubbed loader/run; returns the P it selects"""
    import seqm.MolecularDynamics as MD

    MD.esdriver = _ES
    B = MD.Molecular_Dynamics_Basic
    p = {"method": "AM1", "scf_eps": 1e-6, "scf_converger": [1], "elements": [0, 1]}
    ckpt = {"MD_type": "XL_BOMD", "seqm_parameters": p, "timestep": 0.5, "Temp": 0.0, "output": {"molid": [0], "prefix": "x", "h5": {}}, "step_done": step_done, "steps": step_done + 5, "damp": None, "xl_bomd_params": {"k": k}, "xl_ctx": {"Pt": Pt, "es_amp_t": None}, "remove_com": None, "rng": None}
    captured = {}
    saved = (B._load_checkpoint_base, B._restore_rng, MD.XL_BOMD.run)
    B._load_checkpoint_base = staticmethod(lambda path, device=None: (ckpt, types.SimpleNamespace(), torch.device("cpu"), True))
    B._restore_rng = staticmethod(lambda c: None)
    MD.XL_BOMD.run = lambda self, **kw: captured.update(self._xl_ctx)
    try:
        B.run_from_checkpoint("x.restart.pt")
    finally:
        B._load_checkpoint_base, B._restore_rng, MD.XL_BOMD.run = (staticmethod(saved[0]), staticmethod(saved[1]), saved[2])
    return captured["P"]


def replay_restart(k, step_done):
    m = k + 1
    Pt = torch.zeros(m, 1, 1, 1)
    H = torch.arange(m, dtype=torch.float64) + 1.0  # lag l holds value l+1
    for s_ in range(m):
        Pt[s_] = H[(step_done % m + s_) % m]
    P = _restart_P(k, step_done, Pt)
    print("replay restart k=%d step_done=%d: selected slot holds lag %d (must be 0)" % (k, step_done, int(P.item()) - 1))
    return abs(P.item() - 1.0) > 1e-12


def _char_coeffs(md, cls, k, gamma):
    """coefficients a_j(gamma) of P(n+1) = sum_j a_j P(n-j) when D(n) = gamma*P(n) (plain) / dP2dt2 = (gamma-1) P(n) (KSA),
    extracted from the real _propagate_P by evaluating it on unit histories"""
    m = k + 1
    out = []
    for j in range(m):
        H = [z3.RealVal(1 if l == j else 0) for l in range(m)]
        Pt = SymTensor(_history(m, 0, H))
        P = SymTensor(np.array([[[H[0]]]], dtype=object))
        mol = _mol(gamma * H[0], {"dP2dt2": SymTensor(np.array([[[(gamma - 1) * H[0]]]], dtype=object))})
        with symbolic_factories():
            Pn = md._propagate_P(P, Pt, 0, mol)
        out.append(z3.simplify(Pn.a[0, 0, 0]))
    return out


def _cmul(a, b):
    return (a[0] * b[0] - a[1] * b[1], a[0] * b[1] + a[1] * b[0])


def _cpow(l, n):
    r = (z3.RealVal(1), z3.RealVal(0))
    for _ in range(n):
        r = _cmul(r, l)
    return r


def schur_cohn(a):
    """all roots of sum a[i] z^i strictly inside the unit disc? (exact rationals)"""
    a = list(a)
    while len(a) > 1:
        a0, an = a[0], a[-1]
        if not abs(a0) < abs(an):
            return False
        n = len(a) - 1
        a = [an * a[i + 1] - a0 * a[n - i - 1] for i in range(n)]
    return True


def replay_stability(k, cls_name, gamma):
    import seqm.MolecularDynamics as MD

    class ES(torch.nn.Module):
        def __init__(s, *a, **k):
            super().__init__()

    MD.esdriver = ES
    p = {"method": "AM1", "scf_eps": 1e-6, "scf_converger": [1], "elements": [0, 1]}
    md = getattr(MD, cls_name)(damp=None, xl_bomd_params={"k": k}, seqm_parameters=p, timestep=0.5, Temp=0.0, output={"molid": [0], "prefix": "x", "h5": {}})
    m = k + 1
    a = []
    for j in range(m):
        H = torch.zeros(m)
        H[j] = 1.0
        mol = types.SimpleNamespace(dm=torch.full((1, 1, 1), gamma * H[0].item()), dP2dt2=torch.full((1, 1, 1), (gamma - 1) * H[0].item()))
        Pn = md._propagate_P(torch.full((1, 1, 1), H[0].item()), H.reshape(m, 1, 1, 1).clone(), 0, mol)
        a.append(Pn.item())
    poly = [1.0] + [-x for x in a]
    roots = np.roots(poly)
    r = float(max(abs(roots)))
    print("replay stability %s k=%d gamma=%.6f: max |root| of the characteristic polynomial = %.8f" % (cls_name, k, gamma, r))
    return r >= 1.0 + 1e-6


@obligation(PID, "c", title="linear stability: the executed recurrence is (coefficient by coefficient, for every response eigenvalue) the published scheme, whose root locus stays inside the unit circle over the whole admissible range")
def ob_c(ob):
    import seqm.MolecularDynamics as MD

    ob.encodes(MD.XL_BOMD.__init__, MD.XL_BOMD._propagate_P, MD.KSA_XL_BOMD._propagate_P)
    ob.bound("k in 3..9; code link: coefficients a_j(gamma) of P(n+1)=sum_j a_j P(n-j) extracted from the real _propagate_P with D = gamma*P (KSA: dP2dt2=(gamma-1)P), gamma symbolic in [0,1], equal to the published ones with kappa' = a_D*(1-gamma), 0 < a_D <= kappa, tolerance 1e-12; spec lemma: for kappa' symbolic in (0, kappa] the published characteristic polynomial has no root on |z|=1 (z=(1-t^2+2ti)/(1+t^2) and z=-1) and is Schur-Cohn stable at kappa/2 (exact rationals) => by continuity of roots all roots are inside for all kappa' in (0,kappa]")
    ob.assume("scalar linear-response model of the SCF map (one response eigenvalue gamma at a time); the stability margin of the published scheme is below 1e-9 for kappa' < 0.1*kappa (down to 1e-17), i.e. below the float rounding of the coefficient table, which is why stability is decided on the published decimals and the code is linked to them coefficient-wise")
    g = z3.Real("gamma")
    t = z3.Real("t")
    kp = z3.Real("kp")
    tol = z3.RealVal("1e-12")
    for k in range(3, 10):
        kap, al, *c = [Fraction(str(v)) for v in PUBLISHED[k]]
        # ---- spec lemma on the published table ----
        co = [2 + al * c[0], al * c[1] - 1] + [al * c[j] for j in range(2, k + 1)]  # coefficient of z^k gets -kp
        dd = 1 + t * t
        num = (1 - t * t, 2 * t)

        def dp(n):
            r = z3.RealVal(1)
            for _ in range(n):
                r = r * dd
            return r

        re, im = _cpow(num, k + 1)
        for j in range(k + 1):
            h = _cpow(num, k - j)
            cj = z3.RealVal(co[j]) - (kp if j == 0 else 0)
            re = re - cj * h[0] * dp(j + 1)
            im = im - cj * h[1] * dp(j + 1)
        rng = [kp > 0, kp <= z3.RealVal(kap)]
        s1 = z3.SolverFor("QF_NRA")
        s1.set("timeout", 120000)
        s1.add(*rng, re == 0, im == 0)
        import time as _t

        t0 = _t.time()
        v1 = str(s1.check())
        smt.STATS.record(v1, _t.time() - t0, "c:k=%d spec no root on circle" % k, s1, "nra")
        zm = (z3.RealVal(-1), z3.RealVal(0))
        rem = _cpow(zm, k + 1)[0]
        for j in range(k + 1):
            cj = z3.RealVal(co[j]) - (kp if j == 0 else 0)
            rem = rem - cj * _cpow(zm, k - j)[0]
        v2, _ = smt.check(rng + [rem == 0], "c:k=%d spec z=-1" % k, "auto", 60)
        asc = [Fraction(0)] * (k + 2)
        asc[k + 1] = Fraction(1)
        for j in range(k + 1):
            asc[k - j] -= co[j] - (kap / 2 if j == 0 else 0)
        inside = schur_cohn(asc)
        ob.require(v1 != "sat" and v2 != "sat" and inside, "spec lemma failed for the published k=%d table (%s,%s,%s): transcription error in the harness" % (k, v1, v2, inside))
        if v1 == "unknown" or v2 == "unknown":
            ob.inconclusive("c:k=%d spec lemma" % k)
        else:
            ob.discharged("c:k=%d spec lemma" % k)
        ob.sample({"k": k, "spec_no_root_on_circle": [v1, v2], "schur_cohn_at_kappa_half": inside})
        # ---- code link ----
        for cls in ("XL_BOMD", "KSA_XL_BOMD"):
            md = _md(cls, k)
            a = _char_coeffs(md, cls, k, g)
            aD = z3.simplify(z3.substitute(a[0], (g, z3.RealVal(1))) - z3.substitute(a[0], (g, z3.RealVal(0))))  # d a_0 / d gamma = kappa_eff
            ob.require(z3.is_rational_value(aD), "kappa_eff not constant")
            keff = Fraction(aD.numerator_as_long(), aD.denominator_as_long())
            lab = "c:%s k=%d" % (cls, k)
            bad = None
            if not (0 < keff <= kap * (1 + Fraction(1, 10**9))):
                bad = "effective response gain kappa_eff=%.6f is outside (0, kappa=%.4f]" % (float(keff), float(kap))
            else:
                ob.discharged(lab + " gain in (0,kappa]")
                for j in range(k + 1):
                    exp = z3.RealVal(co[j]) - (z3.RealVal(keff) * (1 - g) if j == 0 else 0)
                    d = a[j] - exp
                    v, mdl = smt.prove(z3.And(d <= tol, d >= -tol), [g >= 0, g <= 1], lab + " a_%d" % j, "lra", 30)
                    if v == "sat":
                        bad = "coefficient of P(n-%d) differs from the published scheme" % j
                        break
                    ob.verdict(v, lab + " a_%d" % j)
            if bad:
                # replay: numerically unstable somewhere in the admissible range, or coefficient mismatch on the float code
                hit = None
                for cgam in (0.0, 0.05, 0.1, 0.2, 0.3, 0.4, 0.5, 0.6, 0.7, 0.8, 0.9):
                    if replay_stability(k, cls, cgam):
                        hit = cgam
                        break
                if hit is not None:
                    ob.violation("%s k=%d: %s; the executed recurrence has a characteristic root on/outside the unit circle at response eigenvalue gamma=%.2f" % (cls, k, bad, hit), {"module": "harness.C09", "func": "replay_stability", "args": {"k": k, "cls_name": cls, "gamma": hit}})
                elif replay_recurrence(k, 0, cls):
                    ob.violation("%s k=%d: %s (executed recurrence is not the published one; no instability found on the gamma grid)" % (cls, k, bad), {"module": "harness.C09", "func": "replay_recurrence", "args": {"k": k, "phase": 0, "cls_name": cls}})
                else:
                    raise HarnessError("code-link counterexample (%s k=%d: %s) did not reproduce" % (cls, k, bad))
    # sensitivity twin: an over-driven recurrence (kappa' = 3*kappa) must fail Schur-Cohn
    kap, al, *c = [Fraction(str(v)) for v in PUBLISHED[3]]
    co = [2 + al * c[0] - 3 * kap, al * c[1] - 1] + [al * c[j] for j in range(2, 4)]
    asc = [Fraction(0)] * 5
    asc[4] = Fraction(1)
    for j in range(4):
        asc[3 - j] -= co[j]
    ob.require(not schur_cohn(asc), "sensitivity twin: Schur-Cohn accepts an over-driven recurrence")


@obligation(PID, "d", title="shadow energy E(D=P,P) equals the SCF energy functional; drift-free moments of the coefficient table")
def ob_d(ob):
    from seqm.seqm_functions.energy import elec_energy_xl, elec_energy
    import seqm.MolecularDynamics as MD

    ob.encodes(elec_energy_xl, elec_energy, MD.XL_BOMD.__init__)
    ob.bound("2 molecules, 4x4 matrices, P and F symmetric symbolic, Hcore upper-triangular storage symbolic")
    n = 4
    P = S.sym_symmetric("P", n, batch=2)
    F = S.sym_symmetric("F", n, batch=2)
    Hc = S.sym("h", (2, n, n))
    with symbolic_factories():
        Exl = elec_energy_xl(P, P, F, Hc)
        E = elec_energy(P, F, Hc)
    # translator validation
    g = torch.Generator().manual_seed(2)
    Pc = torch.rand(2, n, n, generator=g)
    Pc = Pc + Pc.transpose(1, 2)
    Fc = torch.rand(2, n, n, generator=g)
    Fc = Fc + Fc.transpose(1, 2)
    Hcc = torch.rand(2, n, n, generator=g)
    env = {}
    for b in range(2):
        for i in range(n):
            for j in range(n):
                env["h_%d_%d_%d" % (b, i, j)] = Hcc[b, i, j].item()
                if j >= i:
                    env["P%d_%d_%d" % (b, i, j)] = Pc[b, i, j].item()
                    env["F%d_%d_%d" % (b, i, j)] = Fc[b, i, j].item()
    validate_close(ob, "elec_energy_xl", S.feval_tensor(Exl, env), elec_energy_xl(Pc, Pc, Fc, Hcc), 1e-10)
    for b in range(2):
        v, m = smt.prove(Exl.a[b] == E.a[b], [], "d:shadow energy mol %d" % b, "auto", 60)
        if v == "sat":
            if replay_shadow():
                ob.violation("elec_energy_xl(D=P,P,F,H) differs from elec_energy(P,F,H)", {"module": "harness.C09", "func": "replay_shadow", "args": {}})
            else:
                raise HarnessError("shadow-energy counterexample did not reproduce")
        else:
            ob.verdict(v, "d:shadow")
    # also: E(D,P) is linear in D with gradient F (forces use D): dE/dD_ij = F_ij
    D = S.sym_symmetric("D", n, batch=2)
    with symbolic_factories():
        E2 = elec_energy_xl(D, P, F, Hc)
    lin = E2.a[0] - sum(D.a[0, i, j] * F.a[0, i, j] for i in range(n) for j in range(n))
    dvars = [D.a[0, i, j] for i in range(n) for j in range(i, n)]
    alt = [z3.Real("Dalt_%d" % i) for i in range(len(dvars))]
    v, m = smt.prove(lin == z3.substitute(lin, *zip(dvars, alt)), [], "d:E linear in D with slope F", "auto", 60)
    ob.verdict(v, "d:linear")
    expect_refuted(ob, Exl.a[0] == E.a[0] + P.a[0, 0, 1], [], "perturbed shadow energy")
    # drift-free moments: sum c_j = 0 and sum j c_j = 0 from the live table
    for k in range(3, 10):
        md = _md("XL_BOMD", k)
        m_ = k + 1
        co = [Fraction(x) for x in md.coeff.detach().tolist()[:m_]]
        kap, al = Fraction(md.coeff_D), Fraction(md.alpha)
        c = [(co[0] - 2 + kap) / al, (co[1] + 1) / al] + [x / al for x in co[2:]]
        m0 = sum(c)
        m1 = sum(j * cj for j, cj in enumerate(c))
        cs = z3.Real("cs")
        v, _ = smt.prove(z3.And(cs * cs <= z3.RealVal("1e-16")), [cs == z3.RealVal(m0) + z3.RealVal(m1)], "d:moments k=%d" % k, "auto", 10)
        if v == "sat":
            ob.violation("XL-BOMD k=%d: dissipation coefficients do not satisfy sum c_j = 0 and sum j c_j = 0 (%.3e, %.3e)" % (k, float(m0), float(m1)), {"module": "harness.C09", "func": "replay_moments", "args": {"k": k}})
        else:
            ob.verdict(v, "d:moments")


def replay_moments(k):
    import seqm.MolecularDynamics as MD

    class ES(torch.nn.Module):
        def __init__(s, *a, **k):
            super().__init__()

    MD.esdriver = ES
    md = MD.XL_BOMD(damp=None, xl_bomd_params={"k": k}, seqm_parameters={"method": "AM1"}, timestep=0.5, Temp=0.0, output={"molid": [0], "prefix": "x", "h5": {}})
    c = md.coeffs[k][2:]
    m0, m1 = sum(c), sum(j * x for j, x in enumerate(c))
    print("replay moments k=%d: sum c = %g, sum j c = %g" % (k, m0, m1))
    return abs(m0) > 1e-9 or abs(m1) > 1e-9


def replay_shadow():
    from seqm.seqm_functions.energy import elec_energy_xl, elec_energy

    g = torch.Generator().manual_seed(2)
    P = torch.rand(2, 4, 4, generator=g)
    P = P + P.transpose(1, 2)
    F = torch.rand(2, 4, 4, generator=g)
    F = F + F.transpose(1, 2)
    H = torch.rand(2, 4, 4, generator=g)
    d = (elec_energy_xl(P, P, F, H) - elec_energy(P, F, H)).abs().max().item()
    print("replay shadow energy: |E_xl(D=P) - E_scf| = %.3e" % d)
    return d > 1e-10


def replay_fermi_padding():
    """float64, real Fermi_Q on a padded batch (a 4-orbital molecule next to H2 with 2 orbitals) at a high electronic
    temperature: the occupations of the physical orbitals of every molecule must add up to its number of occupied orbitals"""
    from seqm.seqm_functions.fermi_q import Fermi_Q

    g = torch.Generator().manual_seed(2)
    H = torch.zeros(2, 8, 8, dtype=torch.float64)
    A = torch.rand(4, 4, generator=g, dtype=torch.float64) - 0.5
    H[0, :4, :4] = A + A.T
    H[1, 0, 0], H[1, 4, 4], H[1, 0, 4], H[1, 4, 0] = -0.4, 0.3, 0.2, 0.2
    out = Fermi_Q(H, 40000.0, torch.tensor([2, 1]), torch.tensor([1, 0]), torch.tensor([0, 2]), 8.61739e-5, 0)
    Fe = out[4]
    norb = [4, 2]
    worst = 0.0
    for b in range(2):
        s = Fe[b, : norb[b]].sum().item()
        pad = Fe[b, norb[b] :].abs().max().item() if norb[b] < Fe.shape[1] else 0.0
        tr = out[0][b].diagonal().sum().item() / 2
        print("replay Fermi_Q molecule %d: sum of physical occupations %.6f (Nocc %d), largest padded occupation %.2e, tr(D)/2 %.6f" % (b, s, [2, 1][b], pad, tr))
        worst = max(worst, abs(s - [2, 1][b]), pad, abs(tr - [2, 1][b]))
    return worst > 1e-6


def replay_fermi_entropy():
    """float64, real Fermi_Q at 40000 K on a 4-orbital model: returned entropy vs -kB sum f ln f + (1-f) ln(1-f)"""
    import math
    from seqm.seqm_functions.fermi_q import Fermi_Q

    g = torch.Generator().manual_seed(2)
    H = torch.zeros(1, 4, 4, dtype=torch.float64)
    A = torch.rand(4, 4, generator=g, dtype=torch.float64) - 0.5
    H[0] = A + A.T
    kB = 8.61739e-5
    out = Fermi_Q(H, 40000.0, torch.tensor([2]), torch.tensor([1]), torch.tensor([0]), kB, 0)
    f = out[4][0]
    want = -kB * sum(x * math.log(x) + (1 - x) * math.log(1 - x) for x in f.tolist() if 1e-14 < x < 1 - 1e-14)
    print("replay Fermi_Q entropy: returned %.6e, -kB sum f ln f + (1-f) ln(1-f) = %.6e" % (out[1][0].item(), want))
    return abs(out[1][0].item() - want) > 1e-12


class _StopFermi(Exception):
    pass


@obligation(PID, "e", title="electronic-temperature occupations (Krylov/KSA variant) in a padded batch: whenever the chemical-potential iteration of Fermi_Q stops, the occupations of each molecule's own orbitals add up to its number of occupied orbitals within the tolerance, and padded orbital slots carry no occupation — for arbitrary orbital energies and occupation values")
def ob_e(ob):
    from seqm.seqm_functions import fermi_q as FQ

    ob.encodes(FQ.Fermi_Q)
    ob.bound("2 molecules x 4 orbital slots (molecule 1 has 2 physical orbitals and 2 padded slots); orbital energies symbolic; the Fermi function is uninterpreted: every evaluation returns fresh values in (0,1); exits of the Newton loop after 1 and 2 (thorough: also 3) evaluations are explored")
    ob.assume("eigen-solver replaced by a recorder (eigenvectors = identity); density/entropy assembly after the loop is executed but only occupations are checked")
    E = S.reals("e", (2, 4))
    nev = 2 if ob.tier != "thorough" else 3
    calls = [0]
    fsyms = []
    saved = (FQ.sym_eig_trunc, torch.sigmoid)
    FQ.sym_eig_trunc = lambda H0, nHeavy, nHydro, Nocc, eig_only=False: (SymTensor(E.copy()), torch.eye(4, dtype=torch.float64).repeat(2, 1, 1))

    def sigmoid(x):
        calls[0] += 1
        if calls[0] > nev:
            raise _StopFermi()
        f = S.reals("f%d" % calls[0], (2, 4))
        fsyms.append(f)
        return SymTensor(f.copy())

    torch.sigmoid = sigmoid

    def fn():
        calls[0] = 0
        del fsyms[:]
        try:
            with symbolic_factories(bool_symbolic=True):
                out = FQ.Fermi_Q(torch.zeros(2, 8, 8, dtype=torch.float64), 40000.0, torch.tensor([2, 1]), torch.tensor([1, 0]), torch.tensor([0, 2]), 8.61739e-5, 0)
        except _StopFermi:
            return None
        Fe, Sent = out[4], out[1]
        Fe = Fe.a.copy() if isinstance(Fe, SymTensor) else S.to_obj(Fe)
        Sent = Sent.a.copy() if isinstance(Sent, SymTensor) else S.to_obj(Sent)
        # the entropy specification is built inside the same execution so that it shares the registry of ln applications:
        # -kB sum_k [f ln f + (1-f) ln(1-f)] over the fractionally occupied physical orbitals (per spin)
        kB_, eps_ = S.rv(8.61739e-5), S.rv(1e-14)
        spec = []
        for b in range(2):
            tot = z3.RealVal(0)
            for k in range(4):
                f = Fe[b, k]
                inside = z3.And(f > eps_, 1 - f > eps_)
                p_ = z3.If(inside, f, z3.RealVal("1/2"))
                term = -kB_ * (p_ * S.e_log(p_) + (1 - p_) * S.e_log(1 - p_))
                tot = tot + z3.If(inside, term, z3.RealVal(0))
            spec.append(tot)
        logs = [(v_, x_) for (fn_, _), (v_, x_) in S.ST.exps.items() if fn_ == "log"]
        congr = [z3.Implies(logs[i][1] == logs[j][1], logs[i][0] == logs[j][0]) for i in range(len(logs)) for j in range(i + 1, len(logs))]
        return (Fe, calls[0], Sent, spec, congr)

    rng = [z3.And(z3.Real("f%d_%d_%d" % (c, b, k)) > 0, z3.Real("f%d_%d_%d" % (c, b, k)) < 1) for c in range(1, nev + 1) for b in range(2) for k in range(4)]
    try:
        ex = Explorer(assumptions=rng, piecewise="ite", kind="nra", max_paths=80)
        res = ex.run(fn)
    finally:
        FQ.sym_eig_trunc, torch.sigmoid = saved
    ob.paths += ex.paths
    exits = [(pc, side, r) for pc, side, r in res if r is not None]
    ob.require(len(exits) >= 2, "expected loop exits after the first and the second evaluation, got %d returning paths" % len(exits))
    tol = S.rv(1e-9)  # the float the code compares with
    nocc, norb = [2, 1], [4, 2]
    absz = lambda e: z3.If(e >= 0, e, -e)
    for pc, side, (Fe, ncalls, Sent, spec, congr) in exits:
        base = rng + list(pc) + list(side)
        for b in range(2):
            tot = spec[b]
            lab = "e:exit after %d evaluation(s), molecule %d: entropy is -kB sum f ln f + (1-f) ln(1-f) (per spin)" % (ncalls, b)
            v, m = smt.prove(Sent.reshape(-1)[b] == tot, base + congr, lab, "nra", 60)
            if v == "sat" and os.environ.get("VERIF_DEBUG"):
                print("DEBUG entropy: code", m.eval(Sent.reshape(-1)[b], model_completion=True), "spec", m.eval(tot, model_completion=True), "ncalls", ncalls, [str(z3.simplify(x))[:60] for x in Fe[b]])
            if v == "sat":
                if replay_fermi_entropy():
                    ob.violation("Fermi_Q: the electronic entropy returned is not -kB sum [f ln f + (1-f) ln(1-f)] per spin: its consumer applies the spin factor 2 itself, so the -T S term of the shadow free energy is miscounted at elevated electronic temperature", {"module": "harness.C09", "func": "replay_fermi_entropy", "args": {}})
                    return
                raise HarnessError("entropy counterexample did not reproduce (%s)" % lab)
            ob.verdict(v, lab)
        for b in range(2):
            claims = [("sum of physical occupations = Nocc", absz(sum(Fe[b, k] for k in range(norb[b])) - nocc[b]) <= tol)]
            claims += [("padded slot %d empty" % k, Fe[b, k] == 0) for k in range(norb[b], 4)]
            for name, c in claims:
                lab = "e:exit after %d evaluation(s), molecule %d: %s" % (ncalls, b, name)
                v, m = smt.prove(c, base, lab, "nra", 60)
                if v == "sat":
                    if replay_fermi_padding():
                        ob.violation("Fermi_Q: %s fails when the chemical-potential iteration stops (exit after %d evaluation(s)): padded orbital slots take part in the electron count, so a padded molecule loses electrons at elevated electronic temperature" % (name, ncalls), {"module": "harness.C09", "func": "replay_fermi_padding", "args": {}})
                        return
                    raise HarnessError("Fermi_Q counterexample did not reproduce (%s)" % lab)
                ob.verdict(v, lab)
    x, y = z3.Reals("x y")
    expect_refuted(ob, x == 1, [x + y == 1, y > 0], "twin: an occupation lost to a padded slot is noticed", "nra")


def replay_xl_kernel(**kw):
    from . import krylov as K

    return K.replay_kernel(**kw)


@obligation(PID, "f", title="rank-m kernel update of the Krylov XL-BOMD variant (EnergyXL.forward, max_rank branch) is the published one: the Krylov vectors are orthonormal, start along D - P and stay in the Krylov space of the response; the small system solved is the normal-equation system of min |sum x_q W_q - (D - P)| with W_q = response(V_q) - V_q; the second time derivative returned is -sum x_q V_q = (I - response)^-1 (D - P) on that space; the reported relative residual is that of the rank-m model — for every residual and every linear response")
def ob_f(ob):
    from seqm.dynamics import xlbomd as XB
    from . import krylov as K

    ob.encodes(XB.EnergyXL.forward)
    ob.bound("max_rank 2 and 3 (thorough: also a batch of 2 molecules at max_rank 2); symmetric matrices confined to a 2x2 block (3-dimensional space, so rank 3 is the full space); residual D - P: 3 symbolic reals per molecule; response: an arbitrary linear map on that space (9 symbolic reals per molecule); err_threshold 0: every early exit (rank-m model exact) is explored as its own path")
    ob.assume("hcore, fock, Fermi_Q, G, Canon_DM_PRT and the energy terms are recorders: Fermi_Q returns P + (symbolic residual), Canon_DM_PRT(G(v)) returns the symbolic linear map applied to v")
    ob.assume("torch.linalg.solve(A, b) is a vector of fresh unknowns constrained by A x = b (A non-singular is torch's precondition); claims are identities in those unknowns")
    ob.assume("no breakdown: D != P and every normalisation divides by a non-zero norm (0/0 is NaN in the code)")
    ob.assume("a branch whose feasibility the solver cannot settle within 10 s is explored as feasible (over-approximation)")
    ob.note("sign: with J = response - I the published equation of motion is d2P/dt2 = -omega^2 J^-1 (D - P); without response (J = -I) the claim reduces to d2P/dt2 = omega^2 (D - P)")
    cfg = [(2, 1), (3, 1)] + ([(2, 2)] if ob.tier == "thorough" else [])
    K.obligation_body(ob, "xl", cfg, 30 if ob.tier != "thorough" else 120)
