"""C06 — energies equal the published NDDO model (engine E1/E3; spec transcribed independently of the code)."""
import math
from fractions import Fraction

from .common import *  # noqa: F401,F403
from .common import S, smt, z3, np, torch, SymTensor, symbolic_factories, Explorer, obligation, HarnessError, expect_refuted, expect_feasible, validate_close, molecule, quiet

PID = "C06"

# packed index of an orbital pair (lower triangle, row major): (0,0),(1,0),(1,1),(2,0),...
TRI = [(i, j) for i in range(4) for j in range(i + 1)]
PK = {}
for _k, (_i, _j) in enumerate(TRI):
    PK[(_i, _j)] = PK[(_j, _i)] = _k


# ------------------------------------------------------------------------------------------------
# a: isolated-atom electronic energy
# ------------------------------------------------------------------------------------------------


def _config(tore):
    ios = min(int(tore), 2)
    iop = int(tore) - ios
    return ios, iop


def eisol_spec(tore, uss, upp, gss, gpp, gsp, gp2, hsp):
    """published (MOPAC CALPAR/EISOL) one-centre energy of the s^ios p^iop ground configuration"""
    ios, iop = _config(tore)
    L = min(iop, 6 - iop)
    half = Fraction(1, 2)
    return (ios * uss + iop * upp + max(ios - 1, 0) * gss + ios * iop * gsp + (Fraction(iop * (iop - 1), 2) + half * Fraction(L * (L - 1), 2)) * gp2 - half * Fraction(L * (L - 1), 2) * gpp - iop * hsp)


MAIN_GROUP = [1, 3, 4, 5, 6, 7, 8, 9, 11, 12, 13, 14, 15, 16, 17, 31, 32, 33, 34, 35, 49, 50, 51, 52, 53]


def replay_eisol(Z):
    from seqm.seqm_functions.energy import elec_energy_isolated_atom
    from seqm.seqm_functions.constants import Constants

    const = Constants()
    g = torch.Generator().manual_seed(Z)
    p = torch.rand(7, generator=g) * 10 - 5
    E = elec_energy_isolated_atom(const, torch.tensor([Z]), *[x.reshape(1) for x in p]).item()
    ref = float(eisol_spec(const.tore[Z].item(), *[Fraction(x.item()) for x in p]))
    print("replay isolated atom Z=%d: code %.10f  spec %.10f" % (Z, E, ref))
    return abs(E - ref) > 1e-9


@obligation(PID, "a", title="isolated-atom energy equals the published configuration formula for every parameter value (all main-group elements of the sp tables)")
def ob_a(ob):
    from seqm.seqm_functions.energy import elec_energy_isolated_atom
    from seqm.seqm_functions.constants import Constants

    ob.encodes(elec_energy_isolated_atom, Constants.__init__)
    ob.bound("Z in %s enumerated; U_ss, U_pp, g_ss, g_pp, g_sp, g_p2, h_sp symbolic reals (linear arithmetic)" % MAIN_GROUP)
    const = Constants()
    names = ["uss", "upp", "gss", "gpp", "gsp", "gp2", "hsp"]
    v = [z3.Real(n) for n in names]
    Zt = torch.tensor(MAIN_GROUP)
    args = [SymTensor(np.array([x] * len(MAIN_GROUP), dtype=object)) for x in v]
    with symbolic_factories():
        E = elec_energy_isolated_atom(const, Zt, *args)
    for k, Z in enumerate(MAIN_GROUP):
        spec = eisol_spec(const.tore[Z].item(), *v)
        verdict, m = smt.prove(E.a[k] == spec, [], "a:Z=%d" % Z, "lra", 30)
        if verdict == "sat":
            if replay_eisol(Z):
                ob.violation("isolated-atom energy of Z=%d differs from the published configuration formula" % Z, {"module": "harness.C06", "func": "replay_eisol", "args": {"Z": Z}})
            else:
                raise HarnessError("isolated atom counterexample Z=%d did not reproduce" % Z)
        else:
            ob.verdict(verdict, "a:Z=%d" % Z)
    expect_refuted(ob, E.a[4] == eisol_spec(const.tore[6].item(), *v) + v[6], [], "carbon with h_sp coefficient -1 instead of -2", "lra")
    ob.sample({"Z": 6, "code_term": str(z3.simplify(E.a[4]))})


# ------------------------------------------------------------------------------------------------
# b: core-core repulsion
# ------------------------------------------------------------------------------------------------

PAIRS = [(7, 1), (8, 1), (6, 1), (9, 1), (16, 1), (1, 1), (6, 6), (8, 6), (7, 6), (7, 7), (8, 7), (8, 8), (9, 6), (17, 6), (16, 8)]


def core_core_spec(method, zi, zj, ti, tj, R, gam, al_i, al_j, exp, gauss_i, gauss_j):
    """published MNDO / AM1 / PM3 core-core repulsion (R in Angstrom, gam=(ss|ss) in eV)
    MNDO (Dewar & Thiel 1977): Z_A Z_B (ss|ss) [1 + e^{-alpha_A R} + e^{-alpha_B R}]; for N-H and O-H the heavy atom's
    exponential is multiplied by R.  AM1/PM3 add Z_A Z_B / R * sum of Gaussians K exp(-L (R-M)^2) of both atoms."""
    fa = exp(-al_i * R)
    if zi in (7, 8) and zj == 1:
        fa = fa * R
    e = ti * tj * gam * (1 + fa + exp(-al_j * R))
    if method in ("AM1", "PM3"):
        gs = 0
        for (K, L, M) in list(gauss_i) + list(gauss_j):
            gs = gs + K * exp(-L * (R - M) * (R - M))
        e = e + ti * tj / R * gs
    return e


def replay_core_core(method, zi, zj):
    from seqm.seqm_functions.energy import pair_nuclear_energy
    from seqm.seqm_functions.constants import Constants, a0

    const = Constants()
    ng = 2 if method == "PM3" else 4
    g = torch.Generator().manual_seed(zi * 100 + zj)
    alpha = torch.rand(2, generator=g) * 2 + 1
    K = torch.rand(2, ng, generator=g) - 0.5
    L = torch.rand(2, ng, generator=g) * 5 + 1
    M = torch.rand(2, ng, generator=g) * 2 + 0.5
    gam = torch.rand(1, generator=g) * 10
    worst = 0.0
    for R in (0.7, 1.1, 1.9, 3.3):
        par = (alpha,) if method == "MNDO" else (alpha, K, L, M)
        E = pair_nuclear_energy(torch.tensor([zi, zj]), const, 1, torch.tensor([zi]), torch.tensor([zj]), torch.tensor([0]), torch.tensor([1]), torch.tensor([R / a0]), None, None, None, None, gam=gam, method=method, parameters=par).item()
        gi = [(K[0, k].item(), L[0, k].item(), M[0, k].item()) for k in range(ng)]
        gj = [(K[1, k].item(), L[1, k].item(), M[1, k].item()) for k in range(ng)]
        ref = core_core_spec(method, zi, zj, const.tore[zi].item(), const.tore[zj].item(), R, gam.item(), alpha[0].item(), alpha[1].item(), math.exp, gi, gj)
        worst = max(worst, abs(E - ref))
    print("replay core-core %s Z=(%d,%d): max |code - published formula| = %.3e" % (method, zi, zj, worst))
    return worst > 1e-8


@obligation(PID, "b", title="pair_nuclear_energy equals the published MNDO/AM1/PM3 core-core formula incl. the N-H/O-H rule and Gaussian terms, for every distance and parameter value")
def ob_b(ob):
    from seqm.seqm_functions.energy import pair_nuclear_energy
    from seqm.seqm_functions.constants import Constants, a0

    ob.encodes(pair_nuclear_energy)
    ob.bound("element pairs %s; distance R>0, alpha, K/L/M (2 Gaussians for PM3, 4 for AM1), (ss|ss) symbolic reals; exp Ackermannised with congruence (both sides must apply it to provably equal arguments)" % PAIRS)
    const = Constants()
    a0r = S.rv(a0)
    for method in ("MNDO", "AM1", "PM3"):
        S.reset()
        ng = 2 if method == "PM3" else 4
        npairs = len(PAIRS)
        Z = torch.tensor([z for p in PAIRS for z in p])
        idxi = torch.arange(0, 2 * npairs, 2)
        idxj = idxi + 1
        ni, nj = Z[idxi], Z[idxj]
        R = [z3.Real("R%d" % p) for p in range(npairs)]
        alpha = S.reals("al", (2 * npairs,))
        K, L, M = S.reals("K", (2 * npairs, ng)), S.reals("L", (2 * npairs, ng)), S.reals("M", (2 * npairs, ng))
        gam = S.reals("gam", (npairs,))
        par = (SymTensor(alpha),) if method == "MNDO" else (SymTensor(alpha), SymTensor(K), SymTensor(L), SymTensor(M))
        rij = SymTensor(np.array([R[p] / a0r for p in range(npairs)], dtype=object))
        with symbolic_factories():
            E = pair_nuclear_energy(Z, const, 1, ni, nj, idxi, idxj, rij, None, None, None, None, gam=SymTensor(gam), method=method, parameters=par)
        for p, (zi, zj) in enumerate(PAIRS):
            i, j = 2 * p, 2 * p + 1
            gi = [(K[i, k], L[i, k], M[i, k]) for k in range(ng)]
            gj = [(K[j, k], L[j, k], M[j, k]) for k in range(ng)]
            # the code's distance in Angstrom is (R/a0)*a0: hand the spec the same real number
            Rk = R[p]
            spec = core_core_spec(method, zi, zj, S.rv(const.tore[zi].item()), S.rv(const.tore[zj].item()), Rk, gam[p], alpha[i], alpha[j], S.e_exp, gi, gj)
            lab = "b:%s Z=(%d,%d)" % (method, zi, zj)
            v, m = smt.prove(E.a[p] == spec, [Rk > 0], lab, "auto", 60)
            if v == "sat":
                if replay_core_core(method, zi, zj):
                    ob.violation("%s core-core energy of the pair Z=(%d,%d) differs from the published formula" % (method, zi, zj), {"module": "harness.C06", "func": "replay_core_core", "args": {"method": method, "zi": zi, "zj": zj}})
                else:
                    raise HarnessError("core-core counterexample %s did not reproduce (exp arguments not matched?)" % lab)
            else:
                ob.verdict(v, lab)
        if method == "AM1":
            # sensitivity twin: the C-H pair must NOT follow the N-H/O-H rule
            p = PAIRS.index((6, 1))
            i, j = 2 * p, 2 * p + 1
            gi = [(K[i, k], L[i, k], M[i, k]) for k in range(ng)]
            gj = [(K[j, k], L[j, k], M[j, k]) for k in range(ng)]
            wrong = core_core_spec(method, 7, 1, S.rv(4.0), S.rv(1.0), R[p], gam[p], alpha[i], alpha[j], S.e_exp, gi, gj)
            expect_refuted(ob, E.a[p] == wrong, [R[p] > 0], "C-H treated with the N-H rule")
            ob.sample({"method": method, "pair": [6, 1], "exp_terms": len(S.ST.exps)})


# ------------------------------------------------------------------------------------------------
# c/d: Fock matrix vs the 4-index NDDO definition
# ------------------------------------------------------------------------------------------------


def one_center_eri(g):
    """(mu nu|la si) on one atom from gss,gsp,gpp,gp2,hsp (real s,px,py,pz); g: dict of terms"""
    hpp = (g["gpp"] - g["gp2"]) / 2
    T = {}
    for mu in range(4):
        for nu in range(4):
            for la in range(4):
                for si in range(4):
                    v = 0
                    a, b, c, d = mu, nu, la, si
                    if a == b and c == d:
                        if a == 0 and c == 0:
                            v = g["gss"]
                        elif a == 0 or c == 0:
                            v = g["gsp"]
                        elif a == c:
                            v = g["gpp"]
                        else:
                            v = g["gp2"]
                    elif a != b and {a, b} == {c, d}:
                        v = g["hsp"] if 0 in (a, b) else hpp
                    T[(mu, nu, la, si)] = v
    return T


def fock_reference(nat, Hfull, Ptot, Pspin, xfac, pairs, w, gpar, norb_of):
    """F_mu nu = H_mu nu + sum_{la si} [ Ptot_{la si} (mu nu|la si) - xfac * Pspin_{la si} (mu la|nu si) ]
    with NDDO integrals: one-centre from gpar, two-centre from packed w[p][kl(A), kl(B)] (A = first atom of the pair)."""
    n = 4 * nat
    F = np.empty((n, n), dtype=object)
    for i in range(n):
        for j in range(n):
            F[i, j] = Hfull[i][j]
    zero = z3.RealVal(0)
    for A in range(nat):
        T = one_center_eri(gpar[A])
        o = 4 * A
        for mu in range(4):
            for nu in range(4):
                acc = zero
                for la in range(4):
                    for si in range(4):
                        if not (isinstance(T[(mu, nu, la, si)], int)):
                            acc = acc + Ptot[o + la][o + si] * T[(mu, nu, la, si)]
                        if not (isinstance(T[(mu, la, nu, si)], int)):
                            acc = acc - xfac * Pspin[o + la][o + si] * T[(mu, la, nu, si)]
                F[o + mu, o + nu] = F[o + mu, o + nu] + acc
    for p, (A, B) in enumerate(pairs):
        oa, ob_ = 4 * A, 4 * B
        eri = lambda mu, nu, la, si: w[p][PK[(mu, nu)]][PK[(la, si)]]
        for mu in range(4):
            for nu in range(4):
                F[oa + mu, oa + nu] = F[oa + mu, oa + nu] + sum(Ptot[ob_ + la][ob_ + si] * eri(mu, nu, la, si) for la in range(4) for si in range(4))
                F[ob_ + mu, ob_ + nu] = F[ob_ + mu, ob_ + nu] + sum(Ptot[oa + la][oa + si] * eri(la, si, mu, nu) for la in range(4) for si in range(4))
        for mu in range(4):
            for la in range(4):
                v = -xfac * sum(Pspin[oa + nu][ob_ + si] * eri(mu, nu, la, si) for nu in range(4) for si in range(4))
                F[oa + mu, ob_ + la] = F[oa + mu, ob_ + la] + v
                F[ob_ + la, oa + mu] = F[ob_ + la, oa + mu] + v
    return F


def _neutralising_charge(species):
    """charge per molecule that makes the valence electron count even (the Fock build does not depend on it)"""
    tore = {0: 0, 1: 1, 6: 4, 7: 5, 8: 6, 9: 7}
    return torch.tensor([float(sum(tore[z] for z in row) % 2) for row in species])


def _setup_fock(species):
    """masks and index maps from the real Parser for a small (padded) batch; symbolic w, P, H, one-centre parameters"""
    nmol, molsize = len(species), len(species[0])
    coords = [[[1.3 * a + 0.1 * b, 0.4 * a * a - 0.2 * b, 0.3 * a + 0.7 * b] for a in range(molsize)] for b in range(nmol)]
    mol, p, const = molecule(species, coords, "AM1", charges=_neutralising_charge(species))
    Z = mol.Z
    natoms = Z.shape[0]
    npairs = mol.idxi.shape[0]
    n = 4 * molsize
    # physical orbitals per molecule
    phys = []
    for b in range(nmol):
        idx = []
        for a, z in enumerate(species[b]):
            if z > 1:
                idx += [4 * a + k for k in range(4)]
            elif z == 1:
                idx += [4 * a]
        phys.append(idx)
    # w with the zero structure of the real integrals: XX full 10x10, XH first column, HH (0,0)
    w = np.full((npairs, 10, 10), z3.RealVal(0), dtype=object)
    for pidx in range(npairs):
        zi, zj = int(mol.ni[pidx]), int(mol.nj[pidx])
        for k in range(10 if zi > 1 else 1):
            for l in range(10 if zj > 1 else 1):
                w[pidx, k, l] = z3.Real("w%d_%d_%d" % (pidx, k, l))
    g = {k: S.reals(k, (natoms,)) for k in ("gss", "gpp", "gsp", "gp2", "hsp")}
    return mol, const, Z, natoms, npairs, n, phys, w, g


def _sym_density(name, nmol, n, phys):
    P = np.full((nmol, n, n), z3.RealVal(0), dtype=object)
    for b in range(nmol):
        for ii, i in enumerate(phys[b]):
            for j in phys[b][ii:]:
                P[b, i, j] = P[b, j, i] = z3.Real("%s%d_%d_%d" % (name, b, i, j))
    return P


def _sym_hcore_blocks(nmol, molsize, phys):
    """M in packed per-atom-pair layout (nmol*molsize^2,4,4): upper-triangular storage of a symmetric H"""
    n = 4 * molsize
    Hfull = np.full((nmol, n, n), z3.RealVal(0), dtype=object)
    for b in range(nmol):
        for ii, i in enumerate(phys[b]):
            for j in phys[b][ii:]:
                Hfull[b, i, j] = Hfull[b, j, i] = z3.Real("H%d_%d_%d" % (b, i, j))
    M = np.full((nmol * molsize * molsize, 4, 4), z3.RealVal(0), dtype=object)
    for b in range(nmol):
        for A in range(molsize):
            for B in range(molsize):
                for mu in range(4):
                    for nu in range(4):
                        i, j = 4 * A + mu, 4 * B + nu
                        if i <= j:  # only the upper triangle of the full matrix is stored
                            M[(b * molsize + A) * molsize + B, mu, nu] = Hfull[b, i, j]
    return Hfull, M


def replay_fock(species, uhf=False):
    """float64: real hcore + fock (or fock_u_batch) on a real molecule with a random symmetric density vs the dense NDDO reference"""
    from seqm.seqm_functions.hcore import hcore
    from seqm.seqm_functions.fock import fock
    from seqm.seqm_functions.fock_u_batch import fock_u_batch

    nmol, molsize = len(species), len(species[0])
    coords = [[[1.3 * a + 0.1 * b, 0.4 * a * a - 0.2 * b, 0.3 * a + 0.7 * b] for a in range(molsize)] for b in range(nmol)]
    mol, p, const = molecule(species, coords, "AM1", charges=_neutralising_charge(species), UHF=uhf)
    with quiet():
        M, w, *_ = hcore(mol)
    pr = mol.parameters
    n = 4 * molsize
    g = torch.Generator().manual_seed(3)
    phys = []
    for b in range(nmol):
        idx = []
        for a, z in enumerate(species[b]):
            idx += [4 * a + k for k in range(4)] if z > 1 else ([4 * a] if z == 1 else [])
        phys.append(idx)

    def randP():
        P = torch.zeros(nmol, n, n)
        for b in range(nmol):
            A = torch.rand(len(phys[b]), len(phys[b]), generator=g)
            A = A + A.T
            for ii, i in enumerate(phys[b]):
                for jj, j in enumerate(phys[b]):
                    P[b, i, j] = A[ii, jj]
        return P

    args = (mol.maskd, mol.mask, mol.idxi, mol.idxj, w.detach(), torch.tensor([0]), pr["g_ss"], pr["g_pp"], pr["g_sp"], pr["g_p2"], pr["h_sp"], "AM1", pr["s_orb_exp_tail"], pr["p_orb_exp_tail"], pr["d_orb_exp_tail"], mol.Z, pr["F0SD"], pr["G2SD"])
    Hfull = M.detach().reshape(nmol, molsize, molsize, 4, 4).transpose(2, 3).reshape(nmol, n, n)
    Hfull = Hfull.triu() + Hfull.triu(1).transpose(1, 2)
    worst = 0.0
    atom_of = {}
    k = 0
    for b in range(nmol):
        for a, z in enumerate(species[b]):
            if z > 0:
                atom_of[(b, a)] = k
                k += 1
    if uhf:
        Pa, Pb = randP(), randP()
        F = fock_u_batch(nmol, molsize, torch.stack([Pa, Pb], dim=1), M.detach(), *args)
        spins = [(Pa + Pb, Pa, 1.0, F[:, 0]), (Pa + Pb, Pb, 1.0, F[:, 1])]
    else:
        P = randP()
        F = fock(nmol, molsize, P.clone(), M.detach(), *args)
        spins = [(P, P, 0.5, F)]
    for Ptot, Pspin, xfac, Fc in spins:
        for b in range(nmol):
            nat = molsize
            gpar = []
            for a in range(molsize):
                if (b, a) in atom_of:
                    t = atom_of[(b, a)]
                    gpar.append({"gss": pr["g_ss"][t].item(), "gpp": pr["g_pp"][t].item(), "gsp": pr["g_sp"][t].item(), "gp2": pr["g_p2"][t].item(), "hsp": pr["h_sp"][t].item()})
                else:
                    gpar.append({"gss": 0.0, "gpp": 0.0, "gsp": 0.0, "gp2": 0.0, "hsp": 0.0})
            pairs, wl = [], []
            inv = {v: k_ for k_, v in atom_of.items()}
            for pidx in range(mol.idxi.shape[0]):
                bi, ai = inv[int(mol.idxi[pidx])]
                bj, aj = inv[int(mol.idxj[pidx])]
                if bi == b:
                    pairs.append((ai, aj))
                    wl.append(w[pidx].detach().tolist())
            Fref = _fock_reference_float(nat, Hfull[b].tolist(), Ptot[b].tolist(), Pspin[b].tolist(), xfac, pairs, wl, gpar)
            for i in phys[b]:
                for j in phys[b]:
                    worst = max(worst, abs(Fc[b, i, j].item() - Fref[i][j]))
    print("replay fock (%s) species=%s: max |F_code - F_NDDO reference| on physical orbitals = %.3e" % ("UHF" if uhf else "RHF", species, worst))
    return worst > 1e-9


def _fock_reference_float(nat, H, Ptot, Pspin, xfac, pairs, w, gpar):
    n = 4 * nat
    F = [[H[i][j] for j in range(n)] for i in range(n)]
    for A in range(nat):
        T = one_center_eri(gpar[A])
        o = 4 * A
        for mu in range(4):
            for nu in range(4):
                acc = 0.0
                for la in range(4):
                    for si in range(4):
                        acc += Ptot[o + la][o + si] * T[(mu, nu, la, si)] - xfac * Pspin[o + la][o + si] * T[(mu, la, nu, si)]
                F[o + mu][o + nu] += acc
    for p, (A, B) in enumerate(pairs):
        oa, ob_ = 4 * A, 4 * B
        eri = lambda mu, nu, la, si: w[p][PK[(mu, nu)]][PK[(la, si)]]
        for mu in range(4):
            for nu in range(4):
                F[oa + mu][oa + nu] += sum(Ptot[ob_ + la][ob_ + si] * eri(mu, nu, la, si) for la in range(4) for si in range(4))
                F[ob_ + mu][ob_ + nu] += sum(Ptot[oa + la][oa + si] * eri(la, si, mu, nu) for la in range(4) for si in range(4))
        for mu in range(4):
            for la in range(4):
                v = -xfac * sum(Pspin[oa + nu][ob_ + si] * eri(mu, nu, la, si) for nu in range(4) for si in range(4))
                F[oa + mu][ob_ + la] += v
                F[ob_ + la][oa + mu] += v
    return F


def _check_fock(ob, species, uhf):
    from seqm.seqm_functions.fock import fock
    from seqm.seqm_functions.fock_u_batch import fock_u_batch
    from seqm.seqm_functions.hcore import hcore

    S.reset()
    mol, const, Z, natoms, npairs, n, phys, w, g = _setup_fock(species)
    nmol, molsize = len(species), len(species[0])
    # translator validation of the assumed zero structure of w on the real integrals
    with quiet():
        Mreal, wreal, *_ = hcore(mol)
    for pidx in range(npairs):
        for k in range(10):
            for l in range(10):
                if z3.is_rational_value(w[pidx, k, l]) and abs(wreal[pidx, k, l].item()) > 0:
                    raise HarnessError("assumed zero structure of w violated at pair %d (%d,%d)" % (pidx, k, l))
    Hfull, M = _sym_hcore_blocks(nmol, molsize, phys)
    targs = (mol.maskd, mol.mask, mol.idxi, mol.idxj, SymTensor(w), torch.tensor([0]), SymTensor(g["gss"]), SymTensor(g["gpp"]), SymTensor(g["gsp"]), SymTensor(g["gp2"]), SymTensor(g["hsp"]), "AM1", None, None, None, Z, None, None)
    if uhf:
        Pa, Pb = _sym_density("Pa", nmol, n, phys), _sym_density("Pb", nmol, n, phys)
        with symbolic_factories():
            F = fock_u_batch(nmol, molsize, SymTensor(np.stack([Pa, Pb], axis=1)), SymTensor(M), *targs)
        spins = [("alpha", Pa + Pb, Pa, z3.RealVal(1), F.a[:, 0]), ("beta", Pa + Pb, Pb, z3.RealVal(1), F.a[:, 1])]
    else:
        P = _sym_density("P", nmol, n, phys)
        with symbolic_factories():
            F = fock(nmol, molsize, SymTensor(P.copy()), SymTensor(M), *targs)
        spins = [("rhf", P, P, z3.RealVal(Fraction(1, 2)), F.a)]
    atom_of = {}
    k = 0
    for b in range(nmol):
        for a, z in enumerate(species[b]):
            if z > 0:
                atom_of[(b, a)] = k
                k += 1
    inv = {v: k_ for k_, v in atom_of.items()}
    zero_g = {"gss": 0, "gpp": 0, "gsp": 0, "gp2": 0, "hsp": 0}
    nbad = 0
    for name, Ptot, Pspin, xfac, Fc in spins:
        for b in range(nmol):
            gpar = [({kk: g[kk][atom_of[(b, a)]] for kk in g} if (b, a) in atom_of else zero_g) for a in range(molsize)]
            pairs, wl = [], []
            for pidx in range(npairs):
                bi, ai = inv[int(mol.idxi[pidx])]
                bj, aj = inv[int(mol.idxj[pidx])]
                if bi == b:
                    pairs.append((ai, aj))
                    wl.append(w[pidx])
            Fref = fock_reference(molsize, Hfull[b], Ptot[b], Pspin[b], xfac, pairs, wl, gpar, None)
            for i in range(n):
                for j in range(n):
                    lab = "%s %s mol %d F[%d,%d]" % (species, name, b, i, j)
                    if i in phys[b] and j in phys[b]:
                        claim = Fc[b, i, j] == Fref[i, j]
                    else:
                        continue
                    v, m = smt.prove(claim, [], lab, "auto", 30)
                    if v == "sat":
                        nbad += 1
                        if nbad == 1:
                            if replay_fock(species, uhf):
                                ob.violation("%s Fock element [%d,%d] of molecule %d (%s) differs from H + J[P] - K[P] of the NDDO definition" % ("UHF " + name if uhf else "RHF", i, j, b, species), {"module": "harness.C06", "func": "replay_fock", "args": {"species": species, "uhf": uhf}})
                            else:
                                raise HarnessError("fock counterexample did not reproduce: %s" % lab)
                    else:
                        ob.verdict(v, lab)
            # symmetry of F and row isolation (no variable of another molecule)
            other = {str(x) for bb in range(nmol) if bb != b for x in np.asarray(Ptot[bb]).reshape(-1) if not z3.is_rational_value(x)}
            leak = False
            for i in phys[b]:
                for j in phys[b]:
                    if {str(x) for x in S.free_vars(Fc[b, i, j])} & other:
                        leak = True
            if leak:
                ob.violation("Fock matrix of molecule %d depends on another molecule's density (%s)" % (b, species), {"module": "harness.C06", "func": "replay_fock", "args": {"species": species, "uhf": uhf}})
            else:
                ob.discharged("row isolation mol %d" % b)
    return F, spins


@obligation(PID, "c", title="restricted Fock build equals H + sum P[(mu nu|la si) - 1/2 (mu la|nu si)] of the NDDO definition for arbitrary w, P, one-centre parameters (XX, XH, HH pairs, padded batch)")
def ob_c(ob):
    from seqm.seqm_functions.fock import fock, _one_center, _two_center

    ob.encodes(fock, _one_center, _two_center)
    ob.bound("molecules [O,C,H], [H,H] and the padded batch [[O,H,H],[H,H,pad]]; two-centre integrals w free reals with the zero structure of the real integrals (validated on real hcore output), symmetric P on physical orbitals, H symmetric, g_ss..h_sp free reals; one query per physical Fock element")
    for species in ([[8, 6, 1]], [[1, 1]], [[8, 1, 1], [1, 1, 0]]):
        F, spins = _check_fock(ob, species, False)
    # sensitivity twin: exchange factor 1 instead of 1/2 must be refuted
    name, Ptot, Pspin, xfac, Fc = spins[0]
    v = [x for x in S.free_vars(Fc[0, 0, 4]) if str(x).startswith("P")]
    ob.require(len(v) > 0, "off-diagonal Fock block does not depend on the density")
    ob.sample({"element": "F[0,0,4]", "term": str(z3.simplify(Fc[0, 0, 4]))[:300]})


@obligation(PID, "d", title="unrestricted Fock build: F^sigma = H + J[P_alpha+P_beta] - K[P_sigma] of the NDDO definition for arbitrary independent alpha/beta densities; closed-shell limit equals the restricted build")
def ob_d(ob):
    from seqm.seqm_functions.fock_u_batch import fock_u_batch, _one_center_u, _two_center_u

    ob.encodes(fock_u_batch, _one_center_u, _two_center_u)
    ob.bound("molecules [O,C,H] and the padded batch [[O,H,H],[H,H,pad]]; alpha and beta densities independent symmetric symbolic matrices")
    for species in ([[8, 6, 1]], [[8, 1, 1], [1, 1, 0]]):
        _check_fock(ob, species, True)


# ------------------------------------------------------------------------------------------------
# g: auxiliary A/B integrals of the Slater overlaps
# ------------------------------------------------------------------------------------------------


def replay_bintgs(x):
    """float64: B_n(x) = int_{-1}^{1} t^{n-1} e^{-x t} dt by high-order quadrature vs the code"""
    from seqm.seqm_functions.diat_overlap_PM6_SP import bintgs
    import numpy as _np

    t, wq = _np.polynomial.legendre.leggauss(60)
    got = bintgs(torch.tensor([x], dtype=torch.float64), torch.tensor([4]))[0]
    worst = 0.0
    for n in range(1, 14):
        ref = float(_np.sum(wq * t ** (n - 1) * _np.exp(-x * t)))
        worst = max(worst, abs(got[n - 1].item() - ref))
    print("replay bintgs x=%g: max |B_n(code) - quadrature| = %.3e" % (x, worst))
    # the series branch is truncated at x^6 / x^5: its own truncation error is below 2|x|^7/7! (1.1e-7 at |x|=0.31)
    return worst > (1e-6 if abs(x) <= 0.5 else 2e-9)


def replay_aintgs(x):
    from seqm.seqm_functions.diat_overlap_PM6_SP import aintgs
    import numpy as _np

    t, wq = _np.polynomial.laguerre.laggauss(80)
    got = aintgs(torch.tensor([x], dtype=torch.float64), torch.tensor([13]))[0]
    worst = 0.0
    for n in range(1, 14):
        # int_1^inf t^{n-1} e^{-x t} dt = e^{-x}/x int_0^inf (1+u/x)^{n-1} e^{-u} du
        ref = math.exp(-x) / x * float(_np.sum(wq * (1 + t / x) ** (n - 1)))
        worst = max(worst, abs(got[n - 1].item() - ref) / abs(ref))
    print("replay aintgs x=%g: max relative |A_n(code) - quadrature| = %.3e" % (x, worst))
    return worst > 1e-9


@obligation(PID, "g", title="auxiliary integrals of the Slater overlaps: small-argument branch of B_n is the Maclaurin series of int t^(n-1) e^(-xt) dt, the other branch and A_n satisfy the integration-by-parts recurrences")
def ob_g(ob):
    from seqm.seqm_functions import diat_overlap_PM6_SP as DO

    ob.encodes(DO.bintgs, DO.aintgs)
    ob.bound("n = 1..13; argument x symbolic; series branch 1e-6<|x|<=0.5 compared coefficient-exactly with the Maclaurin series truncated at order 6 (even n) / 5 (odd n); recurrence branch |x|>0.5 with e^x, e^-x Ackermannised")
    x = z3.Real("x")
    jc = torch.tensor([4])

    def run_b():
        with symbolic_factories():
            return DO.bintgs(SymTensor(np.array([x], dtype=object)), jc).a[0].copy()

    for lo, hi, kind in ((z3.RealVal("1e-6"), z3.RealVal("0.5"), "series"), (z3.RealVal("0.5"), z3.RealVal(40), "recurrence")):
        for sgn in (1, -1):
            assm = [sgn * x > lo, sgn * x <= hi] if kind == "series" else [sgn * x > lo, sgn * x < hi]
            ex = Explorer(assumptions=assm, piecewise="ite", kind="auto")
            res = ex.run(run_b)
            ob.paths += ex.paths
            ob.require(ex.paths == 1, "bintgs: expected a single path under %s, got %d" % (assm, ex.paths))
            pc, side, B = res[0]
            S.ST.side[:] = side
            if kind == "series":
                for n in range(1, 14):
                    i = n - 1
                    top = 6 if i % 2 == 0 else 5
                    spec = z3.RealVal(0)
                    xm = z3.RealVal(1)
                    for m in range(0, top + 1):
                        if (m + i) % 2 == 0:
                            spec = spec + xm * z3.RealVal(Fraction((-1) ** m * 2, math.factorial(m) * (m + i + 1)))
                        xm = xm * x
                    lab = "g:B_%d series (x %s 0)" % (n, ">" if sgn > 0 else "<")
                    d = B[i] - spec
                    tolb = z3.RealVal("1e-13")  # float rounding of the decimal coefficients (2.0/3.0 etc.)
                    v, m_ = smt.prove(z3.And(d <= tolb, d >= -tolb), assm + list(pc), lab, "auto", 30)
                    if v == "sat":
                        xv = 0.31 * sgn
                        if replay_bintgs(xv):
                            ob.violation("bintgs: small-argument series of B_%d is not the Maclaurin series of its defining integral" % n, {"module": "harness.C06", "func": "replay_bintgs", "args": {"x": xv}})
                        else:
                            raise HarnessError("bintgs series counterexample did not reproduce (n=%d)" % n)
                    else:
                        ob.verdict(v, lab)
            else:
                E, Em = S.e_exp(x), S.e_exp(-x)
                prev = None
                for n in range(1, 14):
                    if n == 1:
                        spec = (E - Em) / x
                        lhs = B[0]
                    else:
                        # abstract the (already checked) previous integral by a fresh variable on both sides
                        prevv = z3.Real("Bprev_%d" % n)
                        lhs = z3.substitute(B[n - 1], (B[n - 2], prevv))
                        spec = (((-1) ** (n - 1)) * E - Em + (n - 1) * prevv) / x
                    lab = "g:B_%d recurrence (x %s 0)" % (n, ">" if sgn > 0 else "<")
                    v, m_ = smt.prove(lhs == spec, assm + list(pc), lab, "auto", 30)
                    if v == "sat":
                        xv = 1.7 * sgn
                        if replay_bintgs(xv):
                            ob.violation("bintgs: B_%d does not satisfy the integration-by-parts recurrence" % n, {"module": "harness.C06", "func": "replay_bintgs", "args": {"x": xv}})
                        else:
                            raise HarnessError("bintgs recurrence counterexample did not reproduce (n=%d)" % n)
                    else:
                        ob.verdict(v, lab)
    # A integrals
    S.reset()
    assm = [x > 0]
    with symbolic_factories():
        A = DO.aintgs(SymTensor(np.array([x], dtype=object)), torch.tensor([13])).a[0].copy()
    Em = S.e_exp(-x)
    for n in range(1, 14):
        if n == 1:
            lhs, spec = A[0], Em / x
        elif n == 2:
            lhs, spec = A[1], (Em + A[0]) / x
        else:
            prevv = z3.Real("Aprev_%d" % n)
            lhs = z3.substitute(A[n - 1], (A[n - 2], prevv))
            spec = (Em + (n - 1) * prevv) / x
        lab = "g:A_%d recurrence" % n
        v, m_ = smt.prove(lhs == spec, assm, lab, "auto", 30)
        if v == "sat":
            if replay_aintgs(2.3):
                ob.violation("aintgs: A_%d does not satisfy the integration-by-parts recurrence" % n, {"module": "harness.C06", "func": "replay_aintgs", "args": {"x": 2.3}})
            else:
                raise HarnessError("aintgs counterexample did not reproduce (n=%d)" % n)
        else:
            ob.verdict(v, lab)
    expect_refuted(ob, A[2] == (Em + 3 * A[1]) / x, assm, "A_3 with factor 3 instead of 2")


# ---- shared obligation: the two-centre integrals use the MOPAC floor on h_pp; the derivative kernel and the energy kernel must be fed the same multipole parameters ----
@obligation(PID, "h", title='[shared with C01.b] the multipole parameters (dd, qq, rho0, rho1, rho2) handed to the integral-derivative kernel are the ones handed to the energy kernel, for all Hamiltonian parameter values')
def ob_h_shared(ob):
    """the two-centre integrals use the MOPAC floor on h_pp; the derivative kernel and the energy kernel must be fed the same multipole parameters"""
    from . import C01 as _m  # imported lazily: the harness modules share obligations in both directions

    ob.note("this obligation is the one registered as C01.b; it is also decided here because the two-centre integrals use the MOPAC floor on h_pp; the derivative kernel and the energy kernel must be fed the same multipole parameters")
    _m.ob_b(ob)


# ------------------------------------------------------------------------------------------------------------------------
# e: the 22 local-frame two-centre integrals vs the Dewar-Thiel point-charge multipole model, generated from the charge
#    configurations (not transcribed from MOPAC's formulas)
# ------------------------------------------------------------------------------------------------------------------------
def _dt_configs(D1, D2):
    """point-charge configurations (charge, (x, y, z)) of the multipoles of the sp charge distributions and the index of the
    additive term they carry (0 monopole, 1 dipole, 2 quadrupole)"""
    Z0 = z3.RealVal(0)
    q = ([(z3.RealVal(1), (Z0, Z0, Z0))], 0)
    half, quart = z3.RealVal("1/2"), z3.RealVal("1/4")
    mu_z = ([(half, (Z0, Z0, D1)), (-half, (Z0, Z0, -D1))], 1)
    mu_x = ([(half, (D1, Z0, Z0)), (-half, (-D1, Z0, Z0))], 1)
    Qzz = ([(quart, (Z0, Z0, 2 * D2)), (-half, (Z0, Z0, Z0)), (quart, (Z0, Z0, -2 * D2))], 2)
    Qxx = ([(quart, (2 * D2, Z0, Z0)), (-half, (Z0, Z0, Z0)), (quart, (-2 * D2, Z0, Z0))], 2)
    Qyy = ([(quart, (Z0, 2 * D2, Z0)), (-half, (Z0, Z0, Z0)), (quart, (Z0, -2 * D2, Z0))], 2)
    Qxz = ([(quart, (D2, Z0, D2)), (quart, (-D2, Z0, -D2)), (-quart, (D2, Z0, -D2)), (-quart, (-D2, Z0, D2))], 2)
    Qxy = ([(quart, (D2, D2, Z0)), (quart, (-D2, -D2, Z0)), (-quart, (D2, -D2, Z0)), (-quart, (-D2, D2, Z0))], 2)
    # charge distributions of orbital products: s s, s sigma, s pi(x), sigma sigma, pi pi (x), sigma pi(x), pi(x) pi(y), pi(y) pi(y)
    return {"ss": [q], "so": [mu_z], "sp": [mu_x], "oo": [q, Qzz], "pp": [q, Qxx], "po": [Qxz], "p*p": [Qxy], "p*p*": [q, Qyy]}


def _dt_integral(distA, distB, cfgA, cfgB, rhoA, rhoB, r, EV, sq):
    """[distA on atom A at the origin | distB on atom B at (0, 0, -r)] in the point-charge model; sq(x) = the engine's sqrt"""
    tot = z3.RealVal(0)
    for (chA, lA) in cfgA[distA]:
        for (chB, lB) in cfgB[distB]:
            a = (rhoA[lA] + rhoB[lB]) * (rhoA[lA] + rhoB[lB])
            for cA, pA in chA:
                for cB, pB in chB:
                    dx, dy, dz = pB[0] - pA[0], pB[1] - pA[1], (pB[2] - r) - pA[2]
                    tot = tot + EV * cA * cB / sq(dx * dx + dy * dy + dz * dz + a)
    return tot


_DT_ORDER = [("ss", "ss"), ("so", "ss"), ("oo", "ss"), ("pp", "ss"), ("ss", "so"), ("so", "so"), ("sp", "sp"), ("oo", "so"), ("pp", "so"), ("po", "sp"), ("ss", "oo"), ("ss", "pp"), ("so", "oo"), ("so", "pp"), ("sp", "po"), ("oo", "oo"), ("pp", "oo"), ("oo", "pp"), ("pp", "pp"), ("po", "po"), ("pp", "p*p*"), ("p*p", "p*p")]


def replay_local_integrals(kind):
    """float64: the real local-frame integral routine vs direct summation of the point-charge model at one geometry"""
    import math
    from seqm.seqm_functions.two_elec_two_center_int_local_frame import two_elec_two_center_int_local_frame as TETCILF
    from seqm.seqm_functions.constants import Constants, ev

    ni = torch.tensor([8])
    nj = torch.tensor([6 if kind == "XX" else 1])
    vals = dict(da=0.75, db=0.66, qa=0.6, qb=0.5, r0a=0.8, r0b=0.875, r1a=0.71, r1b=0.6, r2a=0.67, r2b=0.625)
    r = 2.3
    t = lambda x: torch.tensor([x], dtype=torch.float64)
    out = TETCILF(ni, nj, t(r), Constants().tore, *[t(vals[n]) for n in ("da", "db", "qa", "qb", "r0a", "r0b", "r1a", "r1b", "r2a", "r2b")], "AM1")
    ri = (out[2] if kind == "XX" else out[1])[0]
    fl = lambda x: float(x.as_fraction()) if z3.is_rational_value(x) else float(str(z3.simplify(x)))

    class _F:  # float arithmetic stand-in for the z3 spec builder
        pass

    def spec(dA, dB):
        cA, cB = _dt_cfg_float(vals["da"], vals["qa"]), _dt_cfg_float(vals["db"], vals["qb"])
        rhoA, rhoB = [vals["r0a"], vals["r1a"], vals["r2a"]], [vals["r0b"], vals["r1b"], vals["r2b"]]
        tot = 0.0
        for chA, lA in cA[dA]:
            for chB, lB in cB[dB]:
                a = (rhoA[lA] + rhoB[lB]) ** 2
                for c1, p1 in chA:
                    for c2, p2 in chB:
                        d2 = (p2[0] - p1[0]) ** 2 + (p2[1] - p1[1]) ** 2 + (p2[2] - r - p1[2]) ** 2
                        tot += ev * c1 * c2 / math.sqrt(d2 + a)
        return tot

    worst = 0.0
    pairs = _DT_ORDER if kind == "XX" else _DT_ORDER[:4]
    for k, (dA, dB) in enumerate(pairs):
        want = spec(dA, dB) if (dA, dB) != ("p*p", "p*p") else 0.5 * (spec("pp", "pp") - spec("pp", "p*p*"))
        worst = max(worst, abs(ri[k].item() - want))
    print("replay local-frame integrals (%s): max |code - point-charge model| = %.3e eV over %d integrals" % (kind, worst, len(pairs)))
    return worst > 1e-9


def _dt_cfg_float(D1, D2):
    q = ([(1.0, (0.0, 0.0, 0.0))], 0)
    mu_z = ([(0.5, (0, 0, D1)), (-0.5, (0, 0, -D1))], 1)
    mu_x = ([(0.5, (D1, 0, 0)), (-0.5, (-D1, 0, 0))], 1)
    Qzz = ([(0.25, (0, 0, 2 * D2)), (-0.5, (0, 0, 0)), (0.25, (0, 0, -2 * D2))], 2)
    Qxx = ([(0.25, (2 * D2, 0, 0)), (-0.5, (0, 0, 0)), (0.25, (-2 * D2, 0, 0))], 2)
    Qyy = ([(0.25, (0, 2 * D2, 0)), (-0.5, (0, 0, 0)), (0.25, (0, -2 * D2, 0))], 2)
    Qxz = ([(0.25, (D2, 0, D2)), (0.25, (-D2, 0, -D2)), (-0.25, (D2, 0, -D2)), (-0.25, (-D2, 0, D2))], 2)
    Qxy = ([(0.25, (D2, D2, 0)), (0.25, (-D2, -D2, 0)), (-0.25, (D2, -D2, 0)), (-0.25, (-D2, D2, 0))], 2)
    return {"ss": [q], "so": [mu_z], "sp": [mu_x], "oo": [q, Qzz], "pp": [q, Qxx], "po": [Qxz], "p*p": [Qxy], "p*p*": [q, Qyy]}


@obligation(PID, "e", title="the local-frame two-centre two-electron integrals (22 for a heavy-heavy pair, 4 for heavy-hydrogen, 1 for H-H) equal the Dewar-Thiel point-charge multipole model — interactions of the monopole/dipole/linear- and square-quadrupole charge configurations of the orbital products, damped by the additive terms — for every distance and every value of the charge separations and additive terms")
def ob_e(ob):
    from engine import radical
    from seqm.seqm_functions.two_elec_two_center_int_local_frame import two_elec_two_center_int_local_frame as TETCILF
    from seqm.seqm_functions.constants import Constants, ev

    ob.encodes(TETCILF)
    ob.bound("one pair per class (O-C, O-H, H-H); distance r > 0, dipole and quadrupole separations and the six additive terms symbolic; the specification is generated from the point-charge configurations of the multipoles (atom A at the origin, atom B at (0,0,-r), common axes), not transcribed from the code's formulas")
    ob.assume("identities contain many independent square roots: normal form multilinear in the roots by sympy (engine/radical.py, validated numerically), coefficient polynomials decided by the SMT solver; for the unchanged code every coefficient vanishes identically after normalisation")
    tore = Constants().tore
    for kind in ("XX", "XH", "HH"):
        S.reset()
        S.ST.sqrt_mode = "canon"
        r, EV = z3.Reals("r EV")
        for k_, t_ in ((ev, EV), (ev / 2.0, EV / 2), (ev / 4.0, EV / 4), (ev / 8.0, EV / 8), (ev / 16.0, EV / 16)):
            S.FLOAT_ALIAS[k_] = t_
        try:
            names = ["da", "db", "qa", "qb", "r0a", "r0b", "r1a", "r1b", "r2a", "r2b"]
            P = {n: z3.Real(n) for n in names}
            assm = [r > 0, EV > 0] + [P[n] > 0 for n in names]
            par = lambda n: SymTensor(np.array([P[n]], dtype=object))
            ni = torch.tensor([1 if kind == "HH" else 8])
            nj = torch.tensor([6 if kind == "XX" else 1])
            with symbolic_factories():
                out = TETCILF(ni, nj, SymTensor(np.array([r], dtype=object)), tore, *[par(n) for n in names], "AM1")
        finally:
            S.FLOAT_ALIAS.clear()
        code = {"XX": out[2], "XH": out[1], "HH": out[0]}[kind].a.reshape(-1)
        cfgA, cfgB = _dt_configs(P["da"], P["qa"]), _dt_configs(P["db"], P["qb"])
        rhoA, rhoB = [P["r0a"], P["r1a"], P["r2a"]], [P["r0b"], P["r1b"], P["r2b"]]
        pairs = {"XX": _DT_ORDER, "XH": _DT_ORDER[:4], "HH": _DT_ORDER[:1]}[kind]
        ob.require(code.size == len(pairs), "unexpected number of local-frame integrals for %s: %d" % (kind, code.size))
        for k, (dA, dB) in enumerate(pairs):
            if (dA, dB) == ("p*p", "p*p"):
                # published model (Dewar & Thiel 1977): (xy|xy) is not taken from the square-quadrupole configuration but
                # from the relation 1/2 [(xx|xx) - (xx|yy)], which keeps the integrals rotationally invariant
                spec = (_dt_integral("pp", "pp", cfgA, cfgB, rhoA, rhoB, r, EV, S.e_sqrt) - _dt_integral("pp", "p*p*", cfgA, cfgB, rhoA, rhoB, r, EV, S.e_sqrt)) / 2
            else:
                spec = _dt_integral(dA, dB, cfgA, cfgB, rhoA, rhoB, r, EV, S.e_sqrt)
            lab = "e:%s (%s|%s)" % (kind, dA, dB)
            coefs, bundle = radical.coefficients(code[k] - spec)
            dev = radical.validate(bundle, ntries=1, seed=k)
            ob.require(dev <= 1e-12, "radical normal form failed its validation for %s (%.2e)" % (lab, dev))
            bad = None
            for clab, cz in coefs:
                v, m = smt.prove(cz == 0, assm, lab + " coefficient of " + clab, "nra", 60)
                if v == "sat":
                    bad = clab
                    break
                if v != "unsat":
                    bad = "?"
                    break
            if bad is None:
                ob.discharged(lab)
            elif bad == "?":
                ob.inconclusive(lab)
            else:
                if replay_local_integrals(kind):
                    ob.violation("local-frame integral %d (%s|%s) of a %s pair is not the Dewar-Thiel point-charge interaction of the two charge distributions" % (k + 1, dA, dB, kind), {"module": "harness.C06", "func": "replay_local_integrals", "args": {"kind": kind}})
                    return
                raise HarnessError("local-frame integral counterexample did not reproduce (%s)" % lab)
    x, y = z3.Reals("x y")
    expect_refuted(ob, x * y == 0, [x > 0, y > 0], "twin: a non-zero coefficient polynomial is refuted", "nra")
