"""C12 — Langevin thermostat: fluctuation-dissipation relation, limits, degrees of freedom (engine E1/E3)."""
from fractions import Fraction

from .common import *  # noqa: F401,F403
from .common import S, smt, z3, np, torch, SymTensor, symbolic_factories, obligation, HarnessError, expect_refuted, expect_feasible
from . import mdsym
from .C08 import dof_temperature

PID = "C12"


def _init_coeffs(md, mol):
    """run the real Langevin initialize() prologue (coefficients) with everything after it cut off"""
    import seqm.MolecularDynamics as MD

    saved = MD.Molecular_Dynamics_Basic.initialize
    MD.Molecular_Dynamics_Basic.initialize = lambda self, *a, **k: None
    try:
        with symbolic_factories():
            MD.Molecular_Dynamics_Langevin.initialize(md, mol)
    finally:
        MD.Molecular_Dynamics_Basic.initialize = saved
    return md.langevin_c1, md.langevin_c2


def _exp_axioms():
    """exp(s) = exp(s/2)^2 for the Ackermannised applications present (s/2 and s are both used by the code)"""
    ax = []
    items = list(S.ST.exps.items())
    for (f1, _), (v1, x1) in items:
        for (f2, _), (v2, x2) in items:
            if f1 == f2 == "exp" and z3.is_true(z3.simplify(2 * x1 == x2)):
                ax.append(v2 == v1 * v1)
    return ax


def replay_fdr(dt=0.5, damp=20.0, Temp=300.0):
    """float64: c1^2 sigma^2 + c2^2 == sigma^2 with sigma^2 = kT/m, for the coefficients computed by the real initialize()"""
    import seqm.MolecularDynamics as MD
    import types as _t

    class FF(torch.nn.Module):
        def __init__(s, *a, **k):
            super().__init__()

    MD.esdriver = FF
    md = MD.Molecular_Dynamics_Langevin(damp=damp, seqm_parameters={"method": "AM1"}, timestep=dt, Temp=Temp, output={"molid": [0], "prefix": "x", "h5": {}})
    m = torch.tensor([[[15.999], [1.0079], [1.0079]]])
    mol = _t.SimpleNamespace(coordinates=torch.zeros(1, 3, 3), mass_inverse=1 / m)
    saved = MD.Molecular_Dynamics_Basic.initialize
    MD.Molecular_Dynamics_Basic.initialize = lambda self, *a, **k: None
    try:
        md.initialize(mol)
        md.Temp = 2 * Temp
        md.initialize(mol)  # a second initialisation (re-used driver, new target temperature)
        sig2 = 2 * Temp / m * MD.CONSTANTS.VEL_SCALE**2
        err = ((md.langevin_c1**2 * sig2 + md.langevin_c2**2) / sig2 - 1).abs().max().item()
        # third stage: the same driver with a weaker coupling and a smaller step (settings changed after construction)
        md.damp, md.timestep = 10 * damp, dt / 2
        md.initialize(mol)
        err2 = ((md.langevin_c1**2 * sig2 + md.langevin_c2**2) / sig2 - 1).abs().max().item()
    finally:
        MD.Molecular_Dynamics_Basic.initialize = saved
    print("replay fluctuation-dissipation (dt=%g, damp=%g, T=%g then %g; then damp x10, dt/2): max |c1^2 + c2^2 m/kT - 1| = %.3e, %.3e" % (dt, damp, Temp, 2 * Temp, err, err2))
    return max(err, err2) > 1e-10


@obligation(PID, "a", title="fluctuation-dissipation: c1^2*sigma^2 + c2^2 = sigma^2 (sigma^2 = k_B T/m) for every dt, damping time, temperature and mass; the update is v' = c1 v + c2 xi; limits T=0 and padding atoms; coefficients follow the current settings when a driver is re-initialised")
def ob_a(ob):
    import seqm.MolecularDynamics as MD

    ob.encodes(MD.Molecular_Dynamics_Langevin.initialize, MD.Molecular_Dynamics_Langevin._apply_langevin_thermostat)
    ob.bound("dt>0, damping time>0, T>=0, masses>0 symbolic reals; padded batch [[O,H,H],[H,H,pad]]; exp Ackermannised with the axiom exp(s)=exp(s/2)^2 and exp>0; sqrt as auxiliary variable")
    ob.assume("randn_like stubbed by free symbols xi (the distribution of xi is outside the encoding; the identity makes a unit-variance xi reproduce the Maxwell-Boltzmann variance)")
    species = [[8, 1, 1], [1, 1, 0]]
    S.reset()
    md = mdsym.make_md("Molecular_Dynamics_Langevin", damp=50.0)
    dt, damp, T, T2 = z3.Reals("dt damp T T2")
    md.timestep = SymTensor(np.array(dt, dtype=object))
    md.damp = SymTensor(np.array(damp, dtype=object))
    md.Temp = SymTensor(np.array(T, dtype=object))
    mol, real, mass_pos = mdsym.sym_molecule(species)
    base = mass_pos + [dt > 0, damp > 0, T >= 0, T2 >= 0]
    VEL = S.rv(MD.CONSTANTS.VEL_SCALE)

    def check(c1, c2, Tv, tag):
        ax = _exp_axioms()
        # a coefficient that is not symbolic was computed from the construction-time settings, not from the current ones
        c1e = c1.a.reshape(-1)[0] if isinstance(c1, SymTensor) else S.rv(float(c1))
        for b in range(2):
            for a in range(3):
                c2e = c2.a[b, a, 0]
                sig2 = Tv * mol.mass_inverse.a[b, a, 0] * VEL * VEL
                lab = "a:%s FDR atom (%d,%d)" % (tag, b, a)
                v, m = smt.prove(c1e * c1e * sig2 + c2e * c2e == sig2, base + ax, lab, "nra", 60)
                if v == "sat":
                    if replay_fdr():
                        ob.violation("Langevin coefficients violate the fluctuation-dissipation relation c1^2 sigma^2 + c2^2 = sigma^2 (%s)" % tag, {"module": "harness.C12", "func": "replay_fdr", "args": {}})
                    else:
                        raise HarnessError("FDR counterexample did not reproduce (%s)" % lab)
                    return False
                ob.verdict(v, lab)
        return True

    c1, c2 = _init_coeffs(md, mol)
    expect_feasible(ob, base + _exp_axioms(), "parameters")
    ok = check(c1, c2, T, "first initialisation")
    if not ok:
        return
    c1e = c1.a.reshape(-1)[0]
    # 0 < c1 < 1 (pure friction): with E = exp(s/2), s = -dt/damp < 0  -> needs monotonicity axiom exp(x)<1 for x<0
    arg = [x for (f, _), (v_, x) in S.ST.exps.items() if str(v_) == str(c1e)]
    ob.require(len(arg) == 1, "c1 is not a plain exp application")
    v, m = smt.prove(arg[0] < 0, base, "a:c1 = exp(negative)", "auto", 30)
    ob.verdict(v, "a:c1 = exp(negative) (so 0<c1<1: the thermostat only removes energy at T=0)")
    # T = 0 => c2 = 0 ; padding (1/m = 0) => c2 = 0
    for b in range(2):
        for a in range(3):
            c2e = c2.a[b, a, 0]
            if not real[b, a]:
                v, m = smt.prove(c2e == 0, base + _exp_axioms(), "a:padding atom has no noise", "nra", 30)
                ob.verdict(v, "a:padding noise amplitude")
            v, m = smt.prove(c2e == 0, base + _exp_axioms() + [T == 0], "a:T=0 => c2=0 (%d,%d)" % (b, a), "nra", 30)
            ob.verdict(v, "a:T=0 => c2=0")
    # re-initialisation with a new temperature must recompute the coefficients
    if ok:
        md.Temp = SymTensor(np.array(T2, dtype=object))
        c1b, c2b = _init_coeffs(md, mol)
        check(c1b, c2b, T2, "re-initialised driver (new temperature)")
    # the update itself
    xi = S.reals("xi", (2, 3, 3))
    import engine.symtorch as ST_

    saved = ST_.HANDLERS[torch.randn_like]
    ST_.HANDLERS[torch.randn_like] = lambda x, **k: SymTensor(xi.copy())
    try:
        v0 = mol.velocities.a.copy()
        with symbolic_factories():
            md._apply_langevin_thermostat(mol)
    finally:
        ST_.HANDLERS[torch.randn_like] = saved
    c1n, c2n = md.langevin_c1.a.reshape(-1)[0], md.langevin_c2.a
    for k in np.ndindex(v0.shape):
        v, m = smt.prove(mol.velocities.a[k] == c1n * v0[k] + c2n[k[0], k[1], 0] * xi[k], base, "a:update v%s" % list(k), "auto", 30)
        if v == "sat":
            ob.violation("thermostat update is not v' = c1 v + c2 xi", {"module": "harness.C12", "func": "replay_fdr", "args": {}})
            break
        ob.verdict(v, "a:update")
    expect_refuted(ob, c1e * c1e * (T * mol.mass_inverse.a[0, 0, 0] * VEL * VEL) + c2.a[0, 0, 0] * c2.a[0, 0, 0] == 2 * T * mol.mass_inverse.a[0, 0, 0] * VEL * VEL, base + _exp_axioms() + [T > 0], "variance doubled", "nra")
    ob.sample({"c2[0,0]^2": str(z3.simplify(c2.a[0, 0, 0] * c2.a[0, 0, 0]))[:200]})


def replay_half_steps():
    import seqm.MolecularDynamics as MD
    import types as _t

    calls = []

    class FF(torch.nn.Module):
        def __init__(s, *a, **k):
            super().__init__()

        def forward(s, molecule, *a, **k):
            calls.append("force")
            molecule.force = torch.zeros_like(molecule.coordinates)

    MD.esdriver = FF
    md = MD.Molecular_Dynamics_Langevin(damp=20.0, seqm_parameters={"method": "AM1"}, timestep=0.5, Temp=300.0, output={"molid": [0], "prefix": "x", "h5": {}})
    md._apply_langevin_thermostat = lambda mol: calls.append("thermostat")
    m = torch.ones(1, 2, 1)
    mol = _t.SimpleNamespace(const=_t.SimpleNamespace(do_timing=False), coordinates=torch.zeros(1, 2, 3), velocities=torch.zeros(1, 2, 3), mass=m, mass_inverse=m, dm=None, cis_amplitudes=None, force=None, acc=torch.zeros(1, 2, 3))
    md.one_step(mol)
    print("replay Langevin one_step call order:", calls)
    return calls != ["thermostat", "force", "thermostat"]


@obligation(PID, "b", title="Langevin one_step = O(dt/2) . velocity Verlet . O(dt/2); with c1=1, c2=0 (infinite damping time) it is exactly the NVE step")
def ob_b(ob):
    import seqm.MolecularDynamics as MD

    ob.encodes(MD.Molecular_Dynamics_Langevin.one_step, MD.Molecular_Dynamics_Basic.one_step)
    ob.bound("1 molecule x 2 atoms, symbolic state; thermostat coefficients symbolic (c1, c2) and the special values c1=1, c2=0")
    ACC = S.rv(MD.CONSTANTS.ACC_SCALE)
    out = {}
    for cls in ("Molecular_Dynamics_Langevin", "Molecular_Dynamics_Basic"):
        S.reset()
        kw = {"damp": 50.0} if "Langevin" in cls else {}
        md = mdsym.make_md(cls, Temp=0.0, **kw)
        dt = z3.Real("dt")
        md.timestep = SymTensor(np.array(dt, dtype=object))
        mol, real, mass_pos = mdsym.sym_molecule([[8, 1]])
        if "Langevin" in cls:
            md.langevin_c1 = SymTensor(np.array(z3.RealVal(1), dtype=object))
            md.langevin_c2 = SymTensor(np.full((1, 2, 1), z3.RealVal(0), dtype=object))
        import engine.symtorch as ST_

        saved = ST_.HANDLERS[torch.randn_like]
        ST_.HANDLERS[torch.randn_like] = lambda x, **k: SymTensor(S.reals("xi%d" % len(mdsym.ForceField.calls), tuple(x.shape)))
        try:
            with symbolic_factories():
                md.esdriver(mol)
                mol.acc = mol.force * mol.mass_inverse * MD.CONSTANTS.ACC_SCALE
                md.one_step(mol)
        finally:
            ST_.HANDLERS[torch.randn_like] = saved
        out[cls] = (mol.coordinates.a.copy(), mol.velocities.a.copy(), mass_pos, dt)
    (xl, vl, pos, dt), (xb, vb, _, _) = out["Molecular_Dynamics_Langevin"], out["Molecular_Dynamics_Basic"]
    for k in np.ndindex(xl.shape):
        for name, c in (("x", xl[k] == xb[k]), ("v", vl[k] == vb[k])):
            v, m = smt.prove(c, pos + [dt > 0], "b:tau->inf %s%s" % (name, list(k)), "auto", 30)
            if v == "sat":
                if replay_half_steps():
                    ob.violation("Langevin one_step with c1=1, c2=0 differs from the NVE velocity Verlet step", {"module": "harness.C12", "func": "replay_half_steps", "args": {}})
                else:
                    raise HarnessError("Langevin/NVE counterexample did not reproduce")
                return
            ob.verdict(v, "b:tau->inf")
    if replay_half_steps():
        ob.violation("Langevin one_step does not apply thermostat - force evaluation - thermostat in that order", {"module": "harness.C12", "func": "replay_half_steps", "args": {}})
    else:
        ob.discharged("b:call order thermostat/force/thermostat (concrete trace of the real one_step)")


@obligation(PID, "d", title="degrees of freedom used for the temperature: Langevin and damped XL-BOMD count all 3N (the thermostat feeds every component), undamped engines subtract the removed COM modes")
def ob_d(ob):
    import seqm.MolecularDynamics as MD

    ob.encodes(MD.Molecular_Dynamics_Langevin.set_dof, MD.XL_BOMD.set_dof, MD.Molecular_Dynamics_Basic.set_dof, MD.Molecular_Dynamics_Basic._calc_temperature)
    ob.bound("same table as C08.d (9 engine/damp/remove_com combinations, padded batch, symbolic velocities and masses)")
    dof_temperature(ob, "d")


# ---- shared obligation: the mean kinetic temperature equals the target only under the true number of degrees of freedom, which starts from the number of real atoms ----
@obligation(PID, "e", title="[shared with C13.e] the atom count behind the degrees of freedom (Molecule.num_atoms) is the number of non-padding atoms of each batch row, however the Parser files them (hydrogen / heavy / d-orbital 'super-heavy'), and padding atoms get zero inverse mass")
def ob_e_shared(ob):
    """the mean kinetic temperature equals the target only under the true number of degrees of freedom, which starts from the number of real atoms"""
    from . import C13 as _m  # imported lazily: the harness modules share obligations in both directions

    ob.note("this obligation is the one registered as C13.e; it is also decided here because the mean kinetic temperature equals the target only under the true number of degrees of freedom, which starts from the number of real atoms")
    _m.ob_e(ob)
