"""C19 — pair cutoff acts as documented; no interaction class is silently dropped with distance (engine E1, narrow)."""
import types

from .common import *  # noqa: F401,F403
from .common import S, smt, z3, np, torch, SymTensor, symbolic_factories, Explorer, obligation, HarnessError, expect_refuted, molecule, quiet, single_point

PID = "C19"


def replay_cutoff(r, c, direction=(1.0, 0.0, 0.0)):
    """public API: two H atoms at distance r (Angstrom) along `direction` with pair_outer_cutoff=c: the pair must be kept iff r < c"""
    import math

    n = math.sqrt(sum(x * x for x in direction)) or 1.0
    pos = [r * x / n for x in direction]
    m, p, const = molecule([[1, 1]], [[[0.0, 0, 0], pos]], "AM1", pair_outer_cutoff=c)
    kept = m.rij.shape[0] == 1
    print("replay cutoff: r=%.4f A along %s, cutoff=%.4f A -> pair kept=%s (documented: %s)" % (r, [round(x / n, 3) for x in direction], c, kept, r < c))
    return kept != (r < c)


@obligation(PID, "a", title="pair list: a pair of real atoms is kept exactly when its distance (in the coordinate unit, Angstrom) is below pair_outer_cutoff; the default cutoff keeps every pair; padding partners never form pairs")
def ob_a(ob):
    from seqm.basics import Parser
    from .C05 import _parse

    ob.encodes(Parser.forward)
    ob.bound("layout [H,H,pad]; all 9 coordinates and the cutoff c>0 symbolic reals; equality r=c left free (the statement says 'beyond')")
    species = [[1, 1, 0]]
    X = S.reals("x", (1, 3, 3))
    c = z3.Real("c")
    r2 = sum((X[0, 0, k] - X[0, 1, k]) * (X[0, 0, k] - X[0, 1, k]) for k in range(3))
    assm = [c > 0, r2 > 0]
    ex = Explorer(assumptions=assm, piecewise="ite", kind="nra")
    res = ex.run(lambda: _parse(species, X.copy(), cutoff=SymTensor(np.array(c, dtype=object))))
    ob.paths = ex.paths
    ob.require(ex.paths >= 2, "expected kept/dropped paths, got %d" % ex.paths)
    seen = set()
    for pc, side, B in res:
        S.ST.side[:] = side
        npair = B["rij"].a.shape[0]
        seen.add(npair)
        ob.require(npair <= 1, "padding partner formed a pair")
        claim = r2 < c * c if npair == 1 else r2 >= c * c
        lab = "a:%s path" % ("kept" if npair else "dropped")
        v, m = smt.prove(claim, assm + list(pc), lab, "nra", 60)
        if v == "sat":
            import math

            rv_ = math.sqrt(float(smt.model_value(m, r2)))
            cv = float(smt.model_value(m, c))
            # robust witness: the solver's own displacement direction, then the middle of the offending window
            dvec = tuple(float(smt.model_value(m, X[0, 1, k] - X[0, 0, k])) for k in range(3))
            cand = [(rv_, cv, dvec), (0.5 * (rv_ + cv), cv, dvec), (0.75 * cv, cv, dvec), (0.6 * cv, cv, dvec), (1.5 * cv, cv, dvec), (1.2 * cv, cv, dvec), (0.75 * cv, cv, (1.0, 0.0, 0.0)), (1.5 * cv, cv, (1.0, 0.0, 0.0))]
            hit = [w for w in cand if replay_cutoff(*w)]
            if hit:
                ob.violation("pair at %.3f A (direction %s) is %s with pair_outer_cutoff=%.3f A" % (hit[0][0], [round(x, 3) for x in hit[0][2]], "dropped" if hit[0][0] < hit[0][1] else "kept", hit[0][1]), {"module": "harness.C19", "func": "replay_cutoff", "args": {"r": hit[0][0], "c": hit[0][1], "direction": list(hit[0][2])}})
            else:
                raise HarnessError("cutoff counterexample did not reproduce (r=%g c=%g)" % (rv_, cv))
        else:
            ob.verdict(v, lab)
    ob.require(seen == {0, 1}, "both outcomes must be reachable: %s" % seen)
    # default cutoff: every pair within 500 A is kept
    X2 = S.reals("y", (1, 3, 3))
    assm2 = [z3.And(v > -250, v < 250) for v in X2.reshape(-1)] + [sum((X2[0, 0, k] - X2[0, 1, k]) * (X2[0, 0, k] - X2[0, 1, k]) for k in range(3)) > 0]
    ex2 = Explorer(assumptions=assm2, piecewise="ite", kind="nra")
    res2 = ex2.run(lambda: _parse(species, X2.copy()))
    ok = all(B["rij"].a.shape[0] == 1 for _, _, B in res2)
    if ok:
        ob.discharged("a:default cutoff keeps the pair on all %d paths" % ex2.paths)
    else:
        if replay_cutoff(400.0, 1e10):
            ob.violation("default pair cutoff drops a pair within 500 A", {"module": "harness.C19", "func": "replay_cutoff", "args": {"r": 400.0, "c": 1e10}})
        else:
            raise HarnessError("default-cutoff counterexample did not reproduce")


class _Stub:
    pass


def replay_hcore_far():
    """public API: H2O ... H2O 30 A apart: diagonal Hcore blocks of fragment A must contain the attraction by fragment B's cores"""
    from seqm.seqm_functions.hcore import hcore

    sp = [[8, 8, 1, 1, 1, 1]]
    xyz = [[[0.0, 0, 0], [30.0, 0, 0], [0.96, 0.1, 0], [-0.24, 0.93, 0.2], [30.96, 0.1, 0], [29.76, 0.93, 0.2]]]
    m, p, const = molecule(sp, xyz, "AM1")
    with quiet():
        M, w, *_ = hcore(m)
    # reference: subtract the intra-fragment pieces by recomputing with only fragment A
    mA, _, _ = molecule([[8, 1, 1]], [[xyz[0][0], xyz[0][2], xyz[0][3]]], "AM1")
    with quiet():
        MA, wA, *_ = hcore(mA)
    blockO = M[m.maskd[0]] - MA[mA.maskd[0]]
    # the far fragment's cores (O:6, H:1, H:1 = 8 charges at ~30 A) attract the s electron by about -8*14.4/30 eV
    expect = -8 * 14.4 / 30.0
    print("replay hcore far pair: extra <s|V|s> on O from the far fragment = %.4f eV (expected about %.2f)" % (blockO[0, 0].item(), expect))
    return abs(blockO[0, 0].item() - expect) > 0.5


@obligation(PID, "c", title="Hcore assembly: core-electron attraction blocks of EVERY pair are added to both atoms' diagonal blocks whatever the distance; only the resonance (overlap) block is gated by the overlap cutoff")
def ob_c(ob):
    import seqm.seqm_functions.hcore as HC
    from seqm.seqm_functions.constants import overlap_cutoff, a0

    ob.encodes(HC.hcore)
    ob.bound("three atoms O, O', H with O-O' = 30 A (beyond the 40 bohr overlap cutoff) and H bonded to O; overlap blocks, two-centre attraction blocks e1b/e2a, U_ss/U_pp, beta symbolic reals")
    ob.assume("overlap routine and TETCI replaced by recorders returning free symbols (their own formulas are C06); index maps from the real Parser")
    sp = [[8, 8, 1]]
    xyz = [[[0.0, 0, 0], [30.0, 0, 0], [0.96, 0.1, 0]]]
    m, p, const = molecule(sp, xyz, "AM1", charges=1)
    npairs = m.idxi.shape[0]
    far = [bool(r > overlap_cutoff) for r in m.rij]
    ob.require(any(far) and not all(far), "need pairs on both sides of the overlap cutoff: %s" % m.rij.tolist())
    di_s = S.reals("S", (npairs, 4, 4))
    e1b, e2a = S.reals("e1b", (npairs, 4, 4)), S.reals("e2a", (npairs, 4, 4))
    natoms = 3
    par = dict(m.parameters)
    U = {"U_ss": S.reals("Uss", (natoms,)), "U_pp": S.reals("Upp", (natoms,))}
    beta = S.reals("beta", (natoms, 2))
    par.update({"U_ss": SymTensor(U["U_ss"]), "U_pp": SymTensor(U["U_pp"]), "beta": SymTensor(beta), "Kbeta": None})
    mol = types.SimpleNamespace(method="AM1", const=const, parameters=par, xij=m.xij, rij=m.rij, ni=m.ni, nj=m.nj, idxi=m.idxi, idxj=m.idxj, Z=m.Z, alp=None, chi=None, nmol=1, molsize=3, maskd=m.maskd, mask=m.mask)
    saved = (HC.diatom_overlap_matrix_PM6_SP, HC.TETCI)

    def ov(ni, nj, xij, rij, za, zb, *a):
        sel = [p for p in range(npairs) if not far[p]]
        ob.require(len(sel) == ni.shape[0], "overlap routine called for %d pairs, %d are within the cutoff" % (ni.shape[0], len(sel)))
        return SymTensor(di_s[sel].copy())

    seen = {}

    def tetci(const_, idxi_, idxj_, ni_, nj_, xij_, rij_, *a, **k):
        seen.update(rij=rij_, xij=xij_, ni=ni_, nj=nj_)
        return (SymTensor(S.reals("w", (npairs, 10, 10))), SymTensor(e1b.copy()), SymTensor(e2a.copy()), None, None, None, None)

    HC.diatom_overlap_matrix_PM6_SP, HC.TETCI = ov, tetci
    try:
        with symbolic_factories():
            M = HC.hcore(mol)[0]
    finally:
        HC.diatom_overlap_matrix_PM6_SP, HC.TETCI = saved
    Ma = M.a
    maskd, mask = m.maskd.tolist(), m.mask.tolist()
    bad = False
    # the two-electron / core-attraction routine must be handed every pair's own distance and direction, unmodified, on both
    # sides of the overlap cutoff (the long-range Coulomb tail and its cancellation live in those integrals)
    for key, ref in (("rij", m.rij), ("xij", m.xij), ("ni", m.ni), ("nj", m.nj)):
        got = seen.get(key)
        if not (torch.is_tensor(got) and got.shape == ref.shape and torch.equal(got, ref)):
            if replay_hcore_far():
                ob.violation("hcore hands the two-centre integral routine a modified %s (e.g. clamped at the overlap cutoff): interactions between distant fragments stop decaying" % key, {"module": "harness.C19", "func": "replay_hcore_far", "args": {}})
                return
            raise HarnessError("two-centre integral argument %s differs from the molecule's but the replay shows no effect" % key)
        ob.discharged("c:integral routine receives the molecule's own %s" % key)
    for a in range(natoms):
        blk = Ma[maskd[a]]
        for mu in range(4):
            for nu in range(4):
                spec = (U["U_ss"][a] if mu == 0 else U["U_pp"][a]) if mu == nu else z3.RealVal(0)
                for pidx in range(npairs):
                    if int(m.idxi[pidx]) == a:
                        spec = spec + e1b[pidx, mu, nu]
                    if int(m.idxj[pidx]) == a:
                        spec = spec + e2a[pidx, mu, nu]
                v, mm = smt.prove(blk[mu, nu] == spec, [], "c:diag block atom %d [%d,%d]" % (a, mu, nu), "lra", 20)
                if v == "sat" and not bad:
                    bad = True
                    if replay_hcore_far():
                        ob.violation("Hcore diagonal block of atom %d does not contain the core-electron attraction of every pair (a pair beyond the overlap cutoff is dropped)" % a, {"module": "harness.C19", "func": "replay_hcore_far", "args": {}})
                    else:
                        raise HarnessError("hcore diagonal counterexample did not reproduce")
                elif v != "sat":
                    ob.verdict(v, "c:diag")
    for pidx in range(npairs):
        blk = Ma[mask[pidx]]
        i, j = int(m.idxi[pidx]), int(m.idxj[pidx])
        for mu in range(4):
            for nu in range(4):
                if far[pidx]:
                    spec = z3.RealVal(0)
                else:
                    spec = di_s[pidx, mu, nu] * (beta[i, 0 if mu == 0 else 1] + beta[j, 0 if nu == 0 else 1]) / 2
                v, mm = smt.prove(blk[mu, nu] == spec, [], "c:resonance block pair %d [%d,%d]" % (pidx, mu, nu), "auto", 20)
                if v == "sat":
                    ob.violation("Hcore resonance block of pair %d is not 1/2 (beta_mu+beta_nu) S_mu nu (or is non-zero beyond the overlap cutoff)" % pidx, {"module": "harness.C19", "func": "replay_hcore_far", "args": {}})
                    return
                ob.verdict(v, "c:resonance")
