"""C02 — rotation/translation invariance and covariance (engine E1)."""
import math
import types

from .common import *  # noqa: F401,F403
from .common import S, smt, z3, np, torch, SymTensor, symbolic_factories, Explorer, obligation, Dual, HarnessError, quiet

PID = "C02"


def _unit_model_to_v(m, vs):
    v = np.array([float(smt.model_value(m, x)) for x in vs])
    return v


# ------------------------------------------------------------------------------------------------
# a: rotate_with_quaternion is a proper rotation with first row v, for every unit v
# ------------------------------------------------------------------------------------------------


def replay_rotation(v, tol=1e-6):
    """real float64 rotate_with_quaternion at v: True if the rotation property is violated beyond tol"""
    from seqm.seqm_functions.two_elec_two_center_int import rotate_with_quaternion

    v = torch.tensor([v], dtype=torch.float64)
    v = v / v.norm()
    R, dR = rotate_with_quaternion(v, calculate_gradient=True)
    R = R[0]
    err_row = (R[0] - v[0]).abs().max().item()
    err_orth = (R @ R.T - torch.eye(3)).abs().max().item()
    err_det = abs(torch.det(R).item() - 1)
    # tangent derivative: for u ⟂ v, sum_k u_k dR[k,0,:] must be u
    u = torch.linalg.cross(v[0], torch.tensor([0.3, -0.5, 0.8]))
    u = u / u.norm()
    du = torch.einsum("k,kj->j", u, dR[0][:, 0, :])
    err_der = (du - u).abs().max().item()
    print("replay rotate_with_quaternion v=%s: |row0-v|=%.3e |RRt-I|=%.3e |det-1|=%.3e |tangent derivative error|=%.3e" % (v[0].tolist(), err_row, err_orth, err_det, err_der))
    if not (bool(torch.isfinite(R).all()) and bool(torch.isfinite(dR).all())):
        return True
    return max(err_row, err_orth, err_det) > tol or err_der > 1e-3


def replay_rotation_molecule(v, method="AM1"):
    """public-API replay: S=O bond placed along v vs the same molecule in a generic orientation; forces must be covariant"""
    from .common import single_point

    v = np.asarray(v, dtype=float)
    v = v / np.linalg.norm(v)
    base = torch.tensor([[0.0, 0, 0], [1.48, 0, 0], [-0.5, 1.2, 0.3], [-0.6, -0.9, 0.8]])
    sp = torch.tensor([[16, 8, 1, 1]])

    def rot_to(d):
        # rotation taking e_x to d
        d = torch.tensor(d, dtype=torch.float64)
        ex = torch.tensor([1.0, 0, 0])
        c = torch.dot(ex, d).item()
        if c < -1 + 1e-12:
            return torch.diag(torch.tensor([-1.0, -1.0, 1.0]))
        ax = torch.linalg.cross(ex, d)
        K = torch.tensor([[0, -ax[2], ax[1]], [ax[2], 0, -ax[0]], [-ax[1], ax[0], 0]])
        return torch.eye(3) + K + K @ K / (1 + c)

    out = {}
    for name, d in (("generic", [0.3, 0.5, math.sqrt(1 - 0.09 - 0.25)]), ("witness", list(-v))):
        # the ERI rotation is called with v = -xij direction, bond i->j; place bond along -v so the code sees +v
        R = rot_to(d)
        coords = (base @ R.T).unsqueeze(0)
        m, _ = single_point(sp, coords, method)
        out[name] = (m.Etot.detach().item(), (m.force.detach()[0] @ R))
    dE = abs(out["generic"][0] - out["witness"][0])
    dF = (out["generic"][1] - out["witness"][1]).abs().max().item()
    print("replay molecule (H2S=O, %s): |dE|=%.3e eV  max|dF| (rotated back)=%.3e eV/A" % (method, dE, dF))
    return dF > 1e-4 or dE > 1e-6


@obligation(PID, "a", title="rotate_with_quaternion: proper rotation with row0 = v and correct tangent derivative, all unit v")
def ob_a(ob):
    from seqm.seqm_functions.two_elec_two_center_int import rotate_with_quaternion

    ob.encodes(rotate_with_quaternion)
    ob.bound("all unit vectors v in R^3 (3 real variables, |v|=1); both branches of the antipodal mask explored by path forking")
    ob.assume("real arithmetic (no float rounding); norm -> auxiliary variable N>=0 with N*N = |q_raw|^2")
    vx, vy, vz = z3.Reals("vx vy vz")
    ux, uy, uz = z3.Reals("ux uy uz")
    V, U = [vx, vy, vz], [ux, uy, uz]
    unit = [vx * vx + vy * vy + vz * vz == 1]
    tang = [ux * vx + uy * vy + uz * vz == 0]

    def fn():
        v = SymTensor(np.array([[vx, vy, vz]], dtype=object))
        with symbolic_factories():
            rot, dRdv = rotate_with_quaternion(v, calculate_gradient=True)
        return rot.a[0].copy(), dRdv.a[0].copy()

    # translator validation at a concrete generic direction
    v0 = np.array([0.3, -0.5, math.sqrt(1 - 0.09 - 0.25)])
    ex = Explorer(assumptions=unit, piecewise="ite", kind="auto")
    res = ex.run(fn)
    ob.paths = ex.paths
    ob.require(ex.paths == 2, "expected 2 paths (mask / no mask), got %d" % ex.paths)
    Rt, dRt = rotate_with_quaternion(torch.tensor([v0]), calculate_gradient=True)

    known = ob.is_known("C02-antipodal-branch")
    eps_region = z3.RealVal(str(known["region"]["abs_1_plus_vx_lt"])) if known else None
    w = 1 + vx
    in_region = z3.If(w >= 0, w, -w) < eps_region if known else z3.BoolVal(False)

    tol = z3.RealVal("1e-6")
    absz = lambda e: z3.If(e >= 0, e, -e)
    validated = False
    reconfirmed = False
    for pc, side, (R, dR) in res:
        S.ST.side[:] = side
        env = dict(vx=v0[0], vy=v0[1], vz=v0[2])
        fe = S.FEval(env, _defs_from_side(side))
        if all(fe(c) for c in pc):
            validate = np.array([[fe(R[i, j]) for j in range(3)] for i in range(3)])
            from .common import validate_close

            validate_close(ob, "rot(v0)", validate, Rt[0], 1e-12)
            validate_close(ob, "dRdv(v0)", np.array([[[fe(dR[k, i, j]) for j in range(3)] for i in range(3)] for k in range(3)]), dRt[0], 1e-12)
            validated = True
        claims = []
        # (name, exact claim tried first, tolerance claim that is the actual obligation)
        for j in range(3):
            claims.append(("row0[%d]=v" % j, R[0, j] == V[j], absz(R[0, j] - V[j]) <= tol))
        for i in range(3):
            for j in range(i, 3):
                d = sum(R[i, k] * R[j, k] for k in range(3)) - (1 if i == j else 0)
                claims.append(("orth[%d,%d]" % (i, j), d == 0, absz(d) <= tol))
        det = R[0, 0] * (R[1, 1] * R[2, 2] - R[1, 2] * R[2, 1]) - R[0, 1] * (R[1, 0] * R[2, 2] - R[1, 2] * R[2, 0]) + R[0, 2] * (R[1, 0] * R[2, 1] - R[1, 1] * R[2, 0])
        claims.append(("det=+1", det == 1, absz(det - 1) <= tol))
        base = unit + tang + list(pc)
        from .common import expect_feasible

        expect_feasible(ob, base, "path")
        for name, cexact, c in claims:
            v, m = smt.prove(cexact, base + [z3.Not(in_region)], "a:" + name + " (exact)", "auto", 20)
            if v != "unsat" and cexact is not c:
                v, m = smt.prove(c, base + [z3.Not(in_region)], "a:" + name, "auto", 120)
            if v == "sat":
                vv = _unit_model_to_v(m, V)
                if replay_rotation(list(vv)):
                    ob.violation("rotate_with_quaternion violates '%s' at v=%s (outside every listed region)" % (name, vv.tolist()), {"module": "harness.C02", "func": "replay_rotation", "args": {"v": vv.tolist()}})
                else:
                    raise HarnessError("counterexample for %s at v=%s did not reproduce on the real function" % (name, vv.tolist()))
            else:
                ob.verdict(v, "a:" + name)
        if known and not reconfirmed:
            # re-confirm the listed finding inside its region with a robust witness (row error >= 1e-4)
            big = z3.Or(*[absz(R[0, j] - V[j]) >= z3.RealVal("1e-4") for j in range(3)])
            v, m = smt.check(base + list(S.ST.side) + [in_region, big], "a:known-region", "auto", 120)
            if v == "sat":
                vv = _unit_model_to_v(m, V)
                if replay_rotation(list(vv)) and replay_rotation_molecule([-1.0, 0.0, 0.0]):
                    ob.known_finding("C02-antipodal-branch", "rotate_with_quaternion returns the fixed flip diag(-1,-1,1) with zero derivative for |1+v_x|<1e-7: row0 != v (witness v=%s), forces of a bond on the -x/+x axis are not covariant" % [round(x, 9) for x in vv.tolist()])
                    reconfirmed = True
                    ob.sample({"known_region_witness_v": vv.tolist()})
    ob.require(validated, "no path matched the validation input")
    derivative_identity(ob)
    if ob.tier == "thorough":
        # cross-solver check of a sample of the queries (z3 -> SMT-LIB2 -> cvc5): disagreement means the encoding is suspect
        n_x = 0
        for pc, side, (R, dR) in res:
            cs = unit + list(pc) + list(side) + [z3.Not(in_region), R[0, 1] != V[1]]
            v_c = smt.cvc5_crosscheck(cs, 60)
            v_z, _ = smt.check(cs, "a:cvc5 cross-check (z3 side)", "auto", 60)
            ob.note("cross-solver: z3=%s cvc5=%s" % (v_z, v_c))
            if v_c in ("sat", "unsat") and v_z in ("sat", "unsat") and v_c != v_z:
                raise HarnessError("z3 and cvc5 disagree on a rotation query (%s vs %s)" % (v_z, v_c))
            n_x += 1
    # sensitivity twin: a rotation whose first row is -v must be refuted on the unmasked path
    for pc, side, (R, dR) in res:
        S.ST.side[:] = side
        from .common import expect_refuted

        expect_refuted(ob, R[0, 0] == -vx, unit + list(pc), "row0 = -v")
        break
    ob.sample({"paths": [[str(z3.simplify(c)) for c in pc] for pc, _, _ in res]})


def derivative_identity(ob):
    """analytic dRdv == exact (dual-number) derivative of the returned rot, for ALL v in R^3 (no unit constraint), both branches.
    Together with row0 = v on the sphere this gives: sum_k u_k dRdv[k,0,:] = u for every tangent u."""
    from seqm.seqm_functions.two_elec_two_center_int import rotate_with_quaternion

    vx, vy, vz = z3.Reals("vx vy vz")
    Z0, Z1 = z3.RealVal(0), z3.RealVal(1)

    def fn():
        S.ST.dual_n = 3
        try:
            v = SymTensor(np.array([[Dual(vx, (Z1, Z0, Z0)), Dual(vy, (Z0, Z1, Z0)), Dual(vz, (Z0, Z0, Z1))]], dtype=object))
            with symbolic_factories():
                rot, dRdv = rotate_with_quaternion(v, calculate_gradient=True)
        finally:
            S.ST.dual_n = 0
        return rot.a[0].copy(), dRdv.a[0].copy()

    ex = Explorer(assumptions=[], piecewise="ite", kind="auto")
    res = ex.run(fn)
    ob.paths += ex.paths
    twin_done = False
    for pc, side, (R, dR) in res:
        S.ST.side[:] = side
        from .common import expect_feasible, expect_refuted

        expect_feasible(ob, list(pc), "dual path")
        for k in range(3):
            for i in range(3):
                for j in range(3):
                    lab = "a:dRdv[%d,%d,%d]=d rot[%d,%d]/dv%d" % (k, i, j, i, j, k)
                    v, m = smt.prove(R[i, j].t[k] == dR[k, i, j].v, list(pc), lab, "auto", 60)
                    if v == "sat":
                        vv = [float(smt.model_value(m, x)) for x in (vx, vy, vz)]
                        if replay_rotation_derivative(vv):
                            ob.violation("analytic dRdv[%d,%d,%d] of rotate_with_quaternion is not the derivative of rot at v=%s" % (k, i, j, vv), {"module": "harness.C02", "func": "replay_rotation_derivative", "args": {"v": vv}})
                        else:
                            raise HarnessError("derivative counterexample at v=%s did not reproduce" % vv)
                    else:
                        ob.verdict(v, lab)
        if side and not twin_done:
            expect_refuted(ob, R[0, 1].t[1] == -dR[1, 0, 1].v, list(pc), "dRdv sign flipped")
            twin_done = True
    ob.require(twin_done, "sensitivity twin of the derivative identity did not run")


def replay_rotation_derivative(v, h=1e-6):
    """central finite difference of the real rot (float64, not normalised: the identity holds for all v) vs the analytic dRdv"""
    from seqm.seqm_functions.two_elec_two_center_int import rotate_with_quaternion

    v = torch.tensor([v], dtype=torch.float64)
    R, dR = rotate_with_quaternion(v, calculate_gradient=True)
    worst = 0.0
    for k in range(3):
        e = torch.zeros(1, 3)
        e[0, k] = h
        fd = (rotate_with_quaternion(v + e) - rotate_with_quaternion(v - e)) / (2 * h)
        worst = max(worst, (fd[0] - dR[0, k]).abs().max().item())
    print("replay dRdv vs finite difference at v=%s: max error %.3e" % (v[0].tolist(), worst))
    return (not (worst == worst)) or (not bool(torch.isfinite(dR).all())) or worst > 1e-5


def _defs_from_side(side):
    """aux-variable definitions recovered from side constraints And(s>=0, s*s==x)"""
    defs = {}
    for c in side:
        if z3.is_and(c) and c.num_args() == 2:
            b = c.arg(1)
            if z3.is_eq(b) and z3.is_mul(b.arg(0)):
                defs[str(b.arg(0).arg(0))] = ("sqrt", b.arg(1))
    return defs


# ------------------------------------------------------------------------------------------------
# b: gauge invariance of w_withquaternion: the integrals do not depend on the choice of the two
#    perpendicular axes r1, r2 (Lie derivative along the SO(2) gauge orbit vanishes identically)
# ------------------------------------------------------------------------------------------------


def _run_w(rows, ri, riXH, ni, nj):
    import seqm.seqm_functions.two_elec_two_center_int as T
    from seqm.seqm_functions.constants import Constants

    const = Constants()
    npair = len(ni)
    rot = np.empty((npair, 3, 3), dtype=object)
    for p in range(npair):
        for i in range(3):
            for j in range(3):
                rot[p, i, j] = rows[i][j]
    orig = T.rotate_with_quaternion
    T.rotate_with_quaternion = lambda v, calculate_gradient=False: SymTensor(rot.copy())
    try:
        with symbolic_factories():
            xij = torch.tensor([[1.0, 0, 0]] * npair)
            e1b, e2a, wXH, w = T.w_withquaternion(None, const.tore, ni, nj, xij, SymTensor(riXH), SymTensor(ri), SymTensor(np.empty((0,), dtype=object)))
    finally:
        T.rotate_with_quaternion = orig
    return w, wXH, e1b, e2a


@obligation(PID, "b", title="w_withquaternion is invariant under the choice of the perpendicular frame axes (gauge), XX and XH blocks")
def ob_b(ob):
    import seqm.seqm_functions.two_elec_two_center_int as T

    ob.encodes(T.w_withquaternion)
    ob.bound("one XX pair and one XH pair; 22 (+4) local-frame integrals free reals subject to ri[21]=(ri[18]-ri[20])/2; rotation rows r0,r1,r2 free reals (no orthonormality needed)")
    ob.assume("rotate_with_quaternion stubbed by free rows (its own contract is obligation a)")
    r = S.reals("r", (3, 3))
    ri1 = S.reals("ri", (22,))
    ri1[21] = (ri1[18] - ri1[20]) / 2
    rx = S.reals("rx", (4,))
    ni = torch.tensor([8, 8])
    nj = torch.tensor([6, 1])
    Z0 = z3.RealVal(0)
    S.ST.dual_n = 1
    try:
        rows = [[Dual(r[0, j], (Z0,)) for j in range(3)], [Dual(r[1, j], (r[2, j],)) for j in range(3)], [Dual(r[2, j], (-r[1, j],)) for j in range(3)]]
        ri = np.array([[Dual(x, (Z0,)) for x in ri1]], dtype=object)
        riXH = np.array([[Dual(x, (Z0,)) for x in rx]], dtype=object)
        w, wXH, e1b, e2a = _run_w(rows, ri, riXH, ni, nj)
        # sensitivity twin input: drop the relation
        ri2 = ri1.copy()
        ri2[21] = z3.Real("ri_21_free")
        riB = np.array([[Dual(x, (Z0,)) for x in ri2]], dtype=object)
        w2, _, _, _ = _run_w(rows, riB, riXH, ni, nj)
    finally:
        S.ST.dual_n = 0
    ob.require(w.a.shape == (1, 100) and wXH.a.shape == (1, 10), "unexpected shapes %s %s" % (w.a.shape, wXH.a.shape))
    n_bad = 0
    for k, e in enumerate(list(w.a[0]) + list(wXH.a[0])):
        v, m = smt.prove(e.t[0] == 0, [], "b:lie[%d]" % k, "auto", 60)
        if not ob.verdict(v, "b:lie[%d]" % k) and v == "sat":
            n_bad += 1
            args = {"k": k}
            if replay_gauge():
                ob.violation("w_withquaternion element %d depends on the gauge (choice of perpendicular axes)" % k, {"module": "harness.C02", "func": "replay_gauge", "args": {}})
                break
            raise HarnessError("gauge counterexample (element %d) did not reproduce" % k)
    # reflection r2 -> -r2 leaves w unchanged (improper gauge element)
    S.ST.dual_n = 0
    rows_p = [[r[i, j] for j in range(3)] for i in range(3)]
    rows_m = [[r[0, j] for j in range(3)], [r[1, j] for j in range(3)], [-r[2, j] for j in range(3)]]
    riP = np.array([list(ri1)], dtype=object)
    rxP = np.array([list(rx)], dtype=object)
    wa, wxa, _, _ = _run_w(rows_p, riP, rxP, ni, nj)
    wb, wxb, _, _ = _run_w(rows_m, riP, rxP, ni, nj)
    for k, (e1, e2) in enumerate(zip(list(wa.a[0]) + list(wxa.a[0]), list(wb.a[0]) + list(wxb.a[0]))):
        v, m = smt.prove(e1 == e2, [], "b:refl[%d]" % k, "auto", 60)
        if not ob.verdict(v, "b:refl[%d]" % k) and v == "sat":
            if replay_gauge():
                ob.violation("w_withquaternion element %d changes under reflection of the second perpendicular axis" % k, {"module": "harness.C02", "func": "replay_gauge", "args": {}})
                break
            raise HarnessError("reflection counterexample (element %d) did not reproduce" % k)
    # sensitivity twin: without the relation some elements must become gauge dependent
    nsat = 0
    for e in w2.a[0]:
        v, _ = smt.check([e.t[0] != 0], "twin:b", "auto", 30)
        nsat += v == "sat"
    ob.require(nsat >= 10, "sensitivity twin: dropping ri[21]=(ri[18]-ri[20])/2 should make elements gauge dependent, got %d" % nsat)
    ob.note("sensitivity twin: %d/100 elements gauge dependent when the ri[21] relation is dropped" % nsat)
    ob.sample({"element": 99, "lie_derivative_term": str(z3.simplify(w.a[0][99].t[0]))[:300]})


def replay_gauge():
    """real torch: w from a rotation whose perpendicular axes are rotated by an angle about the bond must not change"""
    import seqm.seqm_functions.two_elec_two_center_int as T
    from seqm.seqm_functions.constants import Constants

    const = Constants()
    g = torch.Generator().manual_seed(3)
    ri = torch.rand(1, 22, generator=g)
    ri[:, 21] = 0.5 * (ri[:, 18] - ri[:, 20])
    riXH = torch.rand(1, 4, generator=g)
    v = torch.tensor([[0.36, 0.48, 0.8]])
    R0 = T.rotate_with_quaternion(v)
    th = 0.7
    G = torch.tensor([[1.0, 0, 0], [0, math.cos(th), math.sin(th)], [0, -math.sin(th), math.cos(th)]])
    outs = []
    orig = T.rotate_with_quaternion
    for R in (R0, (G @ R0[0]).unsqueeze(0)):
        T.rotate_with_quaternion = lambda v_, calculate_gradient=False, R=R: R.expand(v_.shape[0], 3, 3).clone()
        try:
            e1b, e2a, wXH, w = T.w_withquaternion(None, const.tore, torch.tensor([8, 8]), torch.tensor([6, 1]), -v.expand(2, 3), riXH, ri.expand(2, 22)[:1], torch.empty(0))
        finally:
            T.rotate_with_quaternion = orig
        outs.append((w.clone(), wXH.clone()))
    d = max((outs[0][0] - outs[1][0]).abs().max().item(), (outs[0][1] - outs[1][1]).abs().max().item())
    print("replay gauge: max |w(R) - w(G R)| = %.3e" % d)
    return d > 1e-10


# ------------------------------------------------------------------------------------------------
# d: d-orbital rotation matrices (PM6): the p block is a rotation whose first row is the bond direction, incl. the polar branch
# ------------------------------------------------------------------------------------------------


def replay_rotation_d(v):
    """float64: p block of GenerateRotationMatrix at the (unit) direction v: orthogonality and first row = -v"""
    from seqm.seqm_functions.RotationMatrixD import GenerateRotationMatrix

    x = torch.tensor([v], dtype=torch.float64)
    x = x / x.norm()
    M = GenerateRotationMatrix(x)
    P = torch.stack([M[0, 0:3, k] for k in (1, 3, 6)])  # P[K, :]
    e_row = (P[0] + x[0]).abs().max().item()
    e_orth = (P @ P.T - torch.eye(3)).abs().max().item()
    D = torch.stack([M[0, 0:5, k] for k in (10, 15, 21, 28, 36)])
    e_d = (D @ D.T - torch.eye(5)).abs().max().item() if M.shape[1] >= 5 else 0.0
    print("replay GenerateRotationMatrix v=%s: |P row0 + v| = %.3e, |P P^T - 1| = %.3e" % (x[0].tolist(), e_row, e_orth))
    return e_row > 1e-8 or e_orth > 1e-8


@obligation(PID, "d", title="d-orbital rotation (PM6): the p block of GenerateRotationMatrix is orthogonal and its first row is the bond direction, for every unit vector incl. the polar branch xy < 1e-10")
def ob_d(ob):
    from seqm.seqm_functions.RotationMatrixD import GenerateRotationMatrix

    ob.encodes(GenerateRotationMatrix)
    ob.bound("all unit vectors (3 symbolic reals); regular and polar branch explored by path forking; p block read from the returned matrix (columns 1,3,6)")
    vx, vy, vz = z3.Reals("vx vy vz")
    V = [vx, vy, vz]
    unit = [vx * vx + vy * vy + vz * vz == 1]

    def fn():
        x = SymTensor(np.array([[vx, vy, vz]], dtype=object))
        with symbolic_factories():
            M = GenerateRotationMatrix(x)
        return np.array([[M.a[0, c, k] for c in range(3)] for k in (1, 3, 6)], dtype=object)

    ex = Explorer(assumptions=unit, piecewise="ite", kind="nra")
    res = ex.run(fn)
    ob.paths += ex.paths
    ob.require(ex.paths >= 2, "expected regular and polar paths, got %d" % ex.paths)
    tol = z3.RealVal("1e-8")
    absz = lambda e: z3.If(e >= 0, e, -e)
    for pc, side, P in res:
        S.ST.side[:] = side
        base = unit + list(pc)
        claims = [("row0[%d] = -v" % j, P[0, j] == -V[j], absz(P[0, j] + V[j]) <= tol) for j in range(3)]
        for i in range(3):
            for j in range(i, 3):
                d = sum(P[i, k] * P[j, k] for k in range(3)) - (1 if i == j else 0)
                claims.append(("orth[%d,%d]" % (i, j), d == 0, absz(d) <= tol))
        for name, cexact, c in claims:
            v, m = smt.prove(cexact, base, "d:" + name + " (exact)", "nra", 30)
            if v != "unsat":
                v, m = smt.prove(c, base, "d:" + name, "nra", 90)
            if v == "sat":
                vv = [float(smt.model_value(m, x)) for x in V]
                if replay_rotation_d(vv):
                    ob.violation("GenerateRotationMatrix violates '%s' at v=%s (PM6 d-orbital pairs are rotated into the wrong frame)" % (name, vv), {"module": "harness.C02", "func": "replay_rotation_d", "args": {"v": vv}})
                else:
                    raise HarnessError("d-rotation counterexample at v=%s did not reproduce (%s)" % (vv, name))
                return
            ob.verdict(v, "d:" + name)


# ---- shared obligation: translation behaviour of the dipole (shift by total charge times t, none for neutral molecules) follows from the dipole being the one implied by charges and density ----
@obligation(PID, "g", title='[shared with C14.b] atomic charges follow from the density (sum = sum Z_val - tr P) and the dipole is the one implied by those charges and the density: point charges + sp hybridisation term; shifts by (total charge)*t under translation; RHF and UHF')
def ob_g_shared(ob):
    """translation behaviour of the dipole (shift by total charge times t, none for neutral molecules) follows from the dipole being the one implied by charges and density"""
    from . import C14 as _m  # imported lazily: the harness modules share obligations in both directions

    ob.note("this obligation is the one registered as C14.b; it is also decided here because translation behaviour of the dipole (shift by total charge times t, none for neutral molecules) follows from the dipole being the one implied by charges and density")
    _m.ob_b(ob)


def replay_rotate_core(v):
    """float64: real GenerateRotationMatrix + RotateCore at direction v with generic local-frame core integrals: the
    rotation-invariant scalars (block traces and Frobenius norms) of the rotated integrals must equal the local-frame ones"""
    from seqm.seqm_functions.RotationMatrixD import GenerateRotationMatrix, RotateCore

    x = torch.tensor([v], dtype=torch.float64)
    x = x / x.norm()
    core = torch.tensor([[0.3 + 0.07 * i for i in range(45)]], dtype=torch.float64)
    r = RotateCore(core, GenerateRotationMatrix(x).double(), 3)[0]
    c = core[0]
    ds, dp, ddiag = [10, 15, 21, 28, 36], [11, 12, 13, 16, 17, 18, 22, 23, 24, 29, 30, 31, 37, 38, 39], [14, 20, 27, 35, 44]
    dd = [14, 19, 20, 25, 26, 27, 32, 33, 34, 35, 40, 41, 42, 43, 44]
    dev = {
        "ds norm": (r[ds] ** 2).sum() - c[21] ** 2,
        "ps norm": r[1] ** 2 + r[3] ** 2 + r[6] ** 2 - c[6] ** 2,
        "pp trace": r[2] + r[5] + r[9] - (c[9] + 2 * c[2]),
        "dd trace": r[ddiag].sum() - (c[27] + 2 * c[20] + 2 * c[14]),
        "pp frob": r[2] ** 2 + r[5] ** 2 + r[9] ** 2 + 2 * (r[4] ** 2 + r[7] ** 2 + r[8] ** 2) - (c[9] ** 2 + 2 * c[2] ** 2),
        "dp frob": (r[dp] ** 2).sum() - (c[24] ** 2 + 2 * c[16] ** 2),
        "dd frob": sum(r[k] ** 2 * (1 if k in ddiag else 2) for k in dd) - (c[27] ** 2 + 2 * c[20] ** 2 + 2 * c[14] ** 2),
    }
    worst = max(abs(t.item()) for t in dev.values())
    print("replay RotateCore at v=%s: deviations of the invariants %s" % ([round(t, 4) for t in x[0].tolist()], {k: "%.2e" % t.item() for k, t in dev.items()}))
    return worst > 1e-9


@obligation(PID, "e", title="d-orbital core-attraction integrals (PM6): RotateCore applied to the matrix of GenerateRotationMatrix preserves the rotation-invariant scalars of every block (|d-s|, |p-s|, traces of p-p and d-d, Frobenius norms of p-p, d-p, d-d) for every bond direction and arbitrary local-frame integrals — so no element is left unrotated or unfilled")
def ob_e(ob):
    from seqm.seqm_functions.RotationMatrixD import GenerateRotationMatrix, RotateCore

    ob.encodes(GenerateRotationMatrix, RotateCore)
    ob.bound("all unit vectors (3 symbolic reals), regular and polar branch by path forking; the 45 local-frame integrals symbolic; quadratic invariants decided coefficient by coefficient")
    ob.assume("the 13-digit literal PT5SQ3 = 0.8660254037841 is read as sqrt(3)/2 (relative deviation 4e-13; with the literal itself the invariants hold to ~1e-12 only)")
    vx, vy, vz, s3h = z3.Reals("vx vy vz s3h")
    V = [vx, vy, vz]
    unit = [vx * vx + vy * vy + vz * vz == 1, s3h > 0, 4 * s3h * s3h == 3]
    c = [z3.Real("c%d" % i) for i in range(45)]
    S.FLOAT_ALIAS[0.8660254037841] = s3h

    def fn():
        x = SymTensor(np.array([[vx, vy, vz]], dtype=object))
        with symbolic_factories():
            M = GenerateRotationMatrix(x)
            rot = RotateCore(SymTensor(np.array([c], dtype=object)), M, 3)
        return rot.a[0].copy()

    try:
        ex = Explorer(assumptions=unit, piecewise="ite", kind="nra")
        res = ex.run(fn)
    finally:
        S.FLOAT_ALIAS.clear()
    ob.paths += ex.paths
    ob.require(ex.paths >= 2, "expected regular and polar paths, got %d" % ex.paths)
    ds, dp, ddiag = [10, 15, 21, 28, 36], [11, 12, 13, 16, 17, 18, 22, 23, 24, 29, 30, 31, 37, 38, 39], [14, 20, 27, 35, 44]
    dd = [14, 19, 20, 25, 26, 27, 32, 33, 34, 35, 40, 41, 42, 43, 44]
    for pc, side, r in res:
        S.ST.side[:] = side
        base = unit + list(pc)
        lin = [("pp trace", r[2] + r[5] + r[9], c[9] + 2 * c[2], (c[9], c[2])), ("dd trace", sum(r[k] for k in ddiag), c[27] + 2 * c[20] + 2 * c[14], (c[27], c[20], c[14]))]
        quad = [
            ("ds norm", sum(r[k] * r[k] for k in ds), c[21] * c[21], (c[21],)),
            ("ps norm", r[1] * r[1] + r[3] * r[3] + r[6] * r[6], c[6] * c[6], (c[6],)),
            ("pp frob", r[2] * r[2] + r[5] * r[5] + r[9] * r[9] + 2 * (r[4] * r[4] + r[7] * r[7] + r[8] * r[8]), c[9] * c[9] + 2 * c[2] * c[2], (c[9], c[2])),
            ("dp frob", sum(r[k] * r[k] for k in dp), c[24] * c[24] + 2 * c[16] * c[16], (c[24], c[16])),
            ("dd frob", sum(r[k] * r[k] * (1 if k in ddiag else 2) for k in dd), c[27] * c[27] + 2 * c[20] * c[20] + 2 * c[14] * c[14], (c[27], c[20], c[14])),
        ]
        if ob.tier != "thorough":
            quad = [q for q in quad if q[0] != "dd frob"]  # degree-8 identities: minutes each, thorough tier only
        claims = []
        for name, got, want, vs in lin:
            for v1 in vs:
                sub = [(x, z3.RealVal(1 if x is v1 else 0)) for x in c]
                claims.append(("%s, coefficient of %s" % (name, v1), z3.substitute(got, *sub) == z3.substitute(want, *sub)))
        for name, got, want, vs in quad:
            pts = [tuple(1 if j == i else 0 for j in range(len(vs))) for i in range(len(vs))] + [tuple(1 if j in (i, k) else 0 for j in range(len(vs))) for i in range(len(vs)) for k in range(i + 1, len(vs))]
            for pt in pts:
                val = dict(zip([str(x) for x in vs], pt))
                sub = [(x, z3.RealVal(val.get(str(x), 0))) for x in c]
                claims.append(("%s at %s" % (name, val), z3.substitute(got, *sub) == z3.substitute(want, *sub)))
        for name, cl in claims:
            lab = "e:%s" % name
            v, m = smt.prove(cl, base, lab, "nra", 90 if ob.tier != "thorough" else 240)
            if v == "sat":
                vv = [float(smt.model_value(m, x)) for x in V]
                if replay_rotate_core(vv):
                    ob.violation("RotateCore/GenerateRotationMatrix do not preserve '%s' at v=%s: a d-orbital core-attraction element is rotated wrongly or left unfilled, so PM6 energies depend on the orientation" % (name, vv), {"module": "harness.C02", "func": "replay_rotate_core", "args": {"v": vv}})
                    return
                raise HarnessError("RotateCore counterexample at v=%s did not reproduce (%s)" % (vv, name))
            ob.verdict(v, lab)
    x, y = z3.Reals("x y")
    expect_refuted(ob, x * x + y * y == 1, [x * x + y * y + 0 * x == 1 - y * y], "twin: a norm that misses one component", "nra")


# ---- shared obligation: NAC vectors rotate with the molecule because they are gradient-type contractions of the exact Fock-matrix derivative ----
@obligation(PID, "h", title="[shared with C17.h] nonadiabatic coupling vectors: the derivative operators assembled in nac.py (overlap, exchange, Coulomb and core-attraction parts) contracted with a symmetric transition density give, for every atom and Cartesian direction, the exact derivative of sum_{mu nu} B_{mu nu} F_{mu nu} at fixed ground-state density — so the coupling vector is a gradient-type (rotation-covariant) quantity")
def ob_h_shared(ob):
    """NAC vectors are covariant under rigid motions because they are derivatives of a rotation-invariant scalar"""
    from . import C17 as _m  # imported lazily: the harness modules share obligations in both directions

    ob.note("this obligation is the one registered as C17.h; it is also decided here because covariance of the coupling vectors under rotation follows from their being the exact derivative of the invariant scalar sum B F; keeping only part of an operator block is not a covariant operation")
    _m.ob_h(ob)
