"""helpers shared by the harness modules"""
import io
import contextlib
import os
import sys
import warnings

warnings.filterwarnings("ignore")
sys.dont_write_bytecode = True

import numpy as np  # noqa: E402
import torch  # noqa: E402
import z3  # noqa: E402

torch.set_default_dtype(torch.float64)
torch.set_num_threads(1)

from engine import symtorch as S  # noqa: E402
from engine import smt  # noqa: E402
from engine.symtorch import SymTensor, symbolic_factories, Dual  # noqa: E402
from engine.explorer import Explorer  # noqa: E402
from engine.ob import obligation, HarnessError  # noqa: E402

REPO = os.environ.get("VERIF_REPO", "/repo")  # development only: the registered commands never set VERIF_REPO


def quiet():
    return contextlib.redirect_stdout(io.StringIO())


def validate_close(ob, label, sym_value, torch_value, tol=1e-9):
    """translator validation: symbolic run evaluated at concrete inputs vs the real torch result"""
    a = np.asarray(sym_value, dtype=float)
    b = torch_value.detach().cpu().numpy() if isinstance(torch_value, torch.Tensor) else np.asarray(torch_value, dtype=float)
    if a.shape != b.shape:
        raise HarnessError("translator validation %s: shape %s vs %s" % (label, a.shape, b.shape))
    d = float(np.max(np.abs(a - b))) if a.size else 0.0
    if not (d <= tol):
        raise HarnessError("translator validation %s: max |sym - torch| = %.3e > %.1e" % (label, d, tol))
    ob.note("translator validation %s: max |sym - torch| = %.2e over %d values" % (label, d, a.size))
    return d


def prove_all(ob, claims, assumptions, label, kind="auto", timeout_s=60):
    """prove each claim (z3 Bool) separately; returns list of (index, verdict, model) for the non-proved"""
    bad = []
    for i, c in enumerate(claims):
        v, m = smt.prove(c, assumptions, "%s[%d]" % (label, i), kind, timeout_s)
        if not ob.verdict(v, "%s[%d]" % (label, i)):
            bad.append((i, v, m))
    return bad


def expect_refuted(ob, claim, assumptions, label, kind="auto", timeout_s=60):
    """sensitivity twin: a deliberately wrong claim must be refuted (sat), otherwise the obligation is vacuous"""
    v, m = smt.prove(claim, assumptions, "twin:" + label, kind, timeout_s)
    if v != "sat":
        raise HarnessError("sensitivity twin '%s' was not refuted (%s): the obligation would be vacuous" % (label, v))
    return m


def expect_feasible(ob, assumptions, label="assumptions", kind="auto", timeout_s=60):
    """vacuity witness: assumption set + side constraints must be satisfiable"""
    v = smt.feasible(assumptions, "vacuity:" + label, kind, timeout_s)
    if v != "sat":
        raise HarnessError("vacuity witness '%s': assumptions are %s" % (label, v))


def fr(x):
    from fractions import Fraction

    return Fraction(x)


def molecule(species, coords, method="AM1", charges=0, mult=1, **kw):
    from seqm.Molecule import Molecule
    from seqm.seqm_functions.constants import Constants

    const = Constants()
    p = {"method": method, "scf_eps": 1e-10, "scf_converger": [1]}
    p.update(kw)
    sp = torch.as_tensor(species)
    xyz = torch.as_tensor(coords, dtype=torch.float64)
    with quiet():
        m = Molecule(const, p, xyz, sp, charges=charges, mult=mult)
    m.verbose = False
    return m, p, const


def single_point(species, coords, method="AM1", **kw):
    from seqm.ElectronicStructure import Electronic_Structure

    m, p, const = molecule(species, coords, method, **kw)
    with quiet():
        es = Electronic_Structure(p)
        es(m)
    return m, es
