"""C08 — NVE dynamics: time-reversible, momentum conserving velocity Verlet; unit constants; thermo bookkeeping (engine E1/E3)."""
from fractions import Fraction

from .common import *  # noqa: F401,F403
from .common import S, smt, z3, np, torch, SymTensor, symbolic_factories, obligation, HarnessError, expect_refuted, expect_feasible
from . import mdsym

PID = "C08"


def _step_setup(species, cls="Molecular_Dynamics_Basic", dt=None):
    S.reset()
    md = mdsym.make_md(cls, Temp=0.0)
    dtv = z3.Real("dt") if dt is None else dt
    md.timestep = SymTensor(np.array(dtv, dtype=object))
    mol, real, mass_pos = mdsym.sym_molecule(species)
    return md, mol, real, mass_pos, dtv


def _acc_scale():
    import seqm.MolecularDynamics as MD

    return S.rv(MD.CONSTANTS.ACC_SCALE)


def replay_verlet(kind):
    """float64 public-class replay with an analytic central force field: reversibility and momentum conservation of one_step"""
    import seqm.MolecularDynamics as MD
    import types as _t

    class FF(torch.nn.Module):
        def __init__(s, *a, **k):
            super().__init__()

        def forward(s, molecule, *a, **k):
            x = molecule.coordinates.detach()
            d = x[:, :, None, :] - x[:, None, :, :]
            r2 = (d * d).sum(-1) + torch.eye(x.shape[1]).unsqueeze(0)
            molecule.force = -(d / r2.unsqueeze(-1) ** 2).sum(dim=2) + (d * 0.3).sum(dim=2) * (-1)

    MD.esdriver = FF
    md = MD.Molecular_Dynamics_Basic(seqm_parameters={"method": "AM1"}, timestep=0.4, Temp=0.0, output={"molid": [0], "prefix": "x", "h5": {}})
    g = torch.Generator().manual_seed(1)
    x0 = torch.rand(1, 3, 3, generator=g) * 2
    v0 = torch.rand(1, 3, 3, generator=g) * 0.1
    m = torch.tensor([[[16.0], [1.0], [1.0]]])
    mol = _t.SimpleNamespace(const=_t.SimpleNamespace(do_timing=False), coordinates=x0.clone(), velocities=v0.clone(), mass=m, mass_inverse=1 / m, dm=None, cis_amplitudes=None, force=None, acc=None)
    md.esdriver(mol)
    mol.acc = mol.force * mol.mass_inverse * MD.CONSTANTS.ACC_SCALE
    p0 = (m * mol.velocities).sum(dim=1)
    L0 = (m * torch.linalg.cross(mol.coordinates, mol.velocities)).sum(dim=1)
    md.one_step(mol)
    p1 = (m * mol.velocities).sum(dim=1)
    L1 = (m * torch.linalg.cross(mol.coordinates, mol.velocities)).sum(dim=1)
    mol.velocities = -mol.velocities
    md.one_step(mol)
    rev = max((mol.coordinates - x0).abs().max().item(), (mol.velocities + v0).abs().max().item())
    dp, dL = (p1 - p0).abs().max().item(), (L1 - L0).abs().max().item()
    print("replay velocity Verlet: reversibility error %.3e, |dP| %.3e, |dL| %.3e" % (rev, dp, dL))
    return {"reversibility": rev > 1e-10, "momentum": dp > 1e-12, "angular": dL > 1e-12, "any": rev > 1e-10 or dp > 1e-12 or dL > 1e-12}[kind]


@obligation(PID, "a", title="one_step is time reversible and conserves linear and angular momentum for an arbitrary (uninterpreted) force field, all positions, velocities, masses, time steps")
def ob_a(ob):
    import seqm.MolecularDynamics as MD

    ob.encodes(MD.Molecular_Dynamics_Basic.one_step)
    ob.bound("1 molecule x 3 atoms (and a padded 2-molecule batch for momentum); positions, velocities, masses>0, dt symbolic reals; force field uninterpreted (fresh symbols per evaluation + congruence: same geometry => same force)")
    ob.assume("electronic-structure driver replaced by the uninterpreted force field; momentum balance is asserted as the unconditional identities dP = dt/2 (sum F_old + sum F_new), dL = dt/2 (torque_old + torque_new): both are conserved exactly when the energy is translation/rotation invariant (C02)")
    ACC = _acc_scale()
    # ---- reversibility ----
    md, mol, real, mass_pos, dt = _step_setup([[8, 1, 1]])
    x0, v0 = mol.coordinates.a.copy(), mol.velocities.a.copy()
    with symbolic_factories():
        md.esdriver(mol)
        mol.acc = mol.force * mol.mass_inverse * MD.CONSTANTS.ACC_SCALE
        md.one_step(mol)
        x1, v1 = mol.coordinates.a.copy(), mol.velocities.a.copy()
        F0, F1 = mdsym.ForceField.calls[0][1], mdsym.ForceField.calls[1][1]
        mol.velocities = SymTensor(-mol.velocities.a)
        md.one_step(mol)
    x2, v2 = mol.coordinates.a, mol.velocities.a
    base = mass_pos + [dt > 0]
    expect_feasible(ob, base, "masses, dt")
    bad = False
    for k in np.ndindex(x0.shape):
        for name, c in (("x", x2[k] == x0[k]), ("v", v2[k] == -v0[k])):
            lab = "a:reversibility %s%s" % (name, list(k))
            v, m = smt.prove(c, base, lab, "auto", 60)
            if v == "sat" and not bad:
                bad = True
                if replay_verlet("reversibility"):
                    ob.violation("one_step is not time reversible (step, flip velocities, step does not return to the start)", {"module": "harness.C08", "func": "replay_verlet", "args": {"kind": "reversibility"}})
                else:
                    raise HarnessError("reversibility counterexample did not reproduce")
            elif v != "sat":
                ob.verdict(v, lab)
    # ---- momentum after one step (3 atoms + padded batch) ----
    for species in ([[8, 1, 1]], [[8, 1, 1], [1, 1, 0]]):
        md, mol, real, mass_pos, dt = _step_setup(species)
        nmol, molsize = len(species), len(species[0])
        v0 = mol.velocities.a.copy()
        x0 = mol.coordinates.a.copy()
        with symbolic_factories():
            md.esdriver(mol)
            mol.acc = mol.force * mol.mass_inverse * MD.CONSTANTS.ACC_SCALE
            md.one_step(mol)
        x1, v1 = mol.coordinates.a, mol.velocities.a
        F0, F1 = mdsym.ForceField.calls[0][1], mdsym.ForceField.calls[1][1]
        m = mol.mass.a
        base = mass_pos + [dt > 0]
        for b in range(nmol):
            atoms = [a for a in range(molsize) if real[b, a]]
            sumF = [z3.And(sum(F0[b, a, c] for a in atoms) == 0, sum(F1[b, a, c] for a in atoms) == 0) for c in range(3)]
            for c in range(3):
                dP = sum(m[b, a, 0] * (v1[b, a, c] - v0[b, a, c]) for a in atoms)
                lab = "a:linear momentum %s mol %d comp %d" % (species, b, c)
                v, mm = smt.prove(dP == Fraction(1, 2) * dt * ACC * sum(F0[b, a, c] + F1[b, a, c] for a in atoms), base, lab, "auto", 60)
                if v == "sat":
                    if replay_verlet("momentum"):
                        ob.violation("one_step: change of linear momentum is not dt/2 * (sum F_old + sum F_new)", {"module": "harness.C08", "func": "replay_verlet", "args": {"kind": "momentum"}})
                    else:
                        raise HarnessError("momentum counterexample did not reproduce")
                else:
                    ob.verdict(v, lab)
            # padding atoms do not move
            for a in range(molsize):
                if not real[b, a]:
                    for c in range(3):
                        v, mm = smt.prove(z3.And(v1[b, a, c] == v0[b, a, c]), base, "a:padding velocity", "auto", 30)
                        ob.verdict(v, "a:padding velocity unchanged by the kicks")
            if len(species) == 1:
                cross = lambda p, q: [p[1] * q[2] - p[2] * q[1], p[2] * q[0] - p[0] * q[2], p[0] * q[1] - p[1] * q[0]]
                for c in range(3):
                    L0 = sum(m[b, a, 0] * cross(x0[b, a], v0[b, a])[c] for a in atoms)
                    L1 = sum(m[b, a, 0] * cross(x1[b, a], v1[b, a])[c] for a in atoms)
                    tq = sum(cross(x0[b, a], F0[b, a])[c] + cross(x1[b, a], F1[b, a])[c] for a in atoms)
                    lab = "a:angular momentum comp %d" % c
                    # unconditional identity: dL = dt/2 * ACC * (torque_old + torque_new)  (=> conserved when both torques vanish)
                    v, mm = smt.prove(L1 - L0 == Fraction(1, 2) * dt * ACC * tq, base, lab, "auto", 120)
                    if v == "sat":
                        if replay_verlet("angular"):
                            ob.violation("one_step: change of angular momentum is not dt/2 * (torque_old + torque_new)", {"module": "harness.C08", "func": "replay_verlet", "args": {"kind": "angular"}})
                        else:
                            raise HarnessError("angular momentum counterexample did not reproduce")
                    else:
                        ob.verdict(v, lab)
    expect_refuted(ob, x1[0, 0, 0] == x0[0, 0, 0] + dt * v0[0, 0, 0], base, "drift without the half kick")
    ob.sample({"x1[0,0,0]": str(z3.simplify(x1[0, 0, 0]))[:200]})


def replay_reuse():
    """float64: one driver object used for two molecules with different masses: the second step must use the second molecule's masses"""
    import seqm.MolecularDynamics as MD
    import types as _t

    class FF(torch.nn.Module):
        def __init__(s, *a, **k):
            super().__init__()

        def forward(s, molecule, *a, **k):
            molecule.force = torch.ones_like(molecule.coordinates)

    MD.esdriver = FF
    md = MD.Molecular_Dynamics_Basic(seqm_parameters={"method": "AM1"}, timestep=0.5, Temp=0.0, output={"molid": [0], "prefix": "x", "h5": {}})
    outs = []
    for masses in ([[16.0], [1.0]], [[1.0], [16.0]]):
        m = torch.tensor([masses])
        mol = _t.SimpleNamespace(const=_t.SimpleNamespace(do_timing=False), coordinates=torch.zeros(1, 2, 3), velocities=torch.zeros(1, 2, 3), mass=m, mass_inverse=1 / m, dm=None, cis_amplitudes=None, force=None, acc=torch.zeros(1, 2, 3))
        md.one_step(mol)
        outs.append(mol.velocities.clone())
    exp = 0.5 * 0.5 * MD.CONSTANTS.ACC_SCALE / torch.tensor([[1.0], [16.0]])
    d = (outs[1][0] - exp).abs().max().item()
    print("replay driver reuse: velocity after the second molecule's step deviates by %.3e from F/m with its own masses" % d)
    return d > 1e-12


@obligation(PID, "b", title="the step uses the masses and forces of the molecule it is given: a driver object reused for a second molecule integrates it exactly like a fresh driver")
def ob_b(ob):
    import seqm.MolecularDynamics as MD

    ob.encodes(MD.Molecular_Dynamics_Basic.one_step, MD.Molecular_Dynamics_Langevin.one_step)
    ob.bound("two consecutive one_step calls on the same driver with two different symbolic molecules (2 atoms each, different symbolic masses)")
    ACC = _acc_scale()
    for cls in ("Molecular_Dynamics_Basic",):
        S.reset()
        md = mdsym.make_md(cls, Temp=0.0)
        dt = z3.Real("dt")
        md.timestep = SymTensor(np.array(dt, dtype=object))
        molA, realA, posA = mdsym.sym_molecule([[8, 1]], "A")
        molB, realB, posB = mdsym.sym_molecule([[1, 1]], "B")
        res = []
        with symbolic_factories():
            for mol in (molA, molB):
                md.esdriver(mol)
                mol.acc = mol.force * mol.mass_inverse * MD.CONSTANTS.ACC_SCALE
                v0 = mol.velocities.a.copy()
                F0 = mdsym.ForceField.calls[-1][1]
                md.one_step(mol)
                F1 = mdsym.ForceField.calls[-1][1]
                res.append((v0, F0, F1, mol))
        v0, F0, F1, mol = res[1]
        for k in np.ndindex(v0.shape):
            exp = v0[k] + Fraction(1, 2) * dt * ACC * (F0[k] + F1[k]) * mol.mass_inverse.a[k[0], k[1], 0]
            lab = "b:%s second molecule v%s" % (cls, list(k))
            v, m = smt.prove(mol.velocities.a[k] == exp, posA + posB + [dt > 0], lab, "auto", 60)
            if v == "sat":
                if replay_reuse():
                    ob.violation("a reused MD driver integrates a second molecule with state left over from the first (masses/acceleration prefactor)", {"module": "harness.C08", "func": "replay_reuse", "args": {}})
                else:
                    raise HarnessError("driver reuse counterexample did not reproduce")
                break
            ob.verdict(v, lab)


@obligation(PID, "c", title="unit constants are mutually consistent: ACC_SCALE*KINETIC_ENERGY_SCALE = 1 and VEL_SCALE^2*KINETIC_ENERGY_SCALE*TEMPERATURE_SCALE = 1")
def ob_c(ob):
    import seqm.MolecularDynamics as MD

    ob.encodes(MD.PhysicalConstants)
    ob.bound("exact rational values of the live dataclass; tolerance 1e-9 relative (the constants are 10-16 digit decimals)")
    C = MD.CONSTANTS
    acc, vel, kes, ts = [z3.RealVal(Fraction(x)) for x in (C.ACC_SCALE, C.VEL_SCALE, C.KINETIC_ENERGY_SCALE, C.TEMPERATURE_SCALE)]
    tol = z3.RealVal("1e-9")
    for name, e in (("ACC_SCALE*KINETIC_ENERGY_SCALE", acc * kes), ("VEL_SCALE^2*KINETIC_ENERGY_SCALE*TEMPERATURE_SCALE", vel * vel * kes * ts)):
        x = z3.Real("x")
        v, m = smt.prove(z3.And(x - 1 <= tol, x - 1 >= -tol), [x == e], "c:" + name, "auto", 10)
        if v == "sat":
            ob.violation("unit constants inconsistent: %s = %.12f != 1 (energy conservation / equipartition would be off by that factor)" % (name, float(smt.model_value(m, x))), {"module": "harness.C08", "func": "replay_constants", "args": {}})
        else:
            ob.verdict(v, "c:" + name)


def replay_constants():
    import seqm.MolecularDynamics as MD

    C = MD.CONSTANTS
    a, b = C.ACC_SCALE * C.KINETIC_ENERGY_SCALE, C.VEL_SCALE**2 * C.KINETIC_ENERGY_SCALE * C.TEMPERATURE_SCALE
    print("ACC*KES = %.12f, VEL^2*KES*TS = %.12f" % (a, b))
    return abs(a - 1) > 1e-9 or abs(b - 1) > 1e-9


DOF_TABLE = [
    # (class, kwargs, remove_com, expected constraints)
    ("Molecular_Dynamics_Basic", {}, None, 0),
    ("Molecular_Dynamics_Basic", {}, ("linear", 1), 3),
    ("Molecular_Dynamics_Basic", {}, ("angular", 1), 6),
    ("Molecular_Dynamics_Langevin", {"damp": 50.0}, None, 0),
    ("Molecular_Dynamics_Langevin", {"damp": 50.0}, ("angular", 1), 0),
    ("XL_BOMD", {"damp": None, "xl_bomd_params": {"k": 3}}, ("linear", 2), 3),
    ("XL_BOMD", {"damp": None, "xl_bomd_params": {"k": 3}}, ("angular", 2), 6),
    ("XL_BOMD", {"damp": 50.0, "xl_bomd_params": {"k": 3}}, ("angular", 2), 0),
    ("XL_BOMD", {"damp": 50.0, "xl_bomd_params": {"k": 3}}, None, 0),
]


def dof_temperature(ob, pid):
    """shared by C08.d / C12.d / C13: the reported temperature is 2 Ek / (k_B n_dof) with n_dof = 3 N_real - constraints of the
    engine's documented table, per molecule of a padded batch, for symbolic velocities and masses"""
    import seqm.MolecularDynamics as MD

    species = [[8, 1, 1], [1, 1, 0]]
    for cls, kw, remove_com, cons in DOF_TABLE:
        S.reset()
        md = mdsym.make_md(cls, Temp=300.0, **kw)
        mol, real, mass_pos = mdsym.sym_molecule(species)
        # run the real initialize() up to the degrees-of-freedom decision (everything after it is cut by the recorder)
        class _Stop(Exception):
            pass

        def stop(*a, **k):
            raise _Stop()

        saved = type(md).initialize_velocity
        try:
            type(md).initialize_velocity = stop
            mol.velocities = None
            try:
                with symbolic_factories():
                    MD.Molecular_Dynamics_Basic.initialize(md, mol, remove_com=remove_com)
            except _Stop:
                pass
        finally:
            type(md).initialize_velocity = saved
        mol.velocities = S.sym("v", (2, 3, 3))
        with symbolic_factories():
            Ek = md._kinetic_energy(mol)
            T = md._calc_temperature(Ek)
        KES, TS = S.rv(MD.CONSTANTS.KINETIC_ENERGY_SCALE), S.rv(MD.CONSTANTS.TEMPERATURE_SCALE)
        for b in range(2):
            nreal = int(real[b].sum())
            ek = sum(Fraction(1, 2) * mol.mass.a[b, a, 0] * mol.velocities.a[b, a, c] * mol.velocities.a[b, a, c] for a in range(3) for c in range(3)) * KES
            spec = ek * TS / (Fraction(1, 2) * (3 * nreal - cons))
            lab = "%s:%s damp=%s remove_com=%s mol %d" % (pid, cls, kw.get("damp"), remove_com, b)
            v, m = smt.prove(T.a[b] == spec, mass_pos, lab, "auto", 60)
            if v == "sat":
                args = {"cls": cls, "kw": kw, "remove_com": list(remove_com) if remove_com else None, "cons": cons}
                if replay_dof(**args):
                    ob.violation("reported temperature of molecule %d (%s, damp=%s, remove_com=%s) is not 2 Ek/(k_B (3 N_atoms - %d)) of that molecule's own velocities" % (b, cls, kw.get("damp"), remove_com, cons), {"module": "harness.C08", "func": "replay_dof", "args": args})
                else:
                    raise HarnessError("temperature/dof counterexample did not reproduce: %s" % lab)
                break
            ob.verdict(v, lab)


def replay_dof(cls, kw, remove_com, cons):
    import seqm.MolecularDynamics as MD
    import types as _t

    class FF(torch.nn.Module):
        def __init__(s, *a, **k):
            super().__init__()
            s.conservative_force = _t.SimpleNamespace(energy=_t.SimpleNamespace(md=False, excited_states=None))
            s.device = torch.device("cpu")

    MD.esdriver = FF
    md = getattr(MD, cls)(seqm_parameters={"method": "AM1"}, timestep=0.5, Temp=300.0, output={"molid": [0], "prefix": "x", "h5": {}}, **kw)
    sp = torch.tensor([[8, 1, 1], [1, 1, 0]])
    mol = _t.SimpleNamespace(num_atoms=torch.tensor([3.0, 2.0]), molsize=3, species=sp, nmol=2)
    md.set_dof(mol, {None: 0.0, "linear": 3.0, "angular": 6.0}[remove_com[0] if remove_com else None])
    exp = torch.tensor([9.0 - cons, 6.0 - cons])
    nd = md.n_dof if torch.is_tensor(md.n_dof) else torch.tensor([float(md.n_dof)] * 2)
    print("replay dof %s damp=%s remove_com=%s: n_dof=%s expected %s" % (cls, kw.get("damp"), remove_com, nd.tolist(), exp.tolist()))
    return (nd - exp).abs().max().item() > 0


@obligation(PID, "d", title="the temperature written for a step is 2 Ek/(k_B n_dof) of that step's velocities with n_dof = 3 N_real_atoms - constraints, per molecule of a padded batch, every engine/damping/COM-removal combination")
def ob_d(ob):
    import seqm.MolecularDynamics as MD

    ob.encodes(MD.Molecular_Dynamics_Basic.initialize, MD.Molecular_Dynamics_Basic.set_dof, MD.Molecular_Dynamics_Langevin.set_dof, MD.XL_BOMD.set_dof, MD.Molecular_Dynamics_Basic._kinetic_energy, MD.Molecular_Dynamics_Basic._calc_temperature)
    ob.bound("padded batch [[O,H,H],[H,H,pad]]; velocities and masses symbolic; 9 engine/damp/remove_com combinations with the documented constraint counts (Basic/undamped XL: 0/3/6; Langevin and damped XL: always 0)")
    dof_temperature(ob, "d")


# ---- shared obligation: momentum conservation of a run with centre-of-mass removal needs _zero_com to leave zero linear momentum for a centre of mass off the origin ----
@obligation(PID, "e", title='[shared with C13.a] _zero_com: afterwards sum m v = 0, angular momentum about the COM = 0 (where requested), kinetic energy preserved, padding atoms at rest — for all velocity fields, COM off the origin, padded batch incl. a linear molecule')
def ob_e_shared(ob):
    """momentum conservation of a run with centre-of-mass removal needs _zero_com to leave zero linear momentum for a centre of mass off the origin"""
    from . import C13 as _m  # imported lazily: the harness modules share obligations in both directions

    ob.note("this obligation is the one registered as C13.a; it is also decided here because momentum conservation of a run with centre-of-mass removal needs _zero_com to leave zero linear momentum for a centre of mass off the origin")
    _m.ob_a(ob)


# ---- shared obligation: the excited-surface energy conserved by the integrator is computed from orbital energies that must follow their orbitals through an orbital swap ----
@obligation(PID, "f", title='[shared with C14.e] orbital tracking along a trajectory reorders orbital energies together with their orbitals: after Energy._crossing_match_molecular_orbitals the k-th reported energy is the energy of the orbital reported in column k, for every reordering of the occupied and of the virtual block (arbitrary energies)')
def ob_f_shared(ob):
    """the excited-surface energy conserved by the integrator is computed from orbital energies that must follow their orbitals through an orbital swap"""
    from . import C14 as _m  # imported lazily: the harness modules share obligations in both directions

    ob.note("this obligation is the one registered as C14.e; it is also decided here because the excited-surface energy conserved by the integrator is computed from orbital energies that must follow their orbitals through an orbital swap")
    _m.ob_e(ob)
