"""C20 — steepest-descent optimiser: stops truthfully, returns the last evaluation's residuals (engine E1 explorer)."""
import io
import contextlib
import types
from fractions import Fraction

from .common import *  # noqa: F401,F403
from .common import S, smt, z3, np, torch, SymTensor, symbolic_factories, Explorer, obligation, HarnessError, expect_refuted, expect_feasible

PID = "C20"


def absz(e):
    return z3.If(e >= 0, e, -e)


class _ES(torch.nn.Module):
    """stub driver: evaluation i returns fresh symbolic forces F{i} and energies E{i}"""

    log = []

    def __init__(self, *a, **k):
        super().__init__()

    def forward(self, molecule, *a, **k):
        i = len(_ES.log)
        shp = tuple(molecule.coordinates.shape)
        F = S.reals("F%d" % i, shp)
        E = S.reals("E%d" % i, (shp[0],))
        # padding rows have exactly zero force (C01.f)
        for b in range(shp[0]):
            for a in range(shp[1]):
                if not _ES.real[b][a]:
                    F[b, a, :] = z3.RealVal(0)
        _ES.log.append((molecule.coordinates.a.copy(), F, E))
        molecule.force = SymTensor(F.copy())
        molecule.Etot = SymTensor(E.copy())


def _run(max_evl, log, species):
    import seqm.MolecularDynamics as MD

    MD.esdriver = _ES
    MD.Force = lambda *a, **k: None
    _ES.real = [[z > 0 for z in row] for row in species]
    nmol, molsize = len(species), len(species[0])
    tol, alpha = z3.Reals("tol alpha")
    x0 = S.reals("x", (nmol, molsize, 3))
    assm = [tol > 0, alpha > 0]

    def fn():
        _ES.log = []
        opt = MD.Geometry_Optimization_SD({"method": "AM1"}, alpha=SymTensor(np.array(alpha, dtype=object)), force_tol=SymTensor(np.array(tol, dtype=object)), max_evl=max_evl)
        mol = types.SimpleNamespace(coordinates=SymTensor(x0.copy()), dm=None, verbose=True)
        mol.coordinates.grad = None
        buf = io.StringIO()
        S.ST.float_placeholder = 0.0  # the log/print statements only format the symbolic numbers
        try:
            with contextlib.redirect_stdout(buf), symbolic_factories():
                ferr, dE = opt.run(mol, log=log)
        finally:
            S.ST.float_placeholder = None
        return dict(ferr=ferr.a.reshape(-1)[0], dE=dE.a.reshape(-1)[0], x=mol.coordinates.a.copy(), evals=list(_ES.log), out=buf.getvalue())

    ex = Explorer(assumptions=assm, piecewise="ite", kind="auto", max_paths=200)
    S.ST.float_placeholder = 0.0
    try:
        res = ex.run(fn)
    finally:
        S.ST.float_placeholder = None
    return res, ex, assm, (tol, alpha, x0)


def replay_sd(max_evl, forces, energies, tol, log=True):
    """float64 real Geometry_Optimization_SD.run with a scripted force/energy sequence; returns dict of observed facts"""
    import seqm.MolecularDynamics as MD

    calls = {"n": 0}

    class ES(torch.nn.Module):
        def __init__(s, *a, **k):
            super().__init__()

        def forward(s, molecule, *a, **k):
            i = calls["n"]
            calls["n"] += 1
            molecule.force = torch.tensor(forces[min(i, len(forces) - 1)], dtype=torch.float64).reshape(molecule.coordinates.shape)
            molecule.Etot = torch.tensor(energies[min(i, len(energies) - 1)], dtype=torch.float64)

    MD.esdriver = ES
    MD.Force = lambda *a, **k: None
    opt = MD.Geometry_Optimization_SD({"method": "AM1"}, alpha=0.01, force_tol=tol, max_evl=max_evl)
    mol = types.SimpleNamespace(coordinates=torch.zeros(1, 1, 3), dm=None, verbose=True)
    mol.coordinates.grad = None
    buf = io.StringIO()
    with contextlib.redirect_stdout(buf):
        ferr, dE = opt.run(mol, log=log)
    out = buf.getvalue()
    return dict(evals=calls["n"], ferr=ferr.item(), dE=dE.item(), said_not_converged=("not converged" in out), out=out)


def replay_case(max_evl, forces, energies, tol, log, expect_evals, expect_dE, expect_not_converged):
    r = replay_sd(max_evl, forces, energies, tol, log)
    print("replay SD: evaluations %d (expected %d), returned dE %.6g (expected %.6g), printed 'not converged': %s (expected %s)" % (r["evals"], expect_evals, r["dE"], expect_dE, r["said_not_converged"], expect_not_converged))
    return r["evals"] != expect_evals or abs(r["dE"] - expect_dE) > 1e-12 or r["said_not_converged"] != expect_not_converged


@obligation(PID, "a", title="the optimiser stops at the first evaluation whose largest force component is within tolerance or at the cap, says 'not converged' only in the latter case, and returns the residual force and energy change of the last evaluation; same behaviour with and without logging")
def ob_a(ob):
    import seqm.MolecularDynamics as MD

    ob.encodes(MD.Geometry_Optimization_SD.run, MD.Geometry_Optimization_SD.onestep)
    ob.bound("evaluation cap in {1,2,3}; 1 molecule x 1 atom and the padded batch [[H,H],[H,pad]]; forces and energies of every evaluation, tolerance>0 and step factor>0 symbolic reals; log in {True, False}; every path of the run loop explored")
    ob.assume("electronic-structure driver stubbed by fresh symbols per evaluation (padding rows get zero force: C01.f)")
    for species in ([[1]], [[1, 1], [1, 0]]):
        for max_evl in ((1, 2, 3) if ob.tier == "quick" else (1, 2, 3, 4, 5)):
            for log in (True, False):
                res, ex, assm, (tol, alpha, x0) = _run(max_evl, log, species)
                ob.paths += ex.paths
                nmol, molsize = len(species), len(species[0])
                for pc, side, r in res:
                    S.ST.side[:] = side
                    ev = r["evals"]
                    n = len(ev)
                    maxF = []
                    for (xc, F, E) in ev:
                        comps = [absz(f) for f in F.reshape(-1) if not z3.is_rational_value(f)]
                        maxF.append(comps)
                    within = lambda i: z3.And(*[c <= tol for c in maxF[i]])
                    base = assm + list(pc)
                    lab = "a:%s cap=%d log=%s evals=%d" % (species, max_evl, log, n)
                    claims = []
                    # stopped at the FIRST evaluation within tolerance, or at the cap
                    claims.append(("no earlier evaluation was within tolerance", z3.And(*[z3.Not(within(i)) for i in range(n - 1)]) if n > 1 else z3.BoolVal(True), "stop"))
                    claims.append(("stops only when within tolerance or at the cap", z3.Or(within(n - 1), z3.BoolVal(n == max_evl)), "stop"))
                    said_nc = "not converged" in r["out"]
                    claims.append(("'not converged' is printed iff the last evaluation is not within tolerance", within(n - 1) != z3.BoolVal(said_nc), "msg"))
                    # returned residual force = max |F_last|
                    claims.append(("returned force residual is max|F| of the last evaluation", z3.And(*[r["ferr"] >= c for c in maxF[n - 1]] + [z3.Or(*[r["ferr"] == c for c in maxF[n - 1]])]), "ret"))
                    Eprev = ev[n - 2][2] if n > 1 else np.array([z3.RealVal(0)] * nmol, dtype=object)
                    claims.append(("returned dE is the mean energy change of the last evaluation", r["dE"] == sum(ev[n - 1][2][b] - Eprev[b] for b in range(nmol)) / nmol, "ret"))
                    # geometry update uses the force of the same evaluation; padding atoms never move
                    for k in np.ndindex(x0.shape):
                        exp = x0[k] + alpha * sum(ev[i][1][k] for i in range(n))
                        claims.append(("x%s = x0 + alpha*sum F_i" % list(k), r["x"][k] == exp, "x"))
                    for i in range(1, n):
                        for k in np.ndindex(x0.shape):
                            claims.append(("evaluation %d sees the geometry updated with the previous force" % i, ev[i][0][k] == x0[k] + alpha * sum(ev[j][1][k] for j in range(i)), "x"))
                    for name, c, kind in claims:
                        v, m = smt.prove(c, base, lab + ": " + name, "auto", 60)
                        if v == "sat":
                            # build a concrete scripted sequence from the model (1-atom case replays directly; otherwise use the canonical replays)
                            args = _canonical_replay(kind, max_evl, log)
                            if replay_case(**args):
                                ob.violation("steepest descent (%s, cap=%d, log=%s): '%s' fails" % (species, max_evl, log, name), {"module": "harness.C20", "func": "replay_case", "args": args})
                            else:
                                raise HarnessError("SD counterexample did not reproduce: %s: %s" % (lab, name))
                        else:
                            ob.verdict(v, lab + ": " + name)
                ob.sample({"species": species, "cap": max_evl, "log": log, "paths": ex.paths})


def _canonical_replay(kind, max_evl, log):
    """concrete scripted sequences exercising each clause on the real float64 code (1 atom)"""
    if kind == "msg":
        # tolerance met exactly at the last allowed evaluation
        forces = [[1.0, 0, 0]] * (max_evl - 1) + [[0.01, 0, 0]]
        energies = [[-1.0 - 0.1 * i] for i in range(max_evl)]
        return dict(max_evl=max_evl, forces=forces, energies=energies, tol=0.1, log=log, expect_evals=max_evl, expect_dE=(energies[-1][0] - (energies[-2][0] if max_evl > 1 else 0.0)), expect_not_converged=False)
    if kind == "ret":
        # cap hit before convergence: dE must be E_last - E_prev
        forces = [[1.0, 0, 0]] * max_evl
        energies = [[-1.0 - 0.25 * i * i] for i in range(max_evl)]
        return dict(max_evl=max_evl, forces=forces, energies=energies, tol=0.1, log=log, expect_evals=max_evl, expect_dE=(energies[-1][0] - (energies[-2][0] if max_evl > 1 else 0.0)), expect_not_converged=True)
    # stop / x: converge at the first evaluation
    forces = [[0.01, 0, 0]] + [[1.0, 0, 0]] * max_evl
    energies = [[-1.0 - 0.1 * i] for i in range(max_evl + 1)]
    return dict(max_evl=max(max_evl, 2), forces=forces, energies=energies, tol=0.1, log=log, expect_evals=1, expect_dE=-1.0, expect_not_converged=False)


# ---- shared obligation: steepest descent lowers the energy only if the force it is handed is minus the gradient in every force-evaluation branch ----
@obligation(PID, "b", title="[shared with C01.h] Force.forward hands back minus the gradient in every branch: back-propagated (default and with '2nd_grad', where the graph is kept) and analytical — for arbitrary gradient values")
def ob_b_shared(ob):
    """steepest descent lowers the energy only if the force it is handed is minus the gradient in every force-evaluation branch"""
    from . import C01 as _m  # imported lazily: the harness modules share obligations in both directions

    ob.note("this obligation is the one registered as C01.h; it is also decided here because steepest descent lowers the energy only if the force it is handed is minus the gradient in every force-evaluation branch")
    _m.ob_h(ob)
