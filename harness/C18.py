"""C18 — invalid requests are rejected loudly; valid ones yield finite results (engine E1 over reals+ints, CrossHair for pure-Python guards)."""
import types

from .common import *  # noqa: F401,F403
from .common import S, smt, z3, np, torch, SymTensor, symbolic_factories, Explorer, obligation, HarnessError, expect_refuted, expect_feasible, quiet, single_point
from engine import chrun

PID = "C18"


# ------------------------------------------------------------------------------------------------
# a: sorted-species check
# ------------------------------------------------------------------------------------------------


def replay_check_input(rows):
    from seqm.Molecule import check_input

    sp = torch.tensor(rows)
    sorted_ok = all(all(r[i] >= r[i + 1] for i in range(len(r) - 1)) for r in rows)
    try:
        check_input(sp)
        raised = False
    except ValueError:
        raised = True
    print("replay check_input %s: raised=%s, rows sorted=%s" % (rows, raised, sorted_ok))
    return raised == sorted_ok


@obligation(PID, "a", title="check_input raises exactly when some species row is not non-increasing")
def ob_a(ob):
    from seqm.Molecule import check_input

    ob.encodes(check_input)
    ob.bound("2 molecules x 3 atoms, atomic numbers symbolic integers in [0, 20]")
    Zs = np.empty((2, 3), dtype=object)
    ints = []
    for k in np.ndindex(2, 3):
        i = z3.Int("Z_%d_%d" % k)
        ints.append(i)
        Zs[k] = z3.ToReal(i)
    assm = [z3.And(i >= 0, i <= 20) for i in ints]

    def fn():
        try:
            check_input(SymTensor(Zs.copy()))
            return "accepted"
        except ValueError:
            return "raised"

    ex = Explorer(assumptions=assm, piecewise="ite", kind="auto")
    res = ex.run(fn)
    ob.paths = ex.paths
    sorted_ok = z3.And(*[Zs[b, i] >= Zs[b, i + 1] for b in range(2) for i in range(2)])
    seen = set()
    for pc, side, out in res:
        seen.add(out)
        claim = sorted_ok if out == "accepted" else z3.Not(sorted_ok)
        v, m = smt.prove(claim, assm + list(pc), "a:%s path" % out, "auto", 30)
        if v == "sat":
            rows = [[int(str(m.eval(ints[3 * b + i], model_completion=True))) for i in range(3)] for b in range(2)]
            if replay_check_input(rows):
                ob.violation("check_input %s the species %s" % ("accepts unsorted" if out == "accepted" else "rejects sorted", rows), {"module": "harness.C18", "func": "replay_check_input", "args": {"rows": rows}})
            else:
                raise HarnessError("check_input counterexample did not reproduce: %s" % rows)
        else:
            ob.verdict(v, "a:%s" % out)
    ob.require(seen == {"accepted", "raised"}, "both outcomes must be reachable, saw %s" % seen)


# ------------------------------------------------------------------------------------------------
# b: electron bookkeeping in Parser.forward
# ------------------------------------------------------------------------------------------------


def replay_parser(species, charge, mult, uhf):
    """public API: Molecule(...) + single point; returns True if an impossible request is accepted (or a valid one rejected)"""
    from seqm.Molecule import Molecule
    from seqm.seqm_functions.constants import Constants

    const = Constants()
    p = {"method": "AM1", "scf_eps": 1e-8, "scf_converger": [1], "UHF": uhf}
    coords = torch.tensor([[[0.9 * a, 0.1 * a * a, 0.0] for a in range(len(species))]])
    tore = {1: 1, 6: 4, 7: 5, 8: 6}
    nel = sum(tore[z] for z in species) - charge
    norb = sum(4 if z > 1 else 1 for z in species)
    if uhf:
        na, nb = nel / 2 + (mult - 1) / 2, nel / 2 - (mult - 1) / 2
        valid = na == int(na) and nb == int(nb) and 0 <= nb and na <= norb
    else:
        valid = nel % 2 == 0 and 0 <= nel <= 2 * norb
    try:
        with quiet():
            m = Molecule(const, p, coords, torch.tensor([species]), charges=charge, mult=mult)
        accepted = True
        nocc = m.nocc.tolist()
    except ValueError as e:
        accepted = False
        nocc = str(e)[:60]
    print("replay Parser species=%s charge=%d mult=%d UHF=%s: accepted=%s (nocc=%s), request valid=%s (electrons %s, orbitals %d)" % (species, charge, mult, uhf, accepted, nocc, valid, nel, norb))
    return accepted != valid


@obligation(PID, "b", title="Parser electron bookkeeping: a charge/multiplicity request is accepted exactly when it is possible (RHF: even count; UHF: integer occupations; and 0 <= occupied <= orbitals)")
def ob_b(ob):
    from seqm.basics import Parser
    from seqm.seqm_functions.constants import Constants

    ob.encodes(Parser.forward)
    ob.bound("molecules H2 and the padded batch [[O,H,H],[H,H,pad]]; molecular charges symbolic integers in [-12,12], multiplicities symbolic integers in [1,7]; RHF and UHF")
    const = Constants()
    for species in ([[1, 1]], [[8, 1, 1], [1, 1, 0]]):
        nmol, molsize = len(species), len(species[0])
        coords = torch.tensor([[[0.9 * a + 0.2 * b, 0.1 * a * a, 0.3 * b] for a in range(molsize)] for b in range(nmol)])
        tore = {0: 0, 1: 1, 8: 6}
        nel0 = [sum(tore[z] for z in row) for row in species]
        norb = [sum(4 if z > 1 else (1 if z == 1 else 0) for z in row) for row in species]
        for uhf in (False, True):
            qi = [z3.Int("q%d" % b) for b in range(nmol)]
            mi = [z3.Int("mult%d" % b) for b in range(nmol)]
            assm = [z3.And(q >= -12, q <= 12) for q in qi] + [z3.And(m_ >= 1, m_ <= 7) for m_ in mi]
            q = SymTensor(np.array([z3.ToReal(x) for x in qi], dtype=object))
            mult = SymTensor(np.array([z3.ToReal(x) for x in mi], dtype=object))

            def fn():
                mol = types.SimpleNamespace(species=torch.tensor(species), coordinates=coords, const=const, tot_charge=q, mult=mult)
                pr = Parser({"elements": [0, 1, 8], "method": "AM1", "UHF": uhf})
                try:
                    with symbolic_factories():
                        out = pr(mol, "AM1")
                    return ("accepted", out[5])
                except ValueError as e:
                    return ("raised", str(e))

            ex = Explorer(assumptions=assm, piecewise="ite", kind="auto")
            res = ex.run(fn)
            ob.paths += ex.paths
            nel = [nel0[b] - z3.ToReal(qi[b]) for b in range(nmol)]
            if uhf:
                na = [nel[b] / 2 + (z3.ToReal(mi[b]) - 1) / 2 for b in range(nmol)]
                nb = [nel[b] / 2 - (z3.ToReal(mi[b]) - 1) / 2 for b in range(nmol)]
                valid = z3.And(*[z3.And(z3.IsInt(na[b]), z3.IsInt(nb[b]), nb[b] >= 0, na[b] <= norb[b]) for b in range(nmol)])
            else:
                valid = z3.And(*[z3.And(z3.IsInt(nel[b] / 2), nel[b] >= 0, nel[b] <= 2 * norb[b]) for b in range(nmol)])
            for pc, side, (status, extra) in res:
                claim = valid if status == "accepted" else z3.Not(valid)
                lab = "b:%s %s %s" % (species, "UHF" if uhf else "RHF", status)
                v, m = smt.prove(claim, assm + list(pc), lab, "auto", 60)
                if v == "sat":
                    # replay the first molecule whose own request is the offending one
                    done = False
                    for b in range(nmol):
                        row = [z for z in species[b] if z > 0]
                        cq, cm = int(str(m.eval(qi[b], model_completion=True))), int(str(m.eval(mi[b], model_completion=True)))
                        if replay_parser(row, cq, cm, uhf):
                            ob.violation("Parser %s an %s request: species %s charge %d multiplicity %d (%s)" % ("accepts" if status == "accepted" else "rejects", "impossible" if status == "accepted" else "valid", row, cq, cm, "UHF" if uhf else "RHF"), {"module": "harness.C18", "func": "replay_parser", "args": {"species": row, "charge": cq, "mult": cm, "uhf": uhf}})
                            done = True
                            break
                    if not done:
                        raise HarnessError("Parser counterexample did not reproduce (%s)" % lab)
                else:
                    ob.verdict(v, lab)
                if status == "accepted" and not uhf:
                    # reported occupation = electrons/2
                    for b in range(nmol):
                        v, m = smt.prove(extra.a[b] == nel[b] / 2, assm + list(pc), lab + " nocc", "auto", 30)
                        ob.verdict(v, lab + " nocc = N/2")


# ------------------------------------------------------------------------------------------------
# c: pure-Python guards (CrossHair)
# ------------------------------------------------------------------------------------------------

GUARD_PRELUDE = '''
import io, contextlib, types
import torch
import seqm.MolecularDynamics as MD
from seqm.seqm_functions import scf_loop as SL
from seqm.dynamics import nac_utils as NU

class _Stop(BaseException):
    pass

class _ES(torch.nn.Module):
    def __init__(self, *a, **k):
        super().__init__()
        self.conservative_force = types.SimpleNamespace(energy=types.SimpleNamespace(md=False, excited_states=None))
        self.device = torch.device("cpu")

MD.esdriver = _ES
_md = MD.Molecular_Dynamics_Basic(seqm_parameters={"method": "AM1"}, timestep=0.5, Temp=300.0, output={"molid": [0], "prefix": "x", "print every": 0, "h5": {}})
def _stop(*a, **k):
    raise _Stop()
_md.set_dof = _stop

def _cands():
    base = "linearangular"
    c = {base[i:j] for i in range(len(base) + 1) for j in range(i, len(base) + 1)}
    c |= {"linear", "angular", "Linear", "ANGULAR", " linear", "angular ", " Angular\t", "linear,angular", "both", "none", "rotational", "translation", "lin ear", "angula", "ngular", "linea", "inear", "0", "linear1"}
    return sorted(c)
CANDS = _cands()

def mode_accepted(mode):
    mol = types.SimpleNamespace(coordinates=torch.zeros(1, 2, 3), verbose=True)
    try:
        _md.initialize(mol, remove_com=(mode, 1))
    except _Stop:
        return True
    except ValueError:
        return False

def factory_raises(method_i, sp2, openshell, backward):
    method = ("AM1", "PM3", "MNDO", "PM6", "PM6_SP")[method_i]
    try:
        SL.make_Pnew_factory(method, [sp2, 1e-5], 3, backward, [1], openshell)
        return False
    except ValueError:
        return True
'''


def replay_mode(mode):
    ns = {}
    exec(GUARD_PRELUDE, ns)
    acc = ns["mode_accepted"](mode)
    valid = mode.lower().strip() in ("linear", "angular")
    print("replay remove_com mode %r: accepted=%s, documented=%s" % (mode, acc, valid))
    return acc != valid


def replay_factory(method_i, sp2, openshell, backward):
    ns = {}
    exec(GUARD_PRELUDE, ns)
    r = ns["factory_raises"](method_i, sp2, openshell, backward)
    method = ("AM1", "PM3", "MNDO", "PM6", "PM6_SP")[method_i]
    should = openshell and (method == "PM6" or sp2)
    print("replay make_Pnew_factory(%s, sp2=%s, openshell=%s): raises=%s, unsupported=%s" % (method, sp2, openshell, r, should))
    return r != should


def replay_dedup(pairs, nroots):
    from seqm.dynamics import nac_utils as NU

    out = NU._dedup_pairs([tuple(p) for p in pairs], nroots)
    want = []
    for a, b in pairs:
        lo, hi = min(a, b), max(a, b)
        if a != b and 1 <= lo and hi <= nroots and (lo, hi) not in want:
            want.append((lo, hi))
    print("replay _dedup_pairs(%s, %d) -> %s, expected %s" % (pairs, nroots, out, want))
    return out != want


@obligation(PID, "c", title="guards: remove_com accepts exactly 'linear'/'angular' (case/space-insensitive); make_Pnew_factory raises exactly for open-shell+PM6 and open-shell+SP2; NAC pair lists come out valid, ordered and unique")
def ob_c(ob):
    import seqm.MolecularDynamics as MD
    from seqm.seqm_functions import scf_loop as SL
    from seqm.dynamics import nac_utils as NU

    ob.encodes(MD.Molecular_Dynamics_Basic.initialize, SL.make_Pnew_factory, NU._dedup_pairs)
    ob.bound("mode: symbolic index into a vocabulary of ~115 candidate strings (every substring of 'linearangular', case/blank variants, near misses); factory: method in 5 names x 3 symbolic bools; pairs: up to 3 symbolic int pairs in [-1,4], nroots in [1,3]")
    slices = [
        chrun.Slice("mode", GUARD_PRELUDE, "i: int", "0 <= i < len(CANDS)", "return mode_accepted(CANDS[i]) == (CANDS[i].lower().strip() in ('linear', 'angular'))", "_", 400),
        chrun.Slice("factory", GUARD_PRELUDE, "method_i: int, sp2: bool, openshell: bool, backward: bool", "0 <= method_i <= 4", "return factory_raises(method_i, sp2, openshell, backward) == (openshell and (method_i == 3 or sp2))", "_", 200),
        chrun.Slice(
            "dedup",
            GUARD_PRELUDE,
            "a1: int, b1: int, a2: int, b2: int, a3: int, b3: int, nroots: int",
            "-1 <= a1 <= 4 and -1 <= b1 <= 4 and -1 <= a2 <= 4 and -1 <= b2 <= 4 and -1 <= a3 <= 4 and -1 <= b3 <= 4 and 1 <= nroots <= 3",
            "out = NU._dedup_pairs([(a1, b1), (a2, b2), (a3, b3)], nroots)\nwant = []\nfor a, b in ((a1, b1), (a2, b2), (a3, b3)):\n    lo, hi = (a, b) if a <= b else (b, a)\n    if a != b and 1 <= lo and hi <= nroots and (lo, hi) not in want:\n        want.append((lo, hi))\nreturn out == want",
            "_",
            400,
        ),
    ]
    ns = {}
    exec(GUARD_PRELUDE, ns)
    for good in ("linear", "angular", " Angular ", "LINEAR"):
        ob.require(ns["mode_accepted"](good), "documented mode %r is rejected" % good)
    ob.note("documented modes 'linear', 'angular' (any case, surrounding blanks) are accepted (concrete reachability witness)")
    res = chrun.run_slices(slices, jobs=4)
    for sl, r in zip(slices, res):
        ob.paths += 1
        ob.ch_conditions += 1
        ob.ch_definite += r["verdict"] in ("confirmed", "counterexample")
        ob.sample({"slice": sl.name, "verdict": r["verdict"], "seconds": r["seconds"], "call": r.get("call")})
        if r["verdict"] == "confirmed":
            ob.discharged(sl.name)
        elif r["verdict"] == "counterexample":
            print("counterexample from CrossHair:", r["call"])
            if sl.name == "mode":
                ns2 = {}
                exec(GUARD_PRELUDE, ns2)
                mode = ns2["CANDS"][chrun.parse_int_args(r["args"])[0]]
                if replay_mode(mode):
                    ob.violation("remove_com mode %r is %s although the documented modes are exactly 'linear' and 'angular'" % (mode, "accepted"), {"module": "harness.C18", "func": "replay_mode", "args": {"mode": mode}})
                else:
                    raise HarnessError("mode counterexample did not reproduce: %r" % mode)
            elif sl.name == "factory":
                vals = chrun.parse_int_args(r["args"])
                if replay_factory(*vals):
                    ob.violation("make_Pnew_factory guard wrong for method index %d sp2=%s openshell=%s" % (vals[0], vals[1], vals[2]), {"module": "harness.C18", "func": "replay_factory", "args": dict(zip(["method_i", "sp2", "openshell", "backward"], vals))})
                else:
                    raise HarnessError("factory counterexample did not reproduce")
            else:
                vals = chrun.parse_int_args(r["args"])
                pairs = [[vals[0], vals[1]], [vals[2], vals[3]], [vals[4], vals[5]]]
                if replay_dedup(pairs, vals[6]):
                    ob.violation("_dedup_pairs(%s, nroots=%d) returns an invalid/incomplete pair list" % (pairs, vals[6]), {"module": "harness.C18", "func": "replay_dedup", "args": {"pairs": pairs, "nroots": vals[6]}})
                else:
                    raise HarnessError("dedup counterexample did not reproduce")
        elif r["verdict"] == "inconclusive":
            ob.inconclusive(sl.name + ": " + r["raw"][-200:])
        else:
            raise HarnessError("crosshair failed on %s: %s" % (sl.name, r["raw"][-800:]))


# ------------------------------------------------------------------------------------------------
# e: definedness — no division by zero / negative radicand on any path of the rotation and core-core code
# ------------------------------------------------------------------------------------------------


def replay_rotation_finite(v):
    from seqm.seqm_functions.two_elec_two_center_int import rotate_with_quaternion

    vt = torch.tensor([v], dtype=torch.float64)
    R, dR = rotate_with_quaternion(vt, calculate_gradient=True)
    ok = bool(torch.isfinite(R).all() and torch.isfinite(dR).all())
    print("replay rotate_with_quaternion(%s, gradient): finite=%s" % (v, ok))
    return not ok


def replay_rotation_finite_molecule():
    """public API: water with an O-H bond exactly along +x, analytical forces must be finite"""
    m, es = single_point(torch.tensor([[8, 1, 1]]), torch.tensor([[[0.0, 0, 0], [0.96, 0, 0], [-0.24, 0.93, 0]]]), "AM1", analytical_gradient=[True])
    ok = bool(torch.isfinite(m.force).all())
    print("replay H2O with O-H along +x, analytical gradient: forces finite=%s notconverged=%s" % (ok, es.notconverged.tolist()))
    return not ok


@obligation(PID, "e", title="definedness: every division and square root executed by rotate_with_quaternion (value and gradient) and by pair_nuclear_energy has a non-zero denominator / non-negative radicand on every path, for all unit vectors / all R>0")
def ob_e(ob):
    from seqm.seqm_functions.two_elec_two_center_int import rotate_with_quaternion
    from seqm.seqm_functions.energy import pair_nuclear_energy
    from seqm.seqm_functions.constants import Constants, a0

    ob.encodes(rotate_with_quaternion, pair_nuclear_energy)
    ob.bound("rotation: all unit v (both mask branches); core-core: R>0, all parameter values, pairs (8,1),(6,6), AM1")
    vx, vy, vz = z3.Reals("vx vy vz")
    unit = [vx * vx + vy * vy + vz * vz == 1]

    def fn():
        S.ST.track_defined = True
        S.ST.definedness = []
        v = SymTensor(np.array([[vx, vy, vz]], dtype=object))
        with symbolic_factories():
            rotate_with_quaternion(v, calculate_gradient=True)
        return list(S.ST.definedness)

    S.ST.track_defined = True
    ex = Explorer(assumptions=unit, piecewise="ite", kind="auto")
    res = ex.run(fn)
    S.ST.track_defined = False
    ob.paths += ex.paths
    for pc, side, defs in res:
        S.ST.side[:] = side
        seen = set()
        for kind, term in defs:
            key = (kind, z3.simplify(term).sexpr())
            if key in seen:
                continue
            seen.add(key)
            claim = term != 0 if kind == "div" else term >= 0
            lab = "e:rotation %s defined" % kind
            v, m = smt.prove(claim, unit + list(pc), lab, "auto", 60)
            if v == "sat":
                vv = [float(smt.model_value(m, x)) for x in (vx, vy, vz)]
                if replay_rotation_finite(vv) and replay_rotation_finite_molecule():
                    ob.violation("rotate_with_quaternion divides by zero at v=%s (NaN in the rotation derivative; analytical forces of a molecule with a bond along the axis become NaN without any flag)" % vv, {"module": "harness.C18", "func": "replay_rotation_finite", "args": {"v": vv}})
                else:
                    raise HarnessError("definedness counterexample at v=%s did not reproduce" % vv)
                break
            ob.verdict(v, lab)
    # core-core
    S.reset()
    const = Constants()
    S.ST.track_defined = True
    S.ST.definedness = []
    R = z3.Real("R")
    Z = torch.tensor([8, 1, 6, 6])
    idxi, idxj = torch.tensor([0, 2]), torch.tensor([1, 3])
    par = (S.sym("al", (4,)), S.sym("K", (4, 4)), S.sym("L", (4, 4)), S.sym("M", (4, 4)))
    with symbolic_factories():
        pair_nuclear_energy(Z, const, 1, Z[idxi], Z[idxj], idxi, idxj, SymTensor(np.array([R / S.rv(a0)] * 2, dtype=object)), None, None, None, None, gam=S.sym("gam", (2,)), method="AM1", parameters=par)
    S.ST.track_defined = False
    seen = set()
    for kind, term in S.ST.definedness:
        key = (kind, z3.simplify(term).sexpr())
        if key in seen:
            continue
        seen.add(key)
        claim = term != 0 if kind == "div" else term >= 0
        v, m = smt.prove(claim, [R > 0], "e:core-core %s defined" % kind, "auto", 30)
        if v == "sat":
            ob.violation("pair_nuclear_energy divides by zero for a positive distance", {"module": "harness.C18", "func": "replay_rotation_finite", "args": {"v": [1.0, 0.0, 0.0]}})
        else:
            ob.verdict(v, "e:core-core")
    ob.require(len(seen) >= 1, "no division recorded in pair_nuclear_energy")


def replay_quantum_numbers(qi, qj):
    """float64, real overlap routine for one pair whose atoms have principal quantum numbers (qi, qj), qi >= qj: the
    supported combinations are those with both numbers <= 3; everything else must raise"""
    from seqm.seqm_functions.diat_overlap_PM6_SP import diatom_overlap_matrix_PM6_SP as OV

    qn = torch.tensor([0, qi, qj])
    try:
        OV(torch.tensor([1]), torch.tensor([2]), torch.tensor([[0.3, 0.4, 0.8660254037844386]], dtype=torch.float64), torch.tensor([3.0], dtype=torch.float64), torch.tensor([[1.3, 1.1]], dtype=torch.float64), torch.tensor([[1.2, 0.9]], dtype=torch.float64), qn)
        accepted = True
    except ValueError:
        accepted = False
    supported = 1 <= qj <= qi <= 3
    print("replay overlap routine with principal quantum numbers (%d, %d): accepted=%s, supported=%s" % (qi, qj, accepted, supported))
    return accepted != supported


class _Reached(Exception):
    pass


@obligation(PID, "f", title="unsupported principal quantum numbers: the Slater-overlap routine goes on to its formulas exactly for the pairs (n_i, n_j) with n_j <= n_i <= 3 and raises for every other pair of integers (no pair with n >= 4 is evaluated with another row's formulas)")
def ob_f(ob):
    from seqm.seqm_functions import diat_overlap_PM6_SP as DO

    ob.encodes(DO.diatom_overlap_matrix_PM6_SP)
    ob.bound("one pair; the two principal quantum numbers symbolic integers in [0, 9] (thorough: [0, 40]) with n_i >= n_j (the Parser orders a pair by atomic number); path forking over the dispatch table and its guard")
    ob.assume("the auxiliary-integral routine SET is a sentinel: reaching it means the pair was accepted (its formulas are C06.g)")
    qi, qj = z3.Ints("qi qj")
    top = 9 if ob.tier != "thorough" else 40
    assm = [qi >= 0, qi <= top, qj >= 0, qj <= top, qi >= qj]
    saved = DO.SET

    def sentinel(*a, **k):
        raise _Reached()

    DO.SET = sentinel

    def fn():
        qn = SymTensor(np.array([z3.IntVal(0), qi, qj], dtype=object))
        try:
            with symbolic_factories(bool_symbolic=True):
                DO.diatom_overlap_matrix_PM6_SP(torch.tensor([1]), torch.tensor([2]), torch.tensor([[0.3, 0.4, 0.8660254037844386]], dtype=torch.float64), torch.tensor([3.0], dtype=torch.float64), torch.tensor([[1.3, 1.1]], dtype=torch.float64), torch.tensor([[1.2, 0.9]], dtype=torch.float64), qn)
        except _Reached:
            return "accepted"
        except ValueError:
            return "raised"
        raise HarnessError("overlap routine returned without reaching the sentinel")

    try:
        ex = Explorer(assumptions=assm, piecewise="ite", kind="auto", max_paths=60)
        res = ex.run(fn)
    finally:
        DO.SET = saved
    ob.paths += ex.paths
    kinds = {r for _, _, r in res}
    ob.require(kinds == {"accepted", "raised"}, "expected accepting and raising paths, got %s" % kinds)
    supported = z3.And(qj >= 1, qi <= 3)
    for pc, side, r in res:
        claim = supported if r == "accepted" else z3.Not(supported)
        lab = "f:%s path" % r
        v, m = smt.prove(claim, assm + list(pc) + list(side), lab, "auto", 30)
        if v == "sat":
            a, b = int(str(m.eval(qi, model_completion=True))), int(str(m.eval(qj, model_completion=True)))
            if replay_quantum_numbers(a, b):
                ob.violation("overlap routine %s a pair with principal quantum numbers (%d, %d) although exactly the pairs with n_j <= n_i <= 3 are implemented" % ("evaluates" if r == "accepted" else "rejects", a, b), {"module": "harness.C18", "func": "replay_quantum_numbers", "args": {"qi": a, "qj": b}})
                return
            raise HarnessError("quantum-number counterexample (%d,%d) did not reproduce" % (a, b))
        ob.verdict(v, lab)
    expect_refuted(ob, z3.And(qj >= 1, qi <= 2), assm + [qi == 3, qj == 1], "twin: (3,1) is supported", "auto")
