"""C14 — reported observables are mutually consistent (engine E1)."""
import types
from fractions import Fraction

from .common import *  # noqa: F401,F403
from .common import S, smt, z3, np, torch, SymTensor, symbolic_factories, obligation, HarnessError, expect_refuted, molecule, quiet, single_point

PID = "C14"
SPECIES = [[8, 1, 1], [6, 8, 0]]  # padded batch: water + CO (sorted descending per row: [8,6,0])
SPECIES = [[8, 1, 1], [8, 6, 0]]


def _mol(species=None):
    species = species or SPECIES
    nmol, molsize = len(species), len(species[0])
    coords = [[[1.3 * a + 0.1 * b, 0.4 * a * a - 0.2 * b, 0.3 * a + 0.7 * b] for a in range(molsize)] for b in range(nmol)]
    mol, p, const = molecule(species, coords, "AM1")
    return mol, const, nmol, molsize


def replay_energy_assembly():
    """public API: Etot = Eelec + Enuc, Hf = Etot - sum Eiso + sum eheat, sum q = charge, on a padded batch"""
    from seqm.seqm_functions.energy import elec_energy_isolated_atom

    coords = torch.tensor([[[0.0, 0, 0], [0.96, 0.1, 0], [-0.24, 0.93, 0.2]], [[0.0, 0, 0], [1.13, 0.2, 0.1], [0.0, 0.0, 0.0]]])
    m, es = single_point(torch.tensor(SPECIES), coords, "AM1")
    d1 = (m.Etot - m.Eelec - m.Enuc).abs().max().item()
    pr = m.parameters
    Eiso = elec_energy_isolated_atom(m.const, m.Z, pr["U_ss"], pr["U_pp"], pr["g_ss"], pr["g_pp"], pr["g_sp"], pr["g_p2"], pr["h_sp"])
    iso = torch.zeros(2).index_add_(0, m.atom_molid, Eiso.detach())
    heat = torch.zeros(2).index_add_(0, m.atom_molid, m.const.eheat[m.Z])
    d2 = (m.Hf - (m.Etot - iso + heat)).abs().max().item()
    d3 = m.q.sum(dim=1).abs().max().item()
    print("replay energy assembly: |Etot-(Eelec+Enuc)|=%.2e |Hf-(Etot-Eiso+eheat)|=%.2e |sum q|=%.2e" % (d1, d2, d3))
    return d1 > 1e-9 or d2 > 1e-9 or d3 > 1e-6


@obligation(PID, "a", title="Etot = Eelec + sum of this molecule's pair terms; Hf = Etot - sum Eiso + sum eheat over this molecule's atoms; per molecule of a padded batch, all values symbolic")
def ob_a(ob):
    from seqm.seqm_functions.energy import total_energy, heat_formation

    ob.encodes(total_energy, heat_formation)
    ob.bound("padded batch [[O,H,H],[O,C,pad]] with index maps from the real Parser; pair energies, electronic energies and isolated-atom energies symbolic reals")
    mol, const, nmol, molsize = _mol()
    npairs, natoms = mol.idxi.shape[0], mol.Z.shape[0]
    EnucAB, Eelec, Eiso = S.sym("Eab", (npairs,)), S.sym("Eel", (nmol,)), S.sym("Eiso", (natoms,))
    with symbolic_factories():
        Etot, Enuc = total_energy(nmol, mol.pair_molid, EnucAB, Eelec)
        Hf, Eiso_sum = heat_formation(const, nmol, mol.atom_molid, mol.Z, Etot, Eiso, flag=True)
    # independent assignment of pairs/atoms to molecules from the species layout
    atom_mol = [b for b in range(nmol) for z in SPECIES[b] if z > 0]
    for b in range(nmol):
        pairs_b = [p for p in range(npairs) if atom_mol[int(mol.idxi[p])] == b]
        ob.require(all(atom_mol[int(mol.idxj[p])] == b for p in pairs_b), "pair spans two molecules")
        spec_tot = Eelec.a[b] + sum(EnucAB.a[p] for p in pairs_b)
        atoms_b = [a for a in range(natoms) if atom_mol[a] == b]
        spec_hf = spec_tot - sum(Eiso.a[a] for a in atoms_b) + sum(S.rv(const.eheat[int(mol.Z[a])].item()) for a in atoms_b)
        for name, c in (("Etot", Etot.a[b] == spec_tot), ("Enuc", Enuc.a[b] == sum(EnucAB.a[p] for p in pairs_b)), ("Hf", Hf.a[b] == spec_hf)):
            v, m = smt.prove(c, [], "a:%s mol %d" % (name, b), "lra", 30)
            if v == "sat":
                if replay_energy_assembly():
                    ob.violation("%s of molecule %d is not assembled from that molecule's own terms" % (name, b), {"module": "harness.C14", "func": "replay_energy_assembly", "args": {}})
                else:
                    raise HarnessError("energy assembly counterexample did not reproduce (%s)" % name)
            else:
                ob.verdict(v, "a:%s" % name)
    expect_refuted(ob, Hf.a[0] == Etot.a[0] + sum(Eiso.a[a] for a in range(3)), [], "Hf with +Eiso", "lra")


def replay_dipole(uhf, species=None):
    """public API: reported charges vs the reported density, reported dipole vs the dipole implied by the reported charges
    and density, shift law under translation; single water (default) or a padded batch"""
    from seqm.seqm_functions.cal_par import dd_qq
    from seqm.seqm_functions.constants import a0, to_debye, debye_to_AU

    species = species or [[8, 1, 1]]
    geoms = {(8, 1, 1): [[0.1, 0.2, -0.1], [1.05, 0.3, 0.0], [-0.2, 1.1, 0.3]], (8, 6, 0): [[0.05, -0.1, 0.2], [1.18, 0.1, 0.3], [0.0, 0.0, 0.0]]}
    xyz = torch.tensor([geoms[tuple(row)] for row in species])
    sp = torch.tensor(species)
    kw = dict(UHF=True, charges=1, mult=2) if uhf else {}
    tvec = torch.tensor([1.3, -0.7, 2.1])
    out = []
    worst_q = 0.0
    for t in (torch.zeros(3), tvec):
        m, es = single_point(sp, xyz + t * (sp > 0).unsqueeze(-1), "AM1", **kw)
        P = m.dm if m.dm.dim() == 3 else m.dm.sum(dim=1)
        pop = P.diagonal(dim1=1, dim2=2).reshape(P.shape[0], -1, 4).sum(-1)
        worst_q = max(worst_q, (m.q - (m.const.tore[sp] - pop)).abs().max().item())
        isX = m.Z > 2
        dd, _ = dd_qq(m.const.qn[m.Z][isX], m.parameters["zeta_s"][isX], m.parameters["zeta_p"][isX])
        k = 0
        mus = []
        for b, row in enumerate(species):
            mu = (m.q[b].unsqueeze(1) * (xyz[b] + t) * (sp[b] > 0).unsqueeze(-1)).sum(0)
            for a_, z in enumerate(row):
                if z > 2:
                    mu = mu - 2 * dd[k] * a0 * P[b, 4 * a_, 4 * a_ + 1 : 4 * a_ + 4]
                    k += 1
            mus.append(mu * to_debye * debye_to_AU)
        out.append((m.dipole.clone(), torch.stack(mus), m.q.sum(1)))
    d_implied = max((a - b).abs().max().item() for a, b, _ in out)
    shift = (out[1][0] - out[0][0]) - out[0][2].unsqueeze(1) * tvec * to_debye * debye_to_AU
    print("replay dipole/charges (%s, species %s): |q - (Zval - diag P)| = %.3e, |reported - implied by q and P| = %.3e, |shift - charge*t| = %.3e" % ("UHF doublet cation" if uhf else "RHF", species, worst_q, d_implied, shift.abs().max().item()))
    return worst_q > 1e-10 or d_implied > 1e-8 or shift.abs().max().item() > 1e-8


@obligation(PID, "b", title="atomic charges follow from the density (sum = sum Z_val - tr P) and the dipole is the one implied by those charges and the density: point charges + sp hybridisation term; shifts by (total charge)*t under translation; RHF and UHF")
def ob_b(ob):
    from seqm.ElectronicStructure import Electronic_Structure
    from seqm.seqm_functions.dipole import calc_ground_dipole, calc_dipole_matrix
    from seqm.seqm_functions.cal_par import dd_qq
    from seqm.seqm_functions.constants import a0, to_debye, debye_to_AU

    ob.encodes(Electronic_Structure.forward, Electronic_Structure.atomic_charges, calc_ground_dipole, calc_dipole_matrix)
    ob.bound("padded batches [[O,H,H],[O,C,pad]] and [[O,C,pad],[O,H,H]] (padding before and after another molecule); all coordinates (incl. the padding slot) and the density matrices (physical block; alpha/beta independent for UHF) symbolic reals; dipole-separation parameters concrete (shipped AM1 rows)")
    ob.assume("the SCF driver inside Electronic_Structure.forward is a recorder that hands back the symbolic density; the charge assembly that follows it is the real code")
    from .C06 import _sym_density

    for species in (SPECIES, SPECIES[::-1]):
        mol, const, nmol, molsize = _mol(species)
        n = 4 * molsize
        phys = []
        for row in species:
            idx = []
            for a, z in enumerate(row):
                idx += [4 * a + k for k in range(4)] if z > 1 else ([4 * a] if z == 1 else [])
            phys.append(idx)
        X = S.reals("x", (nmol, molsize, 3))
        conv = S.rv(to_debye) * S.rv(debye_to_AU)  # the code multiplies by the two factors one after the other
        tore = const.tore
        isX = mol.Z > 2
        with symbolic_factories():
            # the same (partly symbolic: sqrt(3) is an auxiliary variable) dipole-separation terms the code builds
            dd, _ = dd_qq(const.qn[mol.Z][isX], mol.parameters["zeta_s"][isX], mol.parameters["zeta_p"][isX])
            dd *= a0
        dd = list(dd.a)
        heavy_atoms = [(b, a) for b in range(nmol) for a, z in enumerate(species[b]) if z > 2]
        ddmap = dict(zip(heavy_atoms, dd))
        for uhf in (False, True):
            if uhf:
                Pa, Pb = _sym_density("Pa", nmol, n, phys), _sym_density("Pb", nmol, n, phys)
                P = SymTensor(np.stack([Pa, Pb], axis=1))
                Ptot = Pa + Pb
            else:
                Ptot = _sym_density("P", nmol, n, phys)
                P = SymTensor(Ptot.copy())
            ns = types.SimpleNamespace(rij=mol.rij, parameters=mol.parameters, const=const, Z=mol.Z, species=mol.species, maskd=mol.maskd, nmol=nmol, molsize=molsize, coordinates=SymTensor(X.copy()), dipole=None, method="AM1")
            es = types.SimpleNamespace(atomic_charges=Electronic_Structure.atomic_charges, conservative_force=lambda m_, **k: (None, P, None, None, None, None, None, None, None, None, None))
            with symbolic_factories():
                calc_ground_dipole(ns, P)
                Electronic_Structure.forward(es, ns)
            q = ns.q
            tagc = "%s %s" % ("UHF" if uhf else "RHF", species)
            stop = False
            for b in range(nmol):
                # charges
                for a in range(molsize):
                    spec_q = S.rv(tore[species[b][a]].item()) - sum(Ptot[b, 4 * a + k, 4 * a + k] for k in range(4))
                    lab = "b:%s charge (%d,%d)" % (tagc, b, a)
                    v, m = smt.prove(q.a[b, a] == spec_q, [], lab, "lra", 30)
                    if v == "sat":
                        if replay_dipole(uhf, species):
                            ob.violation("%s: reported atomic charge of atom %d of molecule %d is not Z_val minus the population of the reported (alpha+beta) density" % (tagc, a, b), {"module": "harness.C14", "func": "replay_dipole", "args": {"uhf": uhf, "species": species}})
                            stop = True
                            break
                        raise HarnessError("charge counterexample did not reproduce (%s)" % lab)
                    ob.verdict(v, "b:charge")
                if stop:
                    break
                # dipole implied by charges and density
                for c in range(3):
                    mu = sum(q.a[b, a] * X[b, a, c] for a in range(molsize) if species[b][a] > 0)
                    for (bb, a) in heavy_atoms:
                        if bb == b:
                            mu = mu - 2 * ddmap[(bb, a)] * Ptot[b, 4 * a, 4 * a + 1 + c]
                    lab = "b:%s dipole mol %d comp %d" % (tagc, b, c)
                    v, m = smt.prove(ns.dipole.a[b, c] == mu * conv, [], lab, "auto", 60)
                    if v == "sat":
                        if replay_dipole(uhf, species):
                            ob.violation("%s: reported dipole is not the one implied by the reported charges and density (molecule %d, component %d)" % (tagc, b, c), {"module": "harness.C14", "func": "replay_dipole", "args": {"uhf": uhf, "species": species}})
                            stop = True
                            break
                        raise HarnessError("dipole counterexample did not reproduce (%s)" % lab)
                    ob.verdict(v, lab)
                    # the padding slot's coordinates must not enter
                    pads = [X[b, a, k] for a in range(molsize) if species[b][a] == 0 for k in range(3)]
                    expr = z3.simplify(ns.dipole.a[b, c])
                    if {str(p_) for p_ in pads} & {str(vv) for vv in S.free_vars(expr)}:
                        alt = [z3.Real(str(p_) + "_alt") for p_ in pads]
                        v2, m2 = smt.prove(expr == z3.substitute(expr, *zip(pads, alt)), [], lab + " padding independence", "auto", 30)
                        if v2 == "sat":
                            if replay_padding_dipole():
                                ob.violation("dipole of molecule %d depends on the coordinates stored in a padding slot" % b, {"module": "harness.C14", "func": "replay_padding_dipole", "args": {}})
                            else:
                                raise HarnessError("padding-coordinate dependence of the dipole did not reproduce")
                        else:
                            ob.verdict(v2, "b:padding coordinates do not enter")
                    else:
                        ob.discharged("b:padding coordinates do not enter")
                if stop:
                    break
            if stop:
                return
    expect_refuted(ob, ns.dipole.a[0, 0] == sum(q.a[0, a] * X[0, a, 0] for a in range(3)) * conv, [], "dipole without the hybridisation term")


def replay_padding_dipole():
    from seqm.seqm_functions.dipole import calc_ground_dipole

    outs = []
    for pad in ([0.0, 0.0, 0.0], [5.0, -3.0, 2.0]):
        coords = [[[0.0, 0, 0], [0.96, 0.1, 0], [-0.24, 0.93, 0.2]], [[0.0, 0, 0], [1.13, 0.2, 0.1], pad]]
        from .common import molecule as _m

        mol, p, const = _m(SPECIES, coords, "AM1")
        g = torch.Generator().manual_seed(1)
        P = torch.rand(2, 12, 12, generator=g)
        P = P + P.transpose(1, 2)
        calc_ground_dipole(mol, P)
        outs.append(mol.dipole.clone())
    d = (outs[0] - outs[1]).abs().max().item()
    print("replay dipole vs padding coordinates: change %.3e" % d)
    return d > 1e-12


def replay_gap():
    m, es = single_point(torch.tensor(SPECIES), torch.tensor([[[0.0, 0, 0], [0.96, 0.1, 0], [-0.24, 0.93, 0.2]], [[0.0, 0, 0], [1.13, 0.2, 0.1], [0.0, 0.0, 0.0]]]), "AM1")
    worst = 0.0
    for b in range(2):
        nocc = int(m.nocc[b])
        worst = max(worst, abs(m.e_gap[b].item() - (m.e_mo[b, nocc] - m.e_mo[b, nocc - 1]).item()))
    print("replay gap: |e_gap - (e[nocc]-e[nocc-1])| = %.3e" % worst)
    return worst > 1e-10


@obligation(PID, "c", title="gap = LUMO - HOMO of the reported orbital energies: e[nocc] - e[nocc-1] per molecule (gather logic of Energy.forward, lifted from the live source)")
def ob_c(ob):
    import ast
    import inspect
    from seqm import basics

    ob.encodes(basics.Energy.forward)
    ob.bound("2 molecules x 6 orbital energies symbolic, nocc in {1..5} x {1..5} enumerated; the restricted gap statements are extracted from the live AST of Energy.forward and executed on symbolic tensors")
    src = inspect.getsource(basics.Energy.forward)
    tree = ast.parse("class _T:\n" + src if src.startswith("    ") else src)
    # find the assignment  e_gap = (e.gather(1, lumo) - e.gather(1, lumo - 1)).reshape(-1)  and the lumo definition before it
    stmts = {}
    for node in ast.walk(tree):
        if isinstance(node, ast.Assign) and len(node.targets) == 1 and isinstance(node.targets[0], ast.Name):
            nm = node.targets[0].id
            seg = ast.get_source_segment("class _T:\n" + src if src.startswith("    ") else src, node)
            if nm == "lumo" and "nocc" in seg and "lumo_a" not in seg:
                stmts["lumo"] = seg
            if nm == "e_gap" and "gather" in seg and "lumo_a" not in seg and "stack" not in seg:
                stmts["e_gap"] = seg
    ob.require("lumo" in stmts and "e_gap" in stmts, "could not locate the restricted gap statements in Energy.forward: %s" % list(stmts))
    ob.note("statements under test: %s ; %s" % (stmts["lumo"].strip(), stmts["e_gap"].strip()))
    e = S.sym("e", (2, 6))

    class _G(SymTensor):
        pass

    bad = False
    for n0 in range(1, 6):
        for n1 in range(1, 6):
            env = {"e": e, "molecule": types.SimpleNamespace(nocc=torch.tensor([n0, n1])), "torch": torch}
            exec(stmts["lumo"].strip(), env)
            exec(stmts["e_gap"].strip(), env)
            g = env["e_gap"]
            for b, nb in enumerate((n0, n1)):
                v, m = smt.prove(g.a[b] == e.a[b, nb] - e.a[b, nb - 1], [], "c:gap nocc=(%d,%d) mol %d" % (n0, n1, b), "lra", 10)
                if v == "sat" and not bad:
                    bad = True
                    if replay_gap():
                        ob.violation("reported gap is not e[nocc] - e[nocc-1]", {"module": "harness.C14", "func": "replay_gap", "args": {}})
                    else:
                        raise HarnessError("gap counterexample did not reproduce")
                elif v != "sat":
                    ob.verdict(v, "c:gap")


# ---- shared obligation: Etot of an excited active state adds this re-evaluated excitation energy to the ground-state energy ----
@obligation(PID, "d", title='[shared with C16.c] excitation energy re-evaluated for the total energy: CIS w = X.AX, RPA w = X.(AX+BY) + Y.(BX+AY) (the quadratic form of the response matrix), for arbitrary amplitudes and sigma vectors')
def ob_d_shared(ob):
    """Etot of an excited active state adds this re-evaluated excitation energy to the ground-state energy"""
    from . import C16 as _m  # imported lazily: the harness modules share obligations in both directions

    ob.note("this obligation is the one registered as C16.c; it is also decided here because Etot of an excited active state adds this re-evaluated excitation energy to the ground-state energy")
    _m.ob_c(ob)


def replay_mo_tracking(perm_o, perm_v):
    """float64, real Energy._crossing_match_molecular_orbitals: new orbitals = previous ones with the given reorderings (and a
    sign flip); the returned energies must be the energies of the returned orbitals"""
    from seqm.basics import Energy

    nocc, nvir = len(perm_o), len(perm_v)
    n = nocc + nvir
    g = torch.Generator().manual_seed(5)
    Q, _ = torch.linalg.qr(torch.rand(n, n, generator=g, dtype=torch.float64))
    prev = Q.unsqueeze(0)
    order = list(perm_o) + [nocc + k for k in perm_v]
    new = prev[:, :, order].clone()
    new[:, :, 0] *= -1
    e_new = torch.arange(1.0, n + 1.0, dtype=torch.float64).unsqueeze(0)  # energy of new column c is c+1
    mos, e = Energy._crossing_match_molecular_orbitals(new, prev, nocc, e_new.clone())
    if e.shape != e_new.shape:
        print("replay MO tracking: %d energies returned for %d orbitals" % (e.shape[1], n))
        return True
    bad = False
    for k in range(n):
        c = int(torch.argmax((new[0].T @ mos[0, :, k]).abs()))  # which new column ended up at position k
        if abs(e[0, k].item() - e_new[0, c].item()) > 0:
            print("replay MO tracking: returned orbital %d is new orbital %d (energy %.1f) but is reported with energy %.1f" % (k, c, e_new[0, c].item(), e[0, k].item()))
            bad = True
    if not bad:
        print("replay MO tracking (occupied order %s, virtual order %s): energies follow their orbitals" % (perm_o, perm_v))
    return bad


@obligation(PID, "e", title="orbital tracking along a trajectory reorders orbital energies together with their orbitals: after Energy._crossing_match_molecular_orbitals the k-th reported energy is the energy of the orbital reported in column k, for every reordering of the occupied and of the virtual block (arbitrary energies)")
def ob_e(ob):
    import itertools
    from seqm.basics import Energy

    ob.encodes(Energy._crossing_match_molecular_orbitals)
    ob.bound("2 occupied + 3 virtual orbitals (thorough: 3 + 3), all reorderings between consecutive steps (with a sign flip), batch of 2 molecules with different reorderings; the orbital energies symbolic reals; orbitals a concrete orthogonal matrix")
    nocc, nvir = (2, 3) if ob.tier != "thorough" else (3, 3)
    n = nocc + nvir
    g = torch.Generator().manual_seed(5)
    Q, _ = torch.linalg.qr(torch.rand(n, n, generator=g, dtype=torch.float64))
    combos = [(po, pv) for po in itertools.permutations(range(nocc)) for pv in itertools.permutations(range(nvir))]
    for idx, (po, pv) in enumerate(combos):
        po2, pv2 = combos[(idx + 5) % len(combos)]
        orders = [list(po) + [nocc + k for k in pv], list(po2) + [nocc + k for k in pv2]]
        prev = Q.unsqueeze(0).repeat(2, 1, 1)
        new = torch.stack([Q[:, orders[0]], Q[:, orders[1]]]).clone()
        new[:, :, 0] *= -1
        E = np.array([[z3.Real("e_%d_%d" % (b, c)) for c in range(n)] for b in range(2)], dtype=object)
        with symbolic_factories():
            mos, e = Energy._crossing_match_molecular_orbitals(new, prev, nocc, SymTensor(E.copy()))
        ob.require(isinstance(e, SymTensor) and torch.is_tensor(mos), "unexpected return types from the MO tracking routine")
        if e.a.shape != (2, n):
            if replay_mo_tracking(list(po), list(pv)):
                ob.violation("MO tracking returns %d orbital energies for %d orbitals (occupied order %s, virtual order %s)" % (e.a.shape[1], n, list(po), list(pv)), {"module": "harness.C14", "func": "replay_mo_tracking", "args": {"perm_o": list(po), "perm_v": list(pv)}})
                return
            raise HarnessError("energy vector of shape %s did not reproduce as a defect" % (e.a.shape,))
        for b in range(2):
            for k in range(n):
                c = int(torch.argmax((new[b].T @ mos[b, :, k]).abs()))
                lab = "e:orders %s molecule %d column %d" % (orders[b], b, k)
                v, m = smt.prove(e.a[b, k] == E[b, c], [], lab, "lra", 10)
                if v == "sat":
                    sel = (po, pv) if b == 0 else (po2, pv2)
                    if replay_mo_tracking(list(sel[0]), list(sel[1])):
                        ob.violation("MO tracking returns orbital energies that do not belong to the reordered orbitals (occupied order %s, virtual order %s): excited-state energies and forces along a trajectory are computed from mismatched orbital/energy pairs after an orbital swap" % (list(sel[0]), list(sel[1])), {"module": "harness.C14", "func": "replay_mo_tracking", "args": {"perm_o": list(sel[0]), "perm_v": list(sel[1])}})
                        return
                    raise HarnessError("MO tracking counterexample did not reproduce (%s)" % lab)
                ob.verdict(v, lab)
    x, y = z3.Reals("x y")
    expect_refuted(ob, x == y, [], "twin: another orbital's energy is distinguishable", "lra")
