"""C05 — batching, padding, ordering are transparent (engine E1)."""
import types

from .common import *  # noqa: F401,F403
from .common import S, smt, z3, np, torch, SymTensor, symbolic_factories, Explorer, obligation, HarnessError, expect_refuted, molecule, quiet, single_point

PID = "C05"
NAMES = "nmol molsize nSuperHeavy nHeavy nHydro nocc Z maskd atom_molid mask pair_molid ni nj idxi idxj xij rij".split()


def _parse(species, X, cutoff=None):
    from seqm.basics import Parser
    from seqm.seqm_functions.constants import Constants

    const = Constants()
    sp = torch.tensor(species)
    nmol = sp.shape[0]
    mol = types.SimpleNamespace(species=sp, coordinates=SymTensor(X), const=const, tot_charge=torch.zeros(nmol), mult=torch.ones(nmol))
    par = {"elements": [0, 1, 6, 8], "method": "AM1"}
    if cutoff is not None:
        par["pair_outer_cutoff"] = cutoff
    pr = Parser(par)
    with symbolic_factories():
        return dict(zip(NAMES, pr(mol, "AM1")))


def replay_batch_vs_single():
    """public API: each molecule of a padded batch (junk in the padding slot) vs the same molecule alone"""
    spb = torch.tensor([[8, 1, 1], [1, 1, 0]])
    xb = torch.tensor([[[0.0, 0, 0], [0.96, 0.1, 0], [-0.24, 0.93, 0.2]], [[0.3, 0.1, 0], [1.05, 0.2, 0.1], [7.0, -3.0, 2.0]]])
    mb, _ = single_point(spb, xb, "AM1")
    m0, _ = single_point(spb[:1], xb[:1], "AM1")
    m1, _ = single_point(spb[1:, :2], xb[1:, :2], "AM1")
    dE = max(abs(mb.Etot[0].item() - m0.Etot[0].item()), abs(mb.Etot[1].item() - m1.Etot[0].item()))
    dF = max((mb.force[0] - m0.force[0]).abs().max().item(), (mb.force[1, :2] - m1.force[0]).abs().max().item())
    print("replay batch vs single: |dE| = %.3e, |dF| = %.3e" % (dE, dF))
    return dE > 1e-7 or dF > 1e-6


@obligation(PID, "a", title="Parser: every per-molecule output of a zero-padded batch equals that of the molecule parsed alone, and no output depends on the coordinates stored in padding slots (all coordinates symbolic)")
def ob_a(ob):
    from seqm.basics import Parser

    ob.encodes(Parser.forward)
    ob.bound("batches [[O,H,H],[H,H,pad]] and [[H,H,pad],[O,H,H]] (order swapped) and [[O,C,pad,pad],[O,O,H,H]]; all coordinates incl. padding slots symbolic reals in (-100,100) with distinct real atoms; default pair cutoff")
    cases = [[[8, 1, 1], [1, 1, 0]], [[1, 1, 0], [8, 1, 1]], [[8, 6, 0, 0], [8, 8, 1, 1]]]
    if ob.tier == "thorough":
        cases += [[[8, 6, 1, 1], [6, 1, 1, 0]], [[1, 1, 0, 0], [8, 6, 1, 1], [8, 1, 1, 0]]]
    for species in cases:
        nmol, molsize = len(species), len(species[0])
        X = S.reals("x", (nmol, molsize, 3))
        assm = [z3.And(v > -100, v < 100) for v in X.reshape(-1)]
        ex = Explorer(assumptions=assm, piecewise="ite", kind="nra")
        res = ex.run(lambda: _parse(species, X.copy()))
        ob.paths += ex.paths
        ob.require(ex.paths == 1, "expected one path through the batch parse, got %d" % ex.paths)
        pc, side, B = res[0]
        sq_batch = dict(S.ST.sq)
        padvars = {str(v) for b in range(nmol) for a in range(molsize) if species[b][a] == 0 for v in X[b, a]}
        pair_off = 0
        atom_off = 0
        for b in range(nmol):
            k = sum(1 for z in species[b] if z > 0)
            Xs = X[b : b + 1, :k].copy()
            exs = Explorer(assumptions=assm, piecewise="ite", kind="nra")
            # keep the sqrt cache so that equal radicands share their auxiliary variable between the two parses
            S.reset()
            S.ST.sq.update(sq_batch)
            S.ST.side.extend(side)
            Sg = exs.run(lambda: _parse([species[b][:k]], Xs), reset=False)[0][2]
            npair = Sg["rij"].a.shape[0]
            lab = "a:%s mol %d" % (species, b)
            ok = True
            ok &= Sg["Z"].tolist() == B["Z"][atom_off : atom_off + k].tolist()
            ok &= Sg["ni"].tolist() == B["ni"][pair_off : pair_off + npair].tolist() and Sg["nj"].tolist() == B["nj"][pair_off : pair_off + npair].tolist()
            ok &= (Sg["idxi"] + atom_off).tolist() == B["idxi"][pair_off : pair_off + npair].tolist() and (Sg["idxj"] + atom_off).tolist() == B["idxj"][pair_off : pair_off + npair].tolist()
            ok &= B["pair_molid"][pair_off : pair_off + npair].tolist() == [b] * npair and B["atom_molid"][atom_off : atom_off + k].tolist() == [b] * k
            ok &= int(B["nHeavy"][b]) == int(Sg["nHeavy"][0]) and int(B["nHydro"][b]) == int(Sg["nHydro"][0]) and int(B["nocc"][b]) == int(Sg["nocc"][0])
            # block positions: maskd / mask address (molecule b, atom i, atom j) of the padded layout
            ok &= B["maskd"][atom_off : atom_off + k].tolist() == [b * molsize * molsize + a * (molsize + 1) for a in range(k)]
            ok &= B["mask"][pair_off : pair_off + npair].tolist() == [b * molsize * molsize + int(i) * molsize + int(j) for i, j in zip(Sg["idxi"], Sg["idxj"])]
            if not ok:
                if replay_batch_vs_single():
                    ob.violation("Parser index maps of molecule %d in the padded batch %s differ from the molecule parsed alone" % (b, species), {"module": "harness.C05", "func": "replay_batch_vs_single", "args": {}})
                else:
                    raise HarnessError("index-map mismatch did not reproduce (%s)" % lab)
                return
            ob.discharged(lab + " index maps")
            for p in range(npair):
                claims = [("rij", B["rij"].a[pair_off + p] == Sg["rij"].a[p])] + [("xij%d" % c, B["xij"].a[pair_off + p, c] == Sg["xij"].a[p, c]) for c in range(3)]
                for name, c in claims:
                    v, m = smt.prove(c, assm + [B["rij"].a[pair_off + p] > 0], lab + " pair %d %s" % (p, name), "nra", 60)
                    if v == "sat":
                        if replay_batch_vs_single():
                            ob.violation("Parser geometry terms (%s) of molecule %d differ between batch and single" % (name, b), {"module": "harness.C05", "func": "replay_batch_vs_single", "args": {}})
                        else:
                            raise HarnessError("geometry mismatch did not reproduce (%s %s)" % (lab, name))
                        return
                    ob.verdict(v, lab + " " + name)
            pair_off += npair
            atom_off += k
        # no output term nor side constraint mentions a padding coordinate
        terms = list(B["rij"].a.reshape(-1)) + list(B["xij"].a.reshape(-1))
        mentioned = set()
        for e in terms + list(side):
            mentioned |= {str(v) for v in S.free_vars(z3.simplify(e))} & padvars
        if mentioned:
            if replay_batch_vs_single():
                ob.violation("Parser outputs depend on padding-slot coordinates %s" % sorted(mentioned), {"module": "harness.C05", "func": "replay_batch_vs_single", "args": {}})
            else:
                raise HarnessError("padding dependence did not reproduce")
        else:
            ob.discharged("a:%s no padding coordinate enters" % species)
        ob.sample({"species": species, "pairs": int(B["rij"].a.shape[0])})


def replay_pack(nheavy, nH):
    from seqm.seqm_functions.pack import pack, unpack

    nmol = len(nheavy)
    N = 4 * max(a + b for a, b in zip(nheavy, nH))
    g = torch.Generator().manual_seed(1)
    X = torch.zeros(nmol, N, N)
    for b in range(nmol):
        idx = list(range(4 * nheavy[b])) + [4 * nheavy[b] + 4 * h for h in range(nH[b])]
        A = torch.rand(len(idx), len(idx), generator=g)
        for ii, i in enumerate(idx):
            for jj, j in enumerate(idx):
                X[b, i, j] = A[ii, jj]
    Y = unpack(pack(X, torch.tensor(nheavy), torch.tensor(nH)), torch.tensor(nheavy), torch.tensor(nH), N)
    d = (X - Y).abs().max().item()
    print("replay unpack(pack(x)) nHeavy=%s nHydro=%s: max |x - roundtrip| = %.3e" % (nheavy, nH, d))
    return d > 0


@obligation(PID, "c", title="unpack(pack(x)) is the identity on every molecule's physical block and never moves an entry across the padding boundary, for heterogeneous layouts incl. equal orbital counts with different composition")
def ob_c(ob):
    from seqm.seqm_functions import pack as PK

    ob.encodes(PK.pack, PK.unpack, PK.packone, PK.unpackone, PK._pack_batch_same, PK._unpack_batch_same)
    ob.bound("layouts (nHeavy,nHydro) per molecule: [(1,1),(0,2)], [(2,0),(0,1)], [(1,0),(0,4)], [(0,4),(1,0)], [(1,2),(1,2)], [(2,1),(1,5)]; matrix entries symbolic")
    for nheavy, nH in (([1, 0], [1, 2]), ([2, 0], [0, 1]), ([1, 0], [0, 4]), ([0, 1], [4, 0]), ([1, 1], [2, 2]), ([2, 1], [1, 5])):
        N = 4 * max(a + b for a, b in zip(nheavy, nH))
        nmol = len(nheavy)
        X = np.full((nmol, N, N), z3.RealVal(0), dtype=object)
        for b in range(nmol):
            idx = list(range(4 * nheavy[b])) + [4 * nheavy[b] + 4 * h for h in range(nH[b])]
            for i in idx:
                for j in idx:
                    X[b, i, j] = z3.Real("x%d_%d_%d" % (b, i, j))
        with symbolic_factories():
            Y = PK.unpack(PK.pack(SymTensor(X.copy()), torch.tensor(nheavy), torch.tensor(nH)), torch.tensor(nheavy), torch.tensor(nH), N)
        same = all(z3.is_true(z3.simplify(Y.a[k] == X[k])) for k in np.ndindex(X.shape))
        if same:
            ob.discharged("c:layout %s/%s" % (nheavy, nH))
        else:
            bad = [k for k in np.ndindex(X.shape) if smt.prove(Y.a[k] == X[k], [], "c:%s" % (k,), "lra", 10)[0] == "sat"]
            if bad and replay_pack(nheavy, nH):
                ob.violation("unpack(pack(x)) is not the identity for the layout nHeavy=%s nHydro=%s (first bad entry %s)" % (nheavy, nH, bad[0]), {"module": "harness.C05", "func": "replay_pack", "args": {"nheavy": nheavy, "nH": nH}})
            elif bad:
                raise HarnessError("pack roundtrip counterexample did not reproduce")
            else:
                ob.discharged("c:layout %s/%s" % (nheavy, nH))


# ---- shared obligation: batch-mate independence of excited states in a mixed batch requires that no molecule gets guess vectors on padded occupied-virtual pairs ----
@obligation(PID, "e", title='[shared with C16.d] Davidson start space of a mixed batch: every molecule gets at most as many unit guess vectors as it has occupied-virtual pairs (no guess on padded pairs)')
def ob_e_shared(ob):
    """batch-mate independence of excited states in a mixed batch requires that no molecule gets guess vectors on padded occupied-virtual pairs"""
    from . import C16 as _m  # imported lazily: the harness modules share obligations in both directions

    ob.note("this obligation is the one registered as C16.d; it is also decided here because batch-mate independence of excited states in a mixed batch requires that no molecule gets guess vectors on padded occupied-virtual pairs")
    _m.ob_d(ob)


# ---- shared obligation: the temperature and kinetic energy of a molecule must not depend on the padding of its batch row ----
@obligation(PID, "f", title="[shared with C08.d] the temperature written for a step is 2 Ek/(k_B n_dof) of that step's velocities with n_dof = 3 N_real_atoms - constraints, per molecule of a padded batch, every engine/damping/COM-removal combination")
def ob_f_shared(ob):
    """the temperature and kinetic energy of a molecule must not depend on the padding of its batch row"""
    from . import C08 as _m  # imported lazily: the harness modules share obligations in both directions

    ob.note("this obligation is the one registered as C08.d; it is also decided here because the temperature and kinetic energy of a molecule must not depend on the padding of its batch row")
    _m.ob_d(ob)


def _dmap(nsh, nheavy, nh):
    """orbital index map of the 9-slot-per-atom (PM6) layout: packed index -> padded index"""
    m = list(range(9 * nsh))
    m += [9 * nsh + 9 * a + k for a in range(nheavy) for k in range(4)]
    m += [9 * nsh + 9 * nheavy + 9 * h for h in range(nh)]
    return m


def replay_packd(nsh, nheavy, nh):
    from seqm.seqm_functions.packd import packd, unpackd

    nmol = len(nsh)
    size = 9 * max(a + b + c for a, b, c in zip(nsh, nheavy, nh))
    g = torch.Generator().manual_seed(2)
    X = torch.zeros(nmol, size, size, dtype=torch.float64)
    worst = 0.0
    for b in range(nmol):
        m = _dmap(nsh[b], nheavy[b], nh[b])
        A = torch.rand(len(m), len(m), generator=g, dtype=torch.float64)
        for ii, i in enumerate(m):
            for jj, j in enumerate(m):
                X[b, i, j] = A[ii, jj]
        Pk = packd(X[b], nsh[b], nheavy[b], nh[b])
        worst = max(worst, (Pk[: len(m), : len(m)] - A).abs().max().item())
        worst = max(worst, (unpackd(Pk, nsh[b], nheavy[b], nh[b], size) - X[b]).abs().max().item())
    print("replay packd/unpackd nSuperHeavy=%s nHeavy=%s nHydro=%s: max deviation from the orbital map %.3e" % (nsh, nheavy, nh, worst))
    return worst > 0


@obligation(PID, "g", title="PM6 layout: packd moves entry (map(i), map(j)) of the 9-slot-per-atom matrix to (i, j) for every pair of physical orbitals (so symmetric matrices stay symmetric), and unpackd(packd(x)) is the identity on the physical block, for single matrices and heterogeneous batches")
def ob_g(ob):
    from seqm.seqm_functions import packd as PD

    ob.encodes(PD.packoned, PD.unpackoned, PD.packd, PD.unpackd)
    layouts = [([1], [1], [1]), ([0], [2], [1]), ([2], [0], [2]), ([1], [2], [0]), ([1, 0], [1, 2], [2, 1]), ([0, 1], [1, 1], [3, 0]), ([2, 1], [1, 0], [0, 2])]
    ob.bound("layouts (nSuperHeavy, nHeavy, nHydro) per molecule: %s; every entry of the physical block an independent symbol (no symmetry assumed)" % layouts)
    for nsh, nheavy, nh in layouts:
        nmol = len(nsh)
        size = 9 * max(a + b + c for a, b, c in zip(nsh, nheavy, nh))
        X = np.full((nmol, size, size), z3.RealVal(0), dtype=object)
        maps = [_dmap(nsh[b], nheavy[b], nh[b]) for b in range(nmol)]
        for b in range(nmol):
            for i in maps[b]:
                for j in maps[b]:
                    X[b, i, j] = z3.Real("x%d_%d_%d" % (b, i, j))
        with symbolic_factories():
            if nmol == 1:
                Pk = PD.packd(SymTensor(X[0].copy()), nsh[0], nheavy[0], nh[0])
                Un = PD.unpackd(Pk, nsh[0], nheavy[0], nh[0], size)
                Pk, Un = Pk.a[None], Un.a[None]
            else:
                Pk = PD.packd(SymTensor(X.copy()), torch.tensor(nsh), torch.tensor(nheavy), torch.tensor(nh))
                Un = PD.unpackd(Pk, torch.tensor(nsh), torch.tensor(nheavy), torch.tensor(nh), size).a
                Pk = Pk.a
        bad = None
        for b in range(nmol):
            m = maps[b]
            for i in range(Pk.shape[1]):
                for j in range(Pk.shape[2]):
                    want = X[b, m[i], m[j]] if i < len(m) and j < len(m) else z3.RealVal(0)
                    if not z3.is_true(z3.simplify(Pk[b, i, j] == want)):
                        if smt.prove(Pk[b, i, j] == want, [], "g:packed[%d,%d,%d]" % (b, i, j), "lra", 10)[0] == "sat":
                            bad = bad or ("packed", b, i, j)
            for k in np.ndindex(X[b].shape):
                if not z3.is_true(z3.simplify(Un[b][k] == X[b][k])):
                    if smt.prove(Un[b][k] == X[b][k], [], "g:roundtrip[%d,%s]" % (b, k), "lra", 10)[0] == "sat":
                        bad = bad or ("roundtrip", b) + k
        lab = "g:layout %s/%s/%s" % (nsh, nheavy, nh)
        if bad is None:
            ob.discharged(lab)
        elif replay_packd(nsh, nheavy, nh):
            ob.violation("packd/unpackd do not follow the orbital map for nSuperHeavy=%s nHeavy=%s nHydro=%s (first bad entry %s): the packed Fock matrix is not the physical block (e.g. no longer symmetric), which the 'U'-triangle eigensolver hides but SP2 does not" % (nsh, nheavy, nh, bad), {"module": "harness.C05", "func": "replay_packd", "args": {"nsh": nsh, "nheavy": nheavy, "nh": nh}})
            return
        else:
            raise HarnessError("packd counterexample did not reproduce (%s, %s)" % (lab, bad))
    x, y = z3.Reals("x y")
    expect_refuted(ob, x == y, [], "twin: two different matrix entries are distinguishable", "lra")


# ---- shared obligation: a padded molecule's centre-of-mass removal must use its own real atoms only (zero-mass padding rows must not enter the total mass) ----
@obligation(PID, "h", title="[shared with C13.a] _zero_com: afterwards sum m v = 0, angular momentum about the COM = 0 (where requested), kinetic energy preserved, padding atoms at rest — for all velocity fields, COM off the origin, padded batch incl. a linear molecule")
def ob_h_shared(ob):
    """a padded molecule's centre-of-mass removal must use its own real atoms only"""
    from . import C13 as _m  # imported lazily: the harness modules share obligations in both directions

    ob.note("this obligation is the one registered as C13.a; it is also decided here because the amount of zero padding must not change a molecule's centre-of-mass velocity removal")
    _m.ob_a(ob)


# ---- shared obligation: a molecule gives the same result alone and in a batch only if the drivers keep per-molecule state aligned (and sized) when its batch mates converge at other iterations ----
@obligation(PID, "i", title='[shared with C04.g] SCF drivers under partial convergence (fixed mixing, adaptive mixing, adaptive + Pulay, Krylov subspace KSA): the driver completes, at every density step the Fock matrices of the still-active molecules arrive together with the atom counts and occupation numbers of the same molecules, and the convergence flags returned are those of the schedule — for every order in which the molecules of a batch converge')
def ob_i_shared(ob):
    """a molecule gives the same result alone and in a batch only if the drivers keep per-molecule state aligned when its batch mates converge at other iterations"""
    from . import C04 as _m  # imported lazily: the harness modules share obligations in both directions

    ob.note("this obligation is the one registered as C04.g; it is also decided here because a molecule gives the same result alone and in a batch only if the drivers keep per-molecule state aligned (and of the stored size) when its batch mates converge at other iterations")
    _m.ob_g(ob)
