"""C11 — each output stream at exactly its own cadence (engine E2: CrossHair on the real run loop + writers)."""
from .common import *  # noqa: F401,F403
from .common import obligation, HarnessError
from engine import chrun

PID = "C11"
PARAMS = ("data", "c", "v", "f", "xyz", "pr", "ck", "steps")


def make_slice(name, engine, nref, spec, nmol=1, molid=(0,), post="_", expr="P.cadence_violations(%s) == []", timeout_s=400):
    """spec: {param: int | (lo,hi)}; symbolic parameters become CrossHair int arguments"""
    sym = [p for p in PARAMS if isinstance(spec[p], tuple)]
    sig = ", ".join("%s: int" % p for p in sym)
    pre = " and ".join("%d <= %s <= %d" % (spec[p][0], p, spec[p][1]) for p in sym) or "True"
    args = ", ".join([repr(engine)] + [p if p in sym else str(spec[p]) for p in PARAMS] + [str(nref), "nmol=%d" % nmol, "molid=%r" % (tuple(molid),)])
    prelude = "from harness import md_props as P, mdsim as M\nM.install(); M.make_molecule(%d); P.reference(%r, %d, %d, %r)\n" % (nmol, engine, nref, nmol, tuple(molid))
    body = "return " + (expr % args)
    sl = chrun.Slice(name, prelude, sig, pre, body, post, timeout_s)
    sl.meta = dict(engine=engine, nref=nref, spec=spec, sym=sym, nmol=nmol, molid=tuple(molid))
    return sl


def concrete_args(sl, values):
    d = dict(sl.meta["spec"])
    for p, v in zip(sl.meta["sym"], values):
        d[p] = v
    return d


def replay_cadence(engine, data, c, v, f, xyz, pr, ck, steps, nmol=1, molid=(0,)):
    """re-run the real loop concretely with these cadences (in-memory storage); True if a stream deviates"""
    from . import md_props as P

    bad = P.cadence_violations(engine, data, c, v, f, xyz, pr, ck, steps, max(steps, 1), nmol=nmol, molid=tuple(molid))
    for b in bad:
        print("  ", b)
    return bool(bad)


def replay_cadence_real_h5(engine, data, c, v, f, xyz, pr, ck, steps):
    """the same run with the REAL h5py and real files in a temporary directory (no fake storage): reads back /X/steps"""
    import tempfile, shutil, os, io, contextlib
    import h5py
    import torch
    import seqm.MolecularDynamics as MD
    from . import mdsim as M

    d = tempfile.mkdtemp(prefix="verif_c11_")
    try:
        mol, p = M.make_molecule(1)
        out = M.output_dict((0,), data, c, v, f, xyz, pr, ck, prefix=os.path.join(d, "x"))
        saved = MD.esdriver
        MD.esdriver = M.FakeES
        try:
            md = M.make_md(engine, p, out)
            with contextlib.redirect_stdout(io.StringIO()):
                md.run(mol, steps, seed=7)
        finally:
            MD.esdriver = saved
        bad = []
        path = os.path.join(d, "x.0.h5")
        cad = {"data": data, "coordinates": c, "velocities": v, "forces": f}
        if os.path.exists(path):
            with h5py.File(path, "r") as h5:
                for g, cd in cad.items():
                    exp = M.expected_steps(cd, steps)
                    got = list(h5[g + "/steps"][...]) if g in h5 and "steps" in h5[g] else []
                    if [int(x) for x in got] != exp:
                        bad.append("%s/steps on disk %r, expected %r" % (g, [int(x) for x in got], exp))
        for b in bad:
            print("  ", b)
        return bool(bad)
    finally:
        shutil.rmtree(d, ignore_errors=True)


def _run(ob, slices, expect_cex=()):
    res = chrun.run_slices(slices, jobs=16)
    for sl, r in zip(slices, res):
        ob.paths += 1
        ob.ch_conditions += 1
        ob.ch_definite += r["verdict"] in ("confirmed", "counterexample")
        label = "%s {%s}" % (sl.name, sl.pre)
        if sl.name in expect_cex:
            if r["verdict"] != "counterexample":
                raise HarnessError("twin %s: expected a counterexample, got %s\n%s" % (sl.name, r["verdict"], r["raw"][-400:]))
            ob.note("twin %s refuted as expected: %s" % (sl.name, r.get("call")))
            continue
        if r["verdict"] == "confirmed":
            ob.discharged(label)
        elif r["verdict"] == "counterexample":
            vals = chrun.parse_int_args(r["args"])
            a = concrete_args(sl, vals)
            kw = dict(engine=sl.meta["engine"], nmol=sl.meta["nmol"], molid=list(sl.meta["molid"]), **{p: a[p] for p in PARAMS})
            print("counterexample from CrossHair:", r["call"])
            if replay_cadence(**kw):
                ob.violation("cadences %s (engine %s): a stream deviates from 'initial snapshot + multiples of its own cadence'" % ({p: a[p] for p in PARAMS}, sl.meta["engine"]), {"module": "harness.C11", "func": "replay_cadence", "args": kw})
            else:
                raise HarnessError("CrossHair counterexample %s did not reproduce concretely" % r["call"])
        elif r["verdict"] == "inconclusive":
            ob.inconclusive(label + " :: " + r["raw"][-200:])
        else:
            raise HarnessError("crosshair failed on %s:\n%s" % (sl.name, r["raw"][-1200:]))
        ob.sample({"slice": sl.name, "pre": sl.pre, "verdict": r["verdict"], "seconds": r["seconds"]})


def _describe(ob):
    import seqm.MolecularDynamics as MD

    ob.encodes(MD.Molecular_Dynamics_Basic.run, MD.Molecular_Dynamics_Basic.initialize, MD.OutputConfig.from_dict, MD.HDF5Writer.open, MD.HDF5Writer._create_new, MD.HDF5Writer._n_timepoints, MD.HDF5Writer.append_data, MD.HDF5Writer.append_vectors, MD.XYZWriter.write, MD.Molecular_Dynamics_Basic.save_checkpoint, MD.XL_BOMD._do_integrator_step)
    ob.assume("h5py replaced by an in-memory recorder (dataset shapes + (dataset,row)->value); XYZ files by frame recorders; electronic-structure driver by an analytic force field; Molecule by a light stand-in; tensors concrete, cadences/run length symbolic ints")
    ob.assume("values oracle: a run with every cadence = 1 and the same seed (real code) gives the state at each step")


@obligation(PID, "a", title="all cadence tuples (sliced), fresh runs: rows = initial + multiples of own cadence, capacity = rows, values = state at that step")
def ob_a(ob):
    _describe(ob)
    quick = ob.tier == "quick"
    N = 3 if quick else 4
    R = (0, N + 1)
    ob.bound("run length %d (cadence > run length behaves like run length + 1, so [0,%d] is complete for that length); symbolic cadence ranges per slice are listed in samples; slices fix at most one stream concretely (enumerated 0..%d) and the unlisted streams to the stated constants" % (N, N + 1, N + 1))
    slices = []
    for k in range(N + 2):
        slices.append(make_slice("A%d" % k, "basic", N, dict(data=k, c=R, v=R, f=R, xyz=0, pr=0, ck=0, steps=N)))
        slices.append(make_slice("B%d" % k, "basic", N, dict(data=1, c=R, v=0, f=0, xyz=k, pr=R, ck=R, steps=N)))
    slices.append(make_slice("C", "basic", N + 1, dict(data=2, c=(0, N + 2), v=(0, N + 2), f=0, xyz=0, pr=0, ck=0, steps=(1, N + 1))))
    for eng in ("langevin", "xl"):
        slices.append(make_slice("D_" + eng, eng, N, dict(data=R, c=R, v=R, f=0, xyz=0, pr=0, ck=0, steps=N)))
        if not quick:
            slices.append(make_slice("D2_" + eng, eng, N, dict(data=1, c=0, v=0, f=R, xyz=R, pr=0, ck=R, steps=N)))
    for molid in ((1,), (0, 1)):
        slices.append(make_slice("F%d" % len(molid), "basic", N, dict(data=R, c=R, v=R if not quick else 1, f=0, xyz=0, pr=0, ck=0, steps=N), nmol=2, molid=molid))
    if not quick:
        for k in range(N + 2):
            slices.append(make_slice("G%d" % k, "basic", N, dict(data=R, c=k, v=0, f=R, xyz=R, pr=0, ck=0, steps=N)))
    # vacuity twin: the harness function can return True (post 'not _' must be refuted)
    tw = make_slice("twin_reach", "basic", N, dict(data=1, c=(0, 2), v=0, f=0, xyz=0, pr=0, ck=0, steps=N), post="not _")
    # sensitivity twin: a filler row injected in the harness's copy of the capacity formula must be found
    tw2 = make_slice("twin_filler", "basic", N, dict(data=1, c=(0, N + 1), v=0, f=0, xyz=0, pr=0, ck=0, steps=N))
    tw2.prelude += "import seqm.MolecularDynamics as _MD\n_orig=_MD.HDF5Writer._n_timepoints\n_MD.HDF5Writer._n_timepoints=staticmethod(lambda steps, stride, include_initial=False: _orig(steps, stride, include_initial) + (1 if stride == 2 else 0))\n"
    _run(ob, slices + [tw, tw2], expect_cex=("twin_reach", "twin_filler"))


def replay_resume_cursor(data, c, v, f, tdm, na, nexc, step_offset, steps):
    from . import md_props as P

    bad = P.resume_cursor_violations(data, c, v, f, tdm, na, nexc, step_offset, steps)
    for b in bad:
        print("  ", b)
    return bool(bad)


@obligation(PID, "b", title="resumed runs: after re-opening an existing file at any step, the row cursor of every stream (data, coordinates, velocities, forces, transition densities, nonadiabatic) equals the number of rows a run up to that step has written at the stream's own cadence")
def ob_b(ob):
    import seqm.MolecularDynamics as MD

    ob.encodes(MD.HDF5Writer.open, MD.HDF5Writer._open_resume, MD.HDF5Writer._create_new)
    quick = ob.tier == "quick"
    N = 3 if quick else 4
    ob.bound("cadences of the six streams symbolic ints in [0,%d] (three at a time, the others fixed), resume step symbolic in [1,8], with and without excited states; real open/_create_new/_open_resume over the in-memory h5py" % N)
    pre = "from harness import md_props as P, mdsim as M\nM.install(); M.make_molecule(1)\n"
    R = "0 <= %s <= " + str(N)
    slices = []
    combos = [("data", "tdm", "na"), ("c", "v", "na"), ("data", "f", "na"), ("data", "c", "tdm")]
    for nexc in (2, 0):
        for sym in combos:
            fixed = {"data": 1, "c": 2, "v": 0, "f": 1, "tdm": 0, "na": 1}
            args = ", ".join(k if k in sym else str(fixed[k]) for k in ("data", "c", "v", "f", "tdm", "na"))
            sig = ", ".join("%s: int" % k for k in sym) + ", off: int"
            prec = " and ".join(R % k for k in sym) + " and 1 <= off <= 8"
            body = "return P.resume_cursor_violations(%s, %d, off, 8) == []" % (args, nexc)
            sl = chrun.Slice("R%d_%s" % (nexc, "".join(s_[0] for s_ in sym)), pre, sig, prec, body, "_", 400)
            sl.meta = dict(sym=sym, fixed=fixed, nexc=nexc)
            slices.append(sl)
    res = chrun.run_slices(slices, jobs=8)
    for sl, r in zip(slices, res):
        ob.paths += 1
        ob.ch_conditions += 1
        ob.ch_definite += r["verdict"] in ("confirmed", "counterexample")
        ob.sample({"slice": sl.name, "pre": sl.pre, "verdict": r["verdict"], "seconds": r["seconds"], "call": r.get("call")})
        if r["verdict"] == "confirmed":
            ob.discharged(sl.name)
        elif r["verdict"] == "counterexample":
            vals = chrun.parse_int_args(r["args"])
            d = dict(sl.meta["fixed"])
            for k, val in zip(sl.meta["sym"], vals[:-1]):
                d[k] = val
            kw = dict(data=d["data"], c=d["c"], v=d["v"], f=d["f"], tdm=d["tdm"], na=d["na"], nexc=sl.meta["nexc"], step_offset=vals[-1], steps=8)
            print("counterexample from CrossHair:", r["call"])
            from . import md_props as P

            bad = P.resume_cursor_violations(**kw)
            if bad:
                for b in bad:
                    print("  ", b)
                ob.violation("resume at step %d with cadences %s, %d excited states: %s" % (vals[-1], {k: kw[k] for k in ("data", "c", "v", "f", "tdm", "na")}, kw["nexc"], "; ".join(bad)[:300]), {"module": "harness.C11", "func": "replay_resume_cursor", "args": kw})
            else:
                raise HarnessError("resume-cursor counterexample did not reproduce: %s" % r["call"])
        elif r["verdict"] == "inconclusive":
            ob.inconclusive(sl.name)
        else:
            raise HarnessError("crosshair failed on %s:\n%s" % (sl.name, r["raw"][-1000:]))


def replay_config(**kw):
    from . import md_props as P

    bad = P.config_violations(**kw)
    for b in bad:
        print("  ", b)
    return bool(bad)


@obligation(PID, "c", title="the cadence every engine reads from the output configuration is the integer the user requested, for all non-negative integers (a requested 0 stays 0 and suppresses the stream; no value is replaced by a default)")
def ob_c(ob):
    import seqm.MolecularDynamics as MD

    ob.encodes(MD.OutputConfig.from_dict, MD.OutputConfig.get_h5_cadence, MD.OutputConfig.get_h5_data_every, MD.OutputConfig.get_h5_write_nonadiabatic, MD.OutputConfig.get_h5_write_tdm)
    ob.bound("nine cadences (print, checkpoint, xyz, data, coordinates, velocities, forces, nonadiabatic, transition densities) symbolic ints in [0, 10^6], three slices of three symbolic values each with the others fixed")
    names = ("pr", "ck", "xyz", "data", "c", "v", "f", "na", "tdm")
    fixed = dict(pr=1, ck=0, xyz=0, data=2, c=3, v=0, f=5, na=0, tdm=0)
    pre = "from harness import md_props as P\n"
    slices = []
    for sym in (("pr", "ck", "xyz"), ("data", "c", "v"), ("f", "na", "tdm"), ("ck", "c", "f")):
        args = ", ".join("%s=%s" % (k, k if k in sym else fixed[k]) for k in names)
        sl = chrun.Slice("K_" + "_".join(sym), pre, ", ".join("%s: int" % k for k in sym), " and ".join("0 <= %s <= 1000000" % k for k in sym), "return P.config_violations(%s) == []" % args, "_", 120)
        sl.meta = dict(sym=sym)
        slices.append(sl)
    tw = chrun.Slice("twin_cfg", pre, "ck: int", "0 <= ck <= 1000000", "return P.config_violations(pr=1, ck=ck, xyz=0, data=1, c=0, v=0, f=0, na=0, tdm=0) == [] and ck != 77", "_", 120)
    tw.meta = dict(sym=("ck",))
    res = chrun.run_slices(slices + [tw], jobs=8)
    for sl, r in zip(slices + [tw], res):
        ob.paths += 1
        ob.ch_conditions += 1
        ob.ch_definite += r["verdict"] in ("confirmed", "counterexample")
        if sl.name == "twin_cfg":
            if r["verdict"] != "counterexample":
                raise HarnessError("twin_cfg: expected the counterexample ck=77, got %s" % r["verdict"])
            continue
        ob.sample({"slice": sl.name, "pre": sl.pre, "verdict": r["verdict"], "seconds": r["seconds"], "call": r.get("call")})
        if r["verdict"] == "confirmed":
            ob.discharged(sl.name)
        elif r["verdict"] == "counterexample":
            vals = chrun.parse_int_args(r["args"])
            kw = dict(fixed)
            kw.update(dict(zip(sl.meta["sym"], vals)))
            print("counterexample from CrossHair:", r["call"])
            from . import md_props as P

            bad = P.config_violations(**kw)
            if bad:
                ob.violation("output configuration %s: %s" % (kw, "; ".join(bad)[:300]), {"module": "harness.C11", "func": "replay_config", "args": kw})
            else:
                raise HarnessError("configuration counterexample did not reproduce: %s" % r["call"])
        elif r["verdict"] == "inconclusive":
            ob.inconclusive(sl.name)
        else:
            raise HarnessError("crosshair failed on %s:\n%s" % (sl.name, r["raw"][-1000:]))


def replay_na_stream(na, data, step_offset, steps):
    from . import md_props as P

    bad = P.na_stream_violations(na, data, step_offset, steps)
    for b in bad:
        print("  ", b)
    return bool(bad)


@obligation(PID, "d", title="nonadiabatic stream, fresh and resumed runs: through the real integrator-step gate of the surface-hopping engine and the real writer, a run interrupted at any step and resumed holds the initial snapshot plus exactly the multiples of the nonadiabatic cadence with absolute labels and no unwritten rows")
def ob_d(ob):
    import seqm.MolecularDynamics as MD
    import seqm.NonadiabaticDynamics as ND

    ob.encodes(ND.NonadiabaticDynamicsBase._do_integrator_step, MD.HDF5Writer.append_nonadiabatic, MD.HDF5Writer.open, MD.HDF5Writer._open_resume, MD.HDF5Writer._create_new)
    ob.bound("run length 8; nonadiabatic cadence symbolic in [0,9], data cadence symbolic in [0,3], interruption step symbolic in [0,8] (0 = initialisation only)")
    ob.assume("electronic structure, coupling, amplitude propagation and hop logic of the step are no-ops (they do not touch the output gate); the step-0 snapshot is written the way initialize() writes it; h5py is the in-memory recorder")
    pre = "from harness import md_props as P, mdsim as M\nM.install(); M.make_molecule(1)\n"
    slices = []
    for name, sig, prec, body in (
        ("N_all", "na: int, off: int", "0 <= na <= 9 and 0 <= off <= 8", "return P.na_stream_violations(na, 1, off, 8) == []"),
        ("N_data", "na: int, data: int, off: int", "1 <= na <= 4 and 0 <= data <= 3 and 1 <= off <= 7", "return P.na_stream_violations(na, data, off, 8) == []"),
    ):
        sl = chrun.Slice(name, pre, sig, prec, body, "_", 400)
        slices.append(sl)
    tw = chrun.Slice("twin_na", pre, "na: int, off: int", "1 <= na <= 4 and 1 <= off <= 7", "return P.na_stream_violations(na, 1, off, 8) == [] and not (na == 3 and off == 5)", "_", 400)
    res = chrun.run_slices(slices + [tw], jobs=8)
    for sl, r in zip(slices + [tw], res):
        ob.paths += 1
        ob.ch_conditions += 1
        ob.ch_definite += r["verdict"] in ("confirmed", "counterexample")
        if sl.name == "twin_na":
            if r["verdict"] != "counterexample":
                raise HarnessError("twin_na: expected the planted counterexample, got %s" % r["verdict"])
            continue
        ob.sample({"slice": sl.name, "pre": sl.pre, "verdict": r["verdict"], "seconds": r["seconds"], "call": r.get("call")})
        if r["verdict"] == "confirmed":
            ob.discharged(sl.name)
        elif r["verdict"] == "counterexample":
            vals = chrun.parse_int_args(r["args"])
            kw = dict(na=vals[0], data=1, step_offset=vals[1], steps=8) if sl.name == "N_all" else dict(na=vals[0], data=vals[1], step_offset=vals[2], steps=8)
            print("counterexample from CrossHair:", r["call"])
            from . import md_props as P

            bad = P.na_stream_violations(**kw)
            if bad:
                ob.violation("nonadiabatic cadence %d, data cadence %d, interrupted at step %d: %s" % (kw["na"], kw["data"], kw["step_offset"], "; ".join(bad)[:300]), {"module": "harness.C11", "func": "replay_na_stream", "args": kw})
            else:
                raise HarnessError("nonadiabatic-stream counterexample did not reproduce: %s" % r["call"])
        elif r["verdict"] == "inconclusive":
            ob.inconclusive(sl.name)
        else:
            raise HarnessError("crosshair failed on %s:\n%s" % (sl.name, r["raw"][-1000:]))
