"""C01 — forces are the negative gradient of the energy (engine E1, partial: derivative formulas vs exact dual-number
derivatives of what the real energy code computes)."""
import types
from fractions import Fraction

from .common import *  # noqa: F401,F403
from .common import S, smt, z3, np, torch, SymTensor, symbolic_factories, Explorer, obligation, Dual, HarnessError, expect_refuted, expect_feasible, validate_close, molecule, quiet, single_point

PID = "C01"
Z0, Z1 = z3.RealVal(0), z3.RealVal(1)

PAIRS = [(6, 6), (8, 1), (6, 1), (7, 1), (7, 6), (7, 7), (8, 6), (8, 7), (8, 8), (9, 1), (16, 1), (1, 1), (17, 6)]


# ------------------------------------------------------------------------------------------------
# a: core_core_der == exact derivative of pair_nuclear_energy
# ------------------------------------------------------------------------------------------------


def replay_core_core_der(method, zi, zj):
    """float64: core_core_der vs central finite difference of the real pair_nuclear_energy (gamma held as a function of R)"""
    from seqm.seqm_functions.energy import pair_nuclear_energy
    from seqm.seqm_functions.anal_grad import core_core_der
    from seqm.seqm_functions.constants import Constants, a0

    const = Constants()
    ng = 2 if method == "PM3" else 4
    g = torch.Generator().manual_seed(zi * 100 + zj)
    alpha = torch.rand(2, generator=g) * 2 + 1
    K = torch.rand(2, ng, generator=g) - 0.5
    L = torch.rand(2, ng, generator=g) * 5 + 1
    M = torch.rand(2, ng, generator=g) * 2 + 0.5
    par = (alpha,) if method == "MNDO" else (alpha, K, L, M)
    gamf = lambda R: 14.0 / (R * R + 2.0) ** 0.5
    dgam = lambda R: -14.0 * R / (R * R + 2.0) ** 1.5
    Z = torch.tensor([zi, zj])
    ni, nj, idxi, idxj = torch.tensor([zi]), torch.tensor([zj]), torch.tensor([0]), torch.tensor([1])
    R = 1.37
    xdir = torch.tensor([[0.36, 0.48, 0.8]])

    def E(Rv):
        return pair_nuclear_energy(Z, const, 1, ni, nj, idxi, idxj, torch.tensor([Rv / a0]), None, None, None, None, gam=torch.tensor([gamf(Rv)]), method=method, parameters=par).item()

    h = 1e-5
    dEdR = (E(R + h) - E(R - h)) / (2 * h)
    # pair_grad is dE/dX_i = -dE/dR * xij ; w_x[...,0,0] = d gamma / d X_i = -dgam/dR * xij
    wx = torch.zeros(1, 3, 10, 10)
    wx[0, :, 0, 0] = -dgam(R) * xdir[0]
    mol = types.SimpleNamespace(ni=ni, nj=nj, idxi=idxi, idxj=idxj, xij=xdir, rij=torch.tensor([R / a0]), const=const)
    pg = core_core_der(mol, torch.tensor([gamf(R)]), wx, method, par)
    ref = -dEdR * xdir[0]
    d = (pg[0] - ref).abs().max().item()
    print("replay core_core_der %s Z=(%d,%d): max |analytic - finite difference| = %.3e (|dE/dR| = %.3e)" % (method, zi, zj, d, abs(dEdR)))
    return d > 1e-5 * max(1.0, abs(dEdR))


@obligation(PID, "a", title="core_core_der equals the exact derivative of the core-core energy actually computed by pair_nuclear_energy (MNDO/AM1/PM3, incl. N-H/O-H rule), all distances and parameters")
def ob_a(ob):
    from seqm.seqm_functions.energy import pair_nuclear_energy
    from seqm.seqm_functions.anal_grad import core_core_der
    from seqm.seqm_functions.constants import Constants, a0

    ob.encodes(pair_nuclear_energy, core_core_der)
    ob.bound("element pairs %s; pair axis along x, then a general (dyadic, not normalised: the routine is linear in the direction it is given) direction (0.5,-0.25,0.75); separation X>0, alpha, K/L/M, gamma=(ss|ss) and d gamma/dX symbolic reals; exp Ackermannised" % PAIRS)
    ob.assume("convention (established by probe and replay): pair_grad = dE/dX_i, w_x[...,0,0] = d gamma/dX_i")
    const = Constants()
    a0r = S.rv(a0)
    first = True
    pairs = PAIRS + ([(14, 1), (15, 8), (17, 11), (9, 5), (8, 4), (16, 16), (13, 7)] if ob.tier == "thorough" else [])
    for method in ("MNDO", "AM1", "PM3"):
        for direction in ((1, 0, 0), (Fraction(1, 2), Fraction(-1, 4), Fraction(3, 4))):
            for (zi, zj) in pairs:
                # one pair per symbolic run keeps the Ackermann congruence constraints small
                S.reset()
                npairs = 1
                Z = torch.tensor([zi, zj])
                idxi, idxj = torch.tensor([0]), torch.tensor([1])
                ni, nj = Z[idxi], Z[idxj]
                ng = 2 if method == "PM3" else 4
                X = [z3.Real("X0")]
                alpha = S.reals("al", (2,))
                K, L, M = S.reals("K", (2, ng)), S.reals("L", (2, ng)), S.reals("M", (2, ng))
                gam = S.reals("gam", (1,))
                dgam = S.reals("dgam", (1,))  # d gamma / d R (R in Angstrom)
                par = (SymTensor(alpha),) if method == "MNDO" else (SymTensor(alpha), SymTensor(K), SymTensor(L), SymTensor(M))
                S.ST.dual_n = 1
                try:
                    rij = SymTensor(np.array([Dual(X[0] / a0r, (1 / a0r,))], dtype=object))
                    gamD = SymTensor(np.array([Dual(gam[0], (dgam[0],))], dtype=object))
                    with symbolic_factories():
                        E = pair_nuclear_energy(Z, const, 1, ni, nj, idxi, idxj, rij, None, None, None, None, gam=gamD, method=method, parameters=par)
                    dEdR = [e.t[0] for e in E.a]
                finally:
                    S.ST.dual_n = 0
                dvec = [S.rv(float(c)) for c in direction]  # xij is stored as float64: use the same exact values
                xij = torch.tensor([[float(c) for c in direction]])
                wx = np.full((1, 3, 10, 10), z3.RealVal(0), dtype=object)
                for c in range(3):
                    wx[0, c, 0, 0] = -dgam[0] * dvec[c]
                mol = types.SimpleNamespace(ni=ni, nj=nj, idxi=idxi, idxj=idxj, xij=xij, rij=SymTensor(np.array([X[0] / a0r], dtype=object)), const=const)
                with symbolic_factories():
                    pg = core_core_der(mol, SymTensor(gam.copy()), SymTensor(wx), method, par)
                for c in range(3):
                    if direction == (1, 0, 0) and c > 0:
                        continue
                    lab = "a:%s Z=(%d,%d) dir=%s comp %d" % (method, zi, zj, "x" if direction == (1, 0, 0) else "general", c)
                    v, m = smt.prove(pg.a[0, c] == -dEdR[0] * dvec[c], [X[0] > 0], lab, "auto", 60)
                    if v == "sat":
                        if replay_core_core_der(method, zi, zj):
                            ob.violation("%s: core_core_der for the pair Z=(%d,%d) is not the derivative of the core-core energy" % (method, zi, zj), {"module": "harness.C01", "func": "replay_core_core_der", "args": {"method": method, "zi": zi, "zj": zj}})
                        else:
                            raise HarnessError("core_core_der counterexample did not reproduce: %s" % lab)
                        break
                    else:
                        ob.verdict(v, lab)
                if first and method == "AM1":
                    first = False
                    expect_refuted(ob, pg.a[0, 0] == dEdR[0] * dvec[0], [X[0] > 0], "sign of the derivative flipped")
                    ob.sample({"method": method, "pair": (zi, zj), "exp_terms": len(S.ST.exps)})


# ------------------------------------------------------------------------------------------------
# b: the multipole parameters handed to the derivative kernel are those handed to the energy kernel
# ------------------------------------------------------------------------------------------------


class _Captured(Exception):
    def __init__(self, args):
        self.args_ = args


_UF2 = {}


def _uf2(fname, x, y):
    """Ackermannised binary uninterpreted function"""
    xs, ys = z3.simplify(x), z3.simplify(y)
    key = (fname, xs.sexpr(), ys.sexpr())
    if key not in _UF2:
        v = S.fresh(fname)
        for (f2, _, _), (v2, x2, y2) in _UF2.items():
            if f2 == fname:
                S.ST.congr.append(z3.Implies(z3.And(x2 == xs, y2 == ys), v2 == v))
        _UF2[key] = (v, xs, ys)
    return _UF2[key][0]


def _uf_tensor(fname, a, b):
    aa, bb = np.broadcast_arrays(S.to_obj(a), S.to_obj(b))
    out = np.empty(aa.shape, dtype=object)
    for k in np.ndindex(aa.shape):
        out[k] = _uf2(fname, aa[k], bb[k])
    return SymTensor(out)


def replay_clamp(method="PM3"):
    """public API: analytical vs autograd force for CH3Cl (a shipped row with 0.5(g_pp-g_p2) < 0.1)"""
    sp = torch.tensor([[17, 6, 1, 1, 1]])
    xyz = torch.tensor([[[0.0, 0.3, 1.78], [0.0, 0.0, 0.0], [1.03, 0.1, -0.36], [-0.51, 0.89, -0.36], [-0.51, -0.89, -0.40]]])
    fa = single_point(sp, xyz, method)[0].force.detach().clone()
    fb = single_point(sp, xyz, method, analytical_gradient=[True])[0].force.detach().clone()
    d = (fa - fb).abs().max().item()
    print("replay %s CH3Cl: max |F_autograd - F_analytical| = %.3e eV/A" % (method, d))
    return d > 1e-4


@obligation(PID, "b", title="the multipole parameters (dd, qq, rho0, rho1, rho2) handed to the integral-derivative kernel are the ones handed to the energy kernel, for all Hamiltonian parameter values")
def ob_b(ob):
    import seqm.seqm_functions.two_elec_two_center_int as T
    import seqm.seqm_functions.anal_grad as AG
    from seqm.seqm_functions.constants import Constants

    ob.encodes(T.two_elec_two_center_int, AG.w_der)
    ob.bound("atoms [Cl-like heavy, C, H] (3 pairs: XX, XH, XH); g_ss, g_pp, g_p2, h_sp, zeta_s, zeta_p symbolic positive reals per atom")
    ob.assume("rho1/rho2 root solves and dd_qq are uninterpreted functions (same function object in both paths); `rotate` and `der_TETCILF` are argument recorders")
    const = Constants()
    Z = torch.tensor([17, 6, 1])
    idxi, idxj = torch.tensor([0, 0, 1]), torch.tensor([1, 2, 2])
    ni, nj = Z[idxi], Z[idxj]
    nat = 3
    par = {k: S.reals(k, (nat,)) for k in ("gss", "gpp", "gp2", "hsp", "zs", "zp")}
    pos = [v > 0 for k in par for v in par[k]]
    saved = (T.additive_term_rho1, T.additive_term_rho2, T.dd_qq, T.rotate, AG.additive_term_rho1, AG.additive_term_rho2, AG.dd_qq, AG.der_TETCILF)
    saved_poij = T.POIJ
    T.POIJ = lambda l, d, fg: _uf_tensor("poij%d" % l, d, fg)  # d-orbital additive terms: not used by sp methods
    rho1 = types.SimpleNamespace(apply=lambda a, b: _uf_tensor("rho1", a, b))
    rho2 = types.SimpleNamespace(apply=lambda a, b: _uf_tensor("rho2", a, b))

    def ddqq(qn, zs, zp):
        q = S.const(qn)
        return _uf_tensor("dd", _uf_tensor("pairqz", q, zs), zp), _uf_tensor("qq", q, zp)

    def rec_rotate(ni_, nj_, xij_, rij_, tore_, da, db, qa, qb, dpa, dpb, dsa, dsb, dda, ddb, rho0a, rho0b, rho1a, rho1b, rho2a, rho2b, *rest, **kw):
        raise _Captured(dict(da=da, db=db, qa=qa, qb=qb, rho0a=rho0a, rho0b=rho0b, rho1a=rho1a, rho1b=rho1b, rho2a=rho2a, rho2b=rho2b))

    def rec_der(w_x_final, ni_, nj_, xij_, Xij_, r0, da0, db0, qa0, qb0, rho0a, rho0b, rho1a, rho1b, rho2a, rho2b, riXH, ri):
        raise _Captured(dict(da=da0, db=db0, qa=qa0, qb=qb0, rho0a=rho0a, rho0b=rho0b, rho1a=rho1a, rho1b=rho1b, rho2a=rho2a, rho2b=rho2b))

    T.additive_term_rho1 = AG.additive_term_rho1 = rho1
    T.additive_term_rho2 = AG.additive_term_rho2 = rho2
    T.dd_qq = AG.dd_qq = ddqq
    T.rotate = rec_rotate
    AG.der_TETCILF = rec_der
    xij = torch.tensor([[1.0, 0, 0], [0.0, 1, 0], [0.6, 0.8, 0]])
    rij = torch.tensor([3.2, 2.0, 2.1])
    zer = SymTensor(np.full((nat,), z3.RealVal(0), dtype=object))
    try:
        def energy_side():
            try:
                with symbolic_factories():
                    T.two_elec_two_center_int(const, idxi, idxj, ni, nj, xij, rij, Z, SymTensor(par["zs"]), SymTensor(par["zp"]), zer, zer, zer, zer, SymTensor(par["gss"]), SymTensor(par["gpp"]), SymTensor(par["gp2"]), SymTensor(par["hsp"]), zer, zer, zer, None, None, "AM1")
            except _Captured as c:
                return {k: v.a.copy() for k, v in c.args_.items()}
            raise HarnessError("rotate() recorder not reached")

        def grad_side():
            try:
                with symbolic_factories():
                    AG.w_der(const, Z, const.tore, ni, nj, SymTensor(np.full((3, 3, 10, 10), z3.RealVal(0), dtype=object)), rij, xij, xij * rij.unsqueeze(1), idxi, idxj, SymTensor(par["gss"]), SymTensor(par["gpp"]), SymTensor(par["gp2"]), SymTensor(par["hsp"]), SymTensor(par["zs"]), SymTensor(par["zp"]), None, None)
            except _Captured as c:
                return {k: v.a.copy() for k, v in c.args_.items()}
            raise HarnessError("der_TETCILF() recorder not reached")

        # both under the same explorer state: the clamp is a min/max -> merged as ite
        S.ST.piecewise = "ite"
        A = energy_side()
        B = grad_side()
    finally:
        (T.additive_term_rho1, T.additive_term_rho2, T.dd_qq, T.rotate, AG.additive_term_rho1, AG.additive_term_rho2, AG.dd_qq, AG.der_TETCILF) = saved
        T.POIJ = saved_poij
    expect_feasible(ob, pos, "positive parameters")
    viol = False
    for k in sorted(A):
        for p in range(3):
            lab = "b:%s pair %d" % (k, p)
            v, m = smt.prove(A[k][p] == B[k][p], pos, lab, "auto", 60)
            if v == "sat":
                if not viol:
                    viol = True
                    gp, g2 = [float(smt.model_value(m, par[n][0 if k.endswith("a") else 1])) for n in ("gpp", "gp2")]
                    if replay_clamp("PM3"):
                        ob.violation("argument %s of the derivative kernel differs from the energy kernel's (witness g_pp=%g, g_p2=%g: 0.5(g_pp-g_p2) is clamped to >=0.1 for the energy but not for its derivative); PM3 CH3Cl analytical force differs from the autograd force" % (k, gp, g2), {"module": "harness.C01", "func": "replay_clamp", "args": {"method": "PM3"}})
                    else:
                        raise HarnessError("prologue mismatch %s did not reproduce as a force difference" % lab)
            else:
                ob.verdict(v, lab)
    ob.sample({"rho2a_energy": str(A["rho2a"][0])[:200], "rho2a_gradient": str(B["rho2a"][0])[:200]})


# ------------------------------------------------------------------------------------------------
# f: density contraction of the AO derivatives == exact derivative of the electronic energy expression
# ------------------------------------------------------------------------------------------------


def _layout(species, uhf):
    nmol, molsize = len(species), len(species[0])
    coords = [[[1.3 * a + 0.1 * b, 0.4 * a * a - 0.2 * b, 0.3 * a + 0.7 * b] for a in range(molsize)] for b in range(nmol)]
    tore = {0: 0, 1: 1, 6: 4, 7: 5, 8: 6, 9: 7}
    ch = torch.tensor([float(sum(tore[z] for z in row) % 2) for row in species])
    mol, p, const = molecule(species, coords, "AM1", charges=ch)
    return mol, const, nmol, molsize


def _phys(species):
    out = []
    for row in species:
        idx = []
        for a, z in enumerate(row):
            idx += [4 * a + k for k in range(4)] if z > 1 else ([4 * a] if z == 1 else [])
        out.append(idx)
    return out


def replay_contraction(species, uhf):
    """float64: grad from contract_ao_derivatives_with_density vs finite difference of the real (fock + elec_energy) along
    a synthetic one-parameter family H(t)=H+t H', w(t)=w+t w' built from random derivative blocks"""
    from seqm.seqm_functions.anal_grad import contract_ao_derivatives_with_density
    from seqm.seqm_functions.fock import fock
    from seqm.seqm_functions.fock_u_batch import fock_u_batch
    from seqm.seqm_functions.energy import elec_energy
    from seqm.seqm_functions.hcore import hcore

    mol, const, nmol, molsize = _layout(species, uhf)
    with quiet():
        M, w, *_ = hcore(mol)
    M, w = M.detach(), w.detach()
    pr = mol.parameters
    n = 4 * molsize
    phys = _phys(species)
    g = torch.Generator().manual_seed(9)
    npairs = mol.idxi.shape[0]

    def randP():
        P = torch.zeros(nmol, n, n)
        for b in range(nmol):
            A = torch.rand(len(phys[b]), len(phys[b]), generator=g)
            A = A + A.T
            for ii, i in enumerate(phys[b]):
                for jj, j in enumerate(phys[b]):
                    P[b, i, j] = A[ii, jj]
        return P

    P0 = torch.stack([randP(), randP()], dim=1) if uhf else randP()
    ovx = torch.rand(npairs, 3, 4, 4, generator=g) - 0.5
    e1bx = (torch.rand(npairs, 3, 4, 4, generator=g) - 0.5).triu()
    e2ax = (torch.rand(npairs, 3, 4, 4, generator=g) - 0.5).triu()
    wx = (torch.rand(npairs, 3, 10, 10, generator=g) - 0.5) * (w != 0).unsqueeze(1)
    # mask derivative blocks of orbitals that do not exist (H atoms have only s)
    for p in range(npairs):
        if int(mol.ni[p]) == 1:
            ovx[p, :, 1:, :] = 0
            e1bx[p, :, 1:, :] = 0
            e1bx[p, :, :, 1:] = 0
        if int(mol.nj[p]) == 1:
            ovx[p, :, :, 1:] = 0
            e2ax[p, :, 1:, :] = 0
            e2ax[p, :, :, 1:] = 0
    grad = contract_ao_derivatives_with_density(P0, mol, molsize, ovx.clone(), e1bx.clone(), e2ax.clone(), wx.clone(), torch.zeros(npairs, 3), mol.mask, mol.maskd, mol.idxi, mol.idxj)
    args = (mol.maskd, mol.mask, mol.idxi, mol.idxj)
    tail = (torch.tensor([0]), pr["g_ss"], pr["g_pp"], pr["g_sp"], pr["g_p2"], pr["h_sp"], "AM1", pr["s_orb_exp_tail"], pr["p_orb_exp_tail"], pr["d_orb_exp_tail"], mol.Z, pr["F0SD"], pr["G2SD"])
    real_atoms = torch.arange(nmol * molsize)[mol.species.reshape(-1) > 0]
    worst = 0.0
    for a in range(real_atoms.shape[0]):
        for d in range(3):
            def E(t):
                Mt, wt = M.clone(), w.clone()
                for p in range(npairs):
                    s = 1.0 if int(mol.idxi[p]) == a else (-1.0 if int(mol.idxj[p]) == a else 0.0)
                    if s == 0.0:
                        continue
                    Mt[mol.maskd[mol.idxi[p]]] += t * s * e1bx[p, d]
                    Mt[mol.maskd[mol.idxj[p]]] += t * s * e2ax[p, d]
                    Mt[mol.mask[p]] += t * s * ovx[p, d] / 2
                    wt[p] += t * s * wx[p, d]
                if uhf:
                    F = fock_u_batch(nmol, molsize, P0, Mt, *args, wt, *tail)
                else:
                    F = fock(nmol, molsize, P0.clone(), Mt, *args, wt, *tail)
                Hc = Mt.reshape(nmol, molsize, molsize, 4, 4).transpose(2, 3).reshape(nmol, n, n)
                return elec_energy(P0, F, Hc).sum().item()

            h = 1e-4
            fd = (E(h) - E(-h)) / (2 * h)
            got = grad.reshape(-1, 3)[real_atoms[a], d].item()
            worst = max(worst, abs(fd - got))
    print("replay contraction species=%s %s: max |grad - d E_elec/dt| = %.3e" % (species, "UHF" if uhf else "RHF", worst))
    return worst > 1e-6


def _check_contraction(ob, species, uhf):
    from seqm.seqm_functions.anal_grad import contract_ao_derivatives_with_density
    from seqm.seqm_functions.fock import fock
    from seqm.seqm_functions.fock_u_batch import fock_u_batch
    from seqm.seqm_functions.energy import elec_energy
    from seqm.seqm_functions.hcore import hcore
    from .C06 import _sym_density, _sym_hcore_blocks

    S.reset()
    mol, const, nmol, molsize = _layout(species, uhf)
    with quiet():
        Mr, wr, *_ = hcore(mol)
    n = 4 * molsize
    phys = _phys(species)
    npairs = mol.idxi.shape[0]
    natoms = mol.Z.shape[0]
    # symbolic values: w, H, one-centre parameters, density
    w = np.full((npairs, 10, 10), Z0, dtype=object)
    wx = np.full((npairs, 3, 10, 10), Z0, dtype=object)
    ovx = np.full((npairs, 3, 4, 4), Z0, dtype=object)
    e1bx = np.full((npairs, 3, 4, 4), Z0, dtype=object)
    e2ax = np.full((npairs, 3, 4, 4), Z0, dtype=object)
    for p in range(npairs):
        na = 4 if int(mol.ni[p]) > 1 else 1
        nb = 4 if int(mol.nj[p]) > 1 else 1
        for k in range(10 if na == 4 else 1):
            for l in range(10 if nb == 4 else 1):
                w[p, k, l] = z3.Real("w%d_%d_%d" % (p, k, l))
                for d in range(3):
                    wx[p, d, k, l] = z3.Real("wx%d_%d_%d_%d" % (p, d, k, l))
        for d in range(3):
            for mu in range(na):
                for la in range(nb):
                    ovx[p, d, mu, la] = z3.Real("ov%d_%d_%d_%d" % (p, d, mu, la))
            for mu in range(na):
                for nu in range(mu, na):
                    e1bx[p, d, mu, nu] = z3.Real("e1b%d_%d_%d_%d" % (p, d, mu, nu))
            for mu in range(nb):
                for nu in range(mu, nb):
                    e2ax[p, d, mu, nu] = z3.Real("e2a%d_%d_%d_%d" % (p, d, mu, nu))
    g = {k: S.reals(k, (natoms,)) for k in ("gss", "gpp", "gsp", "gp2", "hsp")}
    Hfull, M = _sym_hcore_blocks(nmol, molsize, phys)
    if uhf:
        Pa, Pb = _sym_density("Pa", nmol, n, phys), _sym_density("Pb", nmol, n, phys)
        P0 = np.stack([Pa, Pb], axis=1)
    else:
        P0 = _sym_density("P", nmol, n, phys)
    with symbolic_factories():
        grad = contract_ao_derivatives_with_density(SymTensor(P0.copy()), mol, molsize, SymTensor(ovx.copy()), SymTensor(e1bx.copy()), SymTensor(e2ax.copy()), SymTensor(wx.copy()), SymTensor(np.full((npairs, 3), Z0, dtype=object)), mol.mask, mol.maskd, mol.idxi, mol.idxj)
    grad = grad.a.reshape(-1, 3)
    real_atoms = torch.arange(nmol * molsize)[mol.species.reshape(-1) > 0].tolist()
    maskd, mask = mol.maskd.tolist(), mol.mask.tolist()
    nbad = 0
    for a in range(natoms):
        for d in range(3):
            # dual inputs: tangent = d/dX_{a,d}
            Mt = np.empty(M.shape, dtype=object)
            for k in np.ndindex(M.shape):
                Mt[k] = Z0
            wt = np.empty(w.shape, dtype=object)
            for k in np.ndindex(w.shape):
                wt[k] = Z0
            for p in range(npairs):
                s = 1 if int(mol.idxi[p]) == a else (-1 if int(mol.idxj[p]) == a else 0)
                if s == 0:
                    continue
                bi, bj, bo = maskd[int(mol.idxi[p])], maskd[int(mol.idxj[p])], mask[p]
                for mu in range(4):
                    for nu in range(4):
                        Mt[bi, mu, nu] = Mt[bi, mu, nu] + s * e1bx[p, d, mu, nu]
                        Mt[bj, mu, nu] = Mt[bj, mu, nu] + s * e2ax[p, d, mu, nu]
                        Mt[bo, mu, nu] = Mt[bo, mu, nu] + s * ovx[p, d, mu, nu] / 2
                wt[p] = wt[p] + s * wx[p, d]
            S.ST.dual_n = 1
            try:
                mk = np.frompyfunc(lambda v, t: Dual(v, (t,)), 2, 1)
                MD, wD = SymTensor(mk(M, Mt)), SymTensor(mk(w, wt))
                targs = (mol.maskd, mol.mask, mol.idxi, mol.idxj, wD, torch.tensor([0]), SymTensor(g["gss"]), SymTensor(g["gpp"]), SymTensor(g["gsp"]), SymTensor(g["gp2"]), SymTensor(g["hsp"]), "AM1", None, None, None, mol.Z, None, None)
                with symbolic_factories():
                    if uhf:
                        F = fock_u_batch(nmol, molsize, SymTensor(P0.copy()), MD, *targs)
                    else:
                        F = fock(nmol, molsize, SymTensor(P0.copy()), MD, *targs)
                    Hc = MD.reshape(nmol, molsize, molsize, 4, 4).transpose(2, 3).reshape(nmol, n, n)
                    E = elec_energy(SymTensor(P0.copy()), F, Hc)
                dE = sum(e.t[0] for e in E.a)
            finally:
                S.ST.dual_n = 0
            lab = "f:%s %s atom %d dir %d" % (species, "UHF" if uhf else "RHF", a, d)
            v, m = smt.prove(grad[real_atoms[a], d] == dE, [], lab, "auto", 120)
            if v == "sat":
                nbad += 1
                if nbad == 1:
                    if replay_contraction(species, uhf):
                        ob.violation("gradient contraction for atom %d direction %d (%s, %s) is not the derivative of the electronic energy expression with respect to the integral derivatives" % (a, d, species, "UHF" if uhf else "RHF"), {"module": "harness.C01", "func": "replay_contraction", "args": {"species": species, "uhf": uhf}})
                    else:
                        raise HarnessError("contraction counterexample did not reproduce: %s" % lab)
            else:
                ob.verdict(v, lab)
    # padding atoms: literal zero gradient rows
    for row in range(nmol * molsize):
        if row not in real_atoms:
            for d in range(3):
                s_ = z3.simplify(grad[row, d])
                if z3.is_rational_value(s_) and s_.numerator_as_long() == 0:
                    ob.discharged("f:padding row %d" % row)
                else:
                    ob.violation("padding atom row %d receives a non-zero gradient term %s" % (row, str(s_)[:80]), {"module": "harness.C01", "func": "replay_contraction", "args": {"species": species, "uhf": uhf}})
    return grad


@obligation(PID, "f", title="contract_ao_derivatives_with_density equals the exact derivative of the electronic energy computed by the real fock/elec_energy code w.r.t. each atom's coordinates (RHF and UHF, padded batch); padding rows are literal zeros")
def ob_f(ob):
    from seqm.seqm_functions.anal_grad import contract_ao_derivatives_with_density
    from seqm.seqm_functions.fock import fock
    from seqm.seqm_functions.fock_u_batch import fock_u_batch
    from seqm.seqm_functions.energy import elec_energy

    ob.encodes(contract_ao_derivatives_with_density, fock, fock_u_batch, elec_energy)
    ob.bound("molecules [O,C,H] (RHF), padded batch [[O,H,H],[H,H,pad]] (RHF and UHF with independent alpha/beta densities); derivative blocks of overlap*beta, core-electron and two-electron integrals, the integrals themselves, H, one-centre parameters and the density are free symbolic reals; Hellmann-Feynman (density held fixed)")
    ob.assume("hcore assembly convention: M[diag block of i] += e1b, M[diag block of j] += e2a, M[off-diagonal block] = overlap*(beta_i+beta_j)/2; overlap_KAB_x carries (beta_i+beta_j) S'")
    cases = [([[8, 6, 1]], False), ([[8, 1, 1], [1, 1, 0]], False), ([[8, 1, 1], [1, 1, 0]], True)]
    if ob.tier == "thorough":
        cases.append(([[8, 6, 1]], True))
    for species, uhf in cases:
        grad = _check_contraction(ob, species, uhf)
    ob.sample({"grad_term": str(z3.simplify(grad[0, 0]))[:300]})


# ---- shared obligation: the autodiff force of an excited state is -d/dx of the energy this expression returns, so it equals the reported Etot's derivative only if the expression is the response-matrix quadratic form ----
@obligation(PID, "g", title='[shared with C16.c] excitation energy re-evaluated for the total energy: CIS w = X.AX, RPA w = X.(AX+BY) + Y.(BX+AY) (the quadratic form of the response matrix), for arbitrary amplitudes and sigma vectors')
def ob_g_shared(ob):
    """the autodiff force of an excited state is -d/dx of the energy this expression returns, so it equals the reported Etot's derivative only if the expression is the response-matrix quadratic form"""
    from . import C16 as _m  # imported lazily: the harness modules share obligations in both directions

    ob.note("this obligation is the one registered as C16.c; it is also decided here because the autodiff force of an excited state is -d/dx of the energy this expression returns, so it equals the reported Etot's derivative only if the expression is the response-matrix quadratic form")
    _m.ob_c(ob)


def replay_force_branches():
    """public API, water/AM1: the force returned with '2nd_grad' and with the default settings must both equal the central
    finite difference of Hf"""
    from .common import single_point, quiet

    sp = torch.tensor([[8, 1, 1]])
    xyz = torch.tensor([[[0.03, 0.02, 0.01], [0.96, 0.13, 0.07], [-0.21, 0.91, 0.23]]])
    h = 1e-4
    worst = 0.0
    for kw in ({}, {"2nd_grad": True}):
        m, es = single_point(sp, xyz, "AM1", **kw)
        f = m.force[0, 1, 0].item()
        xp, xm = xyz.clone(), xyz.clone()
        xp[0, 1, 0] += h
        xm[0, 1, 0] -= h
        fd = -(single_point(sp, xp, "AM1")[0].Hf.item() - single_point(sp, xm, "AM1")[0].Hf.item()) / (2 * h)
        print("replay Force.forward %s: force %.6f vs -dHf/dx by finite difference %.6f" % (kw or "default", f, fd))
        worst = max(worst, abs(f - fd))
    return worst > 1e-3


def replay_force_repeat(second_grad):
    """public API, water/AM1: evaluate, displace the atoms in place, evaluate the SAME Molecule again; the second force must
    equal the force of a fresh Molecule at the displaced geometry"""
    from seqm.Molecule import Molecule
    from seqm.ElectronicStructure import Electronic_Structure
    from seqm.seqm_functions.constants import Constants
    from .common import quiet

    sp = torch.tensor([[8, 1, 1]])
    xyz = torch.tensor([[[0.03, 0.02, 0.01], [0.96, 0.13, 0.07], [-0.21, 0.91, 0.23]]])
    par = {"method": "AM1", "scf_eps": 1e-9, "scf_converger": [1], "sp2": [False]}
    if second_grad:
        par["2nd_grad"] = True
    with quiet():
        m = Molecule(Constants(), par, xyz.clone(), sp)  # (Molecule records the element list in the dictionary)
        m.verbose = False
        es = Electronic_Structure(par)
        es(m)
        with torch.no_grad():
            m.coordinates.add_(torch.tensor([[[0.02, -0.01, 0.0], [0.0, 0.03, -0.02], [0.01, 0.0, 0.02]]]))
        es(m)
        f2 = m.force.detach().clone()
        m3 = Molecule(Constants(), par, m.coordinates.detach().clone(), sp)
        m3.verbose = False
        Electronic_Structure(par)(m3)
    d = (f2 - m3.force.detach()).abs().max().item()
    print("replay repeated force evaluation ('2nd_grad'=%s): second evaluation on the same Molecule vs a fresh one: max difference %.3e eV/A" % (second_grad, d))
    return d > 1e-5


@obligation(PID, "h", title="Force.forward hands back minus the gradient in every branch: back-propagated (default and with '2nd_grad', where the graph is kept) and analytical — for arbitrary gradient values — and leaves the gradient buffer of the coordinates empty, so that a repeated evaluation on the same Molecule does not accumulate")
def ob_h(ob):
    import types
    from seqm.basics import Force

    ob.encodes(Force.forward)
    ob.bound("1 molecule x 2 atoms; the gradient deposited by backward() and the analytical gradient symbolic reals; branches: create_graph in {False, True} x analytical in {False, True}")
    ob.assume("Energy and autograd are recorders: Hf.sum().backward() deposits a symbolic gradient in coordinates.grad")
    G = S.reals("g", (1, 2, 3))
    A = S.reals("ag", (1, 2, 3))
    for create_graph in (False, True):
        for analytical in (False, True):
            X = SymTensor(S.reals("x", (1, 2, 3)))

            class _L:
                def backward(self_, retain_graph=False):
                    X.grad = SymTensor(G.copy())

            class _Hf(SymTensor):
                def sum(self_, *a, **k):
                    return _L()

            Hf = _Hf(np.array([z3.Real("Hf")], dtype=object))
            z = lambda n: SymTensor(np.array([z3.Real(n)], dtype=object))
            mol = types.SimpleNamespace(active_state=0, nmol=1, coordinates=X, const=types.SimpleNamespace(do_timing=False), analytical_gradient=SymTensor(A.copy()))
            me = types.SimpleNamespace(seqm_parameters={"analytical_gradient": [analytical]}, create_graph=create_graph, eig=False, uhf=False, energy=lambda m_, **k: (Hf, z("Et"), z("Ee"), z("En"), z("Ei"), None, z("gap"), z("e"), z("D"), z("q"), torch.tensor([False])))
            with symbolic_factories():
                out = Force.forward(me, mol)
            F = out[0]
            want = A if analytical else G
            ob.require(isinstance(F, SymTensor) and F.a.shape == want.shape, "unexpected force returned in branch create_graph=%s analytical=%s" % (create_graph, analytical))
            lab = "h:create_graph=%s analytical=%s" % (create_graph, analytical)
            v, m = smt.prove(z3.And(*[F.a[k] == -want[k] for k in np.ndindex(want.shape)]), [], lab, "lra", 20)
            if v == "sat":
                if replay_force_branches():
                    ob.violation("Force.forward does not return minus the gradient in the branch create_graph('2nd_grad')=%s, analytical=%s" % (create_graph, analytical), {"module": "harness.C01", "func": "replay_force_branches", "args": {}})
                    return
                raise HarnessError("force-branch counterexample did not reproduce (%s)" % lab)
            ob.verdict(v, lab)
            if not analytical:
                # the gradient buffer must be left empty: autograd accumulates into coordinates.grad, so anything left behind
                # is added to the next evaluation of the same Molecule (optimiser, MD loop, Hessian driver)
                left = X.grad
                lab2 = "h:create_graph=%s gradient buffer cleared after the evaluation" % create_graph
                cleared = left is None or (isinstance(left, SymTensor) and smt.prove(z3.And(*[left.a[k] == 0 for k in np.ndindex(left.a.shape)]), [], lab2, "lra", 20)[0] == "unsat") or (torch.is_tensor(left) and not isinstance(left, SymTensor) and float(left.abs().max()) == 0.0)
                if not cleared:
                    if replay_force_repeat(create_graph):
                        ob.violation("Force.forward leaves the gradient in coordinates.grad (branch '2nd_grad'=%s): the next evaluation on the same Molecule returns the sum of the old and the new gradient" % create_graph, {"module": "harness.C01", "func": "replay_force_repeat", "args": {"second_grad": create_graph}})
                        return
                    raise HarnessError("stale gradient buffer did not reproduce (%s)" % lab2)
                ob.discharged(lab2)
    x = z3.Real("x")
    expect_refuted(ob, x == -x, [], "twin: a dropped minus sign is noticed", "lra")


# ------------------------------------------------------------------------------------------------------------------------
# c: the hand-coded derivative kernel of the two-centre integrals (der_TETCILF, ~900 lines) vs the exact derivative of the
#    integrals the energy path computes (two_elec_two_center_int_local_frame + w_withquaternion)
# ------------------------------------------------------------------------------------------------------------------------
_TET_NAMES = ["da", "db", "qa", "qb", "r0a", "r0b", "r1a", "r1b", "r2a", "r2b"]
_TET_DIRS = {"generic": ("2/7", "3/7", "6/7"), "z": ("0", "0", "1"), "xz": ("3/5", "0", "-4/5")}


def _tet_pair(kind):
    return (torch.tensor([1 if kind == "HH" else 8]), torch.tensor([1 if kind != "XX" else 6]))


def _tet_symbolic(kind, direction):
    """symbolic run of the real derivative kernel and dual-number run of the real integral + rotation code for one pair with
    bond direction `direction` (rational unit vector), distance r and all multipole parameters symbolic.
    returns (got[c][k], want[c][k], assumptions) as z3 terms; k runs over the elements of the w block of this pair class"""
    from fractions import Fraction
    from seqm.seqm_functions.two_elec_two_center_int_local_frame import two_elec_two_center_int_local_frame as TETCILF
    from seqm.seqm_functions.two_elec_two_center_int import w_withquaternion
    from seqm.seqm_functions.anal_grad import der_TETCILF
    from seqm.seqm_functions.constants import Constants, a0, ev

    ni, nj = _tet_pair(kind)
    tore = Constants().tore
    S.reset()
    S.ST.sqrt_mode = "canon"
    r, EVs, A0 = z3.Reals("r EV A0")
    # the unit constants enter as symbols: the code forms ev/a0/a0 in floating point, which is not exactly ev/a0^2
    for k_, t_ in ((ev, EVs), (ev / 2.0, EVs / 2), (ev / 4.0, EVs / 4), (ev / 8.0, EVs / 8), (ev / 16.0, EVs / 16), (a0, A0), (ev / a0 / a0, EVs / (A0 * A0)), (ev / a0, EVs / A0)):
        S.FLOAT_ALIAS[k_] = t_
    try:
        v = [Fraction(x) for x in _TET_DIRS[direction]]
        P = {n: z3.Real(n) for n in _TET_NAMES}
        assm = [r > 0, EVs > 0, A0 > 0] + [P[n] > 0 for n in _TET_NAMES]
        par = lambda n: SymTensor(np.array([P[n]], dtype=object))
        pars = [par(n) for n in _TET_NAMES]
        r0 = SymTensor(np.array([r], dtype=object))
        xij = SymTensor(np.array([[S.rv(x) for x in v]], dtype=object))
        Xt = SymTensor(np.array([[r * A0 * S.rv(x) for x in v]], dtype=object))
        with symbolic_factories():
            wHH, riXH, ri, _, _, _ = TETCILF(ni, nj, r0, tore, *pars, "AM1")
            wx = torch.zeros(1, 3, 10, 10, dtype=torch.float64)
            der_TETCILF(wx, ni, nj, xij, Xt, r0, *pars, riXH, ri)
        S.ST.dual_n = 3
        try:
            r0d = SymTensor(np.array([Dual(r, tuple(S.rv(v[k]) / A0 for k in range(3)))], dtype=object))
            xijd = SymTensor(np.array([[Dual(S.rv(v[c]), tuple(S.rv((1 if k == c else 0) - v[c] * v[k]) / (r * A0) for k in range(3))) for c in range(3)]], dtype=object))
            with symbolic_factories():
                wHHd, riXHd, rid, _, _, _ = TETCILF(ni, nj, r0d, tore, *pars, "AM1")
                _, _, wXH, w = w_withquaternion(None, tore, ni, nj, xijd, riXHd, rid, wHHd)
        finally:
            S.ST.dual_n = 0
    finally:
        S.FLOAT_ALIAS.clear()
    W = {"HH": wHHd, "XH": wXH, "XX": w}[kind].a.reshape(-1)
    n = W.size
    got = [[None] * n for _ in range(3)]
    want = [[None] * n for _ in range(3)]
    for k in range(n):
        for c in range(3):
            want[c][k] = W[k].t[c] if isinstance(W[k], Dual) else z3.RealVal(0)
            got[c][k] = wx.a[0, c, 0, 0] if kind == "HH" else (wx.a[0, c, k, 0] if kind == "XH" else wx.a[0, c, k // 10, k % 10])
    return got, want, assm, (r, EVs, A0, P)


def _tet_chunk(args):
    """worker: decide the elements k in `ks` of one pair class / direction; returns [(k, c, status, detail)]"""
    kind, direction, ks = args
    from engine import radical
    import traceback

    try:
        return _tet_chunk_inner(kind, direction, ks, radical)
    except BaseException as ex:  # noqa: results must stay picklable
        return [(-1, -1, "error", "%s: %s\n%s" % (type(ex).__name__, ex, traceback.format_exc()[-1500:]))], {}, 0.0


def _tet_chunk_inner(kind, direction, ks, radical):
    import signal
    from fractions import Fraction

    got, want, assm, syms = _tet_symbolic(kind, direction)
    r, EVs, A0, P = syms
    side = list(S.ST.side)
    # a numeric probe point (floats that are exact dyadic-ish rationals so that the solver can be given the same point)
    pt = {"r": 1.75, "EV": 27.25, "A0": 0.53125}
    pt.update({n: 0.5 + 0.0625 * (i + 1) for i, n in enumerate(_TET_NAMES)})
    fe = S.FEval(pt)
    fix = [z3.Real(k) == z3.RealVal(Fraction(v)) for k, v in pt.items()]

    class _Budget(Exception):
        pass

    def _alarm(*a):
        raise _Budget()

    signal.signal(signal.SIGALRM, _alarm)
    out = []
    for k in ks:
        for c in range(3):
            lab = "c:%s %s w[%d] d/dX_%d" % (kind, direction, k, c)
            # (1) cheap probe: if the identity already fails numerically at the probe point, let the solver confirm that
            #     point and skip the (then very large) normal form
            g, w_ = fe(got[c][k]), fe(want[c][k])
            if abs(g + w_) > 1e-9 * (abs(g) + abs(w_)) + 1e-9:  # values are O(0.01..10) eV/A; 1e-9 absolute guards exact zeros
                v, m = smt.check(assm + side + fix + [got[c][k] + want[c][k] != 0], lab + " at the probe point", "nra", 30)
                out.append((k, c, "sat", {"probe": pt, "kernel": g, "exact derivative": -w_, "solver at the probe point": v}))
                return out, dict(smt.STATS.n), smt.STATS.solver_s
            # (2) normal form multilinear in the square roots; the solver decides the coefficient polynomials
            signal.alarm(90)
            try:
                # sign convention: the kernel returns d w / d X_i (X_ij = X_j - X_i), the dual run differentiates w.r.t. X_ij
                coefs, bundle = radical.coefficients(got[c][k] + want[c][k])
                dev = radical.validate(bundle, ntries=1, seed=k * 3 + c)
                if dev > 1e-12:
                    out.append((k, c, "translator", "normal form deviates from the expanded numerator by %.2e" % dev))
                    continue
                status, detail = "ok", len(coefs)
                for clab, cz in coefs:
                    v, m = smt.prove(cz == 0, assm, lab + " coefficient of %s" % clab, "nra", 30)
                    if v == "sat":
                        status, detail = "sat", {str(d): str(m[d]) for d in m.decls()}
                        break
                    if v != "unsat":
                        status, detail = "unknown", clab
                        break
            except _Budget:
                status, detail = "unknown", "normal form not finished in 90 s"
            finally:
                signal.alarm(0)
            out.append((k, c, status, detail))
            if status == "sat":
                return out, dict(smt.STATS.n), smt.STATS.solver_s
    return out, dict(smt.STATS.n), smt.STATS.solver_s


def replay_w_derivative(kind, direction, r=2.3):
    """float64, real code: der_TETCILF vs central finite differences of the w block computed by the integral + rotation code"""
    from fractions import Fraction
    from seqm.seqm_functions.two_elec_two_center_int_local_frame import two_elec_two_center_int_local_frame as TETCILF
    from seqm.seqm_functions.two_elec_two_center_int import w_withquaternion
    from seqm.seqm_functions.anal_grad import der_TETCILF
    from seqm.seqm_functions.constants import Constants, a0

    ni, nj = _tet_pair(kind)
    tore = Constants().tore
    v = torch.tensor([float(Fraction(x)) for x in _TET_DIRS[direction]], dtype=torch.float64)
    pars = [torch.tensor([x], dtype=torch.float64) for x in (0.75, 0.66, 0.6, 0.5, 0.8, 0.875, 0.71, 0.6, 0.67, 0.625)]

    def wblock(X):
        dist = X.norm()
        r0 = (dist / a0).reshape(1)
        xij = (X / dist).reshape(1, 3)
        wHH, riXH, ri, _, _, _ = TETCILF(ni, nj, r0, tore, *pars, "AM1")
        _, _, wXH, w = w_withquaternion(None, tore, ni, nj, xij, riXH, ri, wHH)
        return {"HH": wHH, "XH": wXH, "XX": w}[kind].reshape(-1), r0, xij, riXH, ri

    X0 = v * r * a0
    w0, r0, xij, riXH, ri = wblock(X0)
    wx = torch.zeros(1, 3, 10, 10, dtype=torch.float64)
    der_TETCILF(wx, ni, nj, xij, X0.reshape(1, 3), r0, *pars, riXH, ri)
    h = 1e-6
    worst = 0.0
    for c in range(3):
        e = torch.zeros(3, dtype=torch.float64)
        e[c] = h
        fd = (wblock(X0 + e)[0] - wblock(X0 - e)[0]) / (2 * h)
        got = wx[0, c, 0, 0].reshape(1) if kind == "HH" else (wx[0, c, :, 0] if kind == "XH" else wx[0, c].reshape(-1))
        worst = max(worst, (got + fd).abs().max().item())
    print("replay der_TETCILF (%s pair, direction %s, r = %.2f bohr): max |kernel + finite-difference d w/d X_ij| = %.3e" % (kind, direction, r, worst))
    return worst > 1e-6


@obligation(PID, "c", title="the hand-coded derivative kernel of the two-centre two-electron integrals (der_TETCILF: local-frame derivatives and rotation derivative) equals the exact derivative of the integral block that the energy path computes, element by element, for every distance and every value of the multipole parameters (H-H, heavy-H and heavy-heavy pairs)")
def ob_c(ob):
    import multiprocessing as mp
    from seqm.seqm_functions import anal_grad as AG
    from seqm.seqm_functions.two_elec_two_center_int_local_frame import two_elec_two_center_int_local_frame as TETCILF
    from seqm.seqm_functions.two_elec_two_center_int import w_withquaternion

    ob.encodes(AG.der_TETCILF, TETCILF, w_withquaternion)
    thorough = ob.tier == "thorough"
    dirs = ["generic", "z", "xz"] if thorough else ["generic"]
    ob.bound("one pair per class (H-H: 1 element, O-H: 10, O-C: 100 elements of the w block) x 3 Cartesian directions; bond direction a rational unit vector (%s); distance r > 0, the ten multipole parameters (dipole/quadrupole separations, additive terms) and the unit constants ev, a0 symbolic; quick tier: every 4th element of the heavy-heavy block, thorough: all elements and three bond directions" % ", ".join("%s=%s" % (d, _TET_DIRS[d]) for d in dirs))
    ob.assume("oracle = forward-mode dual numbers through the real integral and rotation code (no finite differences)", "identities contain up to 35 independent square roots, on which nlsat does not terminate (probed: unknown at 60 s already with all parameters concrete): each identity is first brought to a normal form multilinear in the roots by sympy (common denominator, s^2 -> radicand; engine/radical.py, validated numerically per element), and the coefficient polynomials of that normal form are what the SMT solver decides; for the unchanged code every coefficient is identically zero after normalisation, so the solver's part is non-trivial only when the kernel is wrong (it then yields the counterexample point)")
    jobs = []
    for d in dirs:
        jobs.append(("HH", d, [0]))
        jobs.append(("XH", d, list(range(10))))
        ks = list(range(100)) if thorough else list(range(0, 100, 4))
        nchunk = 12
        for i in range(nchunk):
            part = ks[i::nchunk]
            if part:
                jobs.append(("XX", d, part))
    results = [None] * len(jobs)
    with mp.get_context("fork").Pool(min(14, len(jobs))) as pool:
        pending = [pool.apply_async(_tet_chunk, (j,)) for j in jobs]
        import time as _time

        while any(r is None for r in results):
            for i, p in enumerate(pending):
                if results[i] is None and p.ready():
                    results[i] = p.get()
            if any(r is not None and any(x[2] == "sat" for x in r[0]) for r in results):
                pool.terminate()  # one counterexample is enough: the remaining (then very slow) elements are not needed
                break
            _time.sleep(0.5)
    results = [r if r is not None else ([], {}, 0.0) for r in results]
    for (kind, d, ks), (res, qn, qs) in zip(jobs, results):
        for k_, n_ in qn.items():
            smt.STATS.n[k_] = smt.STATS.n.get(k_, 0) + n_
        smt.STATS.solver_s += qs
        for k, c, status, detail in res:
            lab = "c:%s pair, direction %s, w[%d] d/dX_%d" % (kind, d, k, c)
            if status == "ok":
                ob.discharged(lab)
            elif status == "unknown":
                ob.inconclusive(lab + " (coefficient %s)" % detail)
            elif status == "error":
                raise HarnessError("worker failed for %s pair, direction %s: %s" % (kind, d, detail))
            elif status == "translator":
                raise HarnessError("radical normal form failed its validation for %s: %s" % (lab, detail))
            else:
                if replay_w_derivative(kind, d):
                    ob.violation("der_TETCILF is not the derivative of the two-centre integral block for a %s pair (element %d, Cartesian direction %d, bond direction %s): analytical forces are not the gradient of the energy" % (kind, k, c, d), {"module": "harness.C01", "func": "replay_w_derivative", "args": {"kind": kind, "direction": d}})
                    return
                raise HarnessError("derivative-kernel counterexample did not reproduce (%s): %s" % (lab, detail))
    x, y = z3.Reals("x y")
    expect_refuted(ob, x * y == 0, [x > 0, y > 0], "twin: a non-zero coefficient polynomial is refuted", "nra")
