"""In-memory environment for the real MD run loop / writers / checkpointing (engine E2 and concrete replays).

The real `Molecular_Dynamics_*.run`, `initialize`, `one_step`, `HDF5Writer.*`, `XYZWriter.write/flush/close`,
`save_checkpoint`, `_build_checkpoint_base`, `_atomic_save_checkpoint`, `run_from_checkpoint`,
`_load_checkpoint_base` execute unmodified.  Replaced *in this process only*:
  h5py            -> FakeH5 (datasets log (dataset,row)->value into a buffer; flush() moves buffer -> durable)
  XYZWriter.open  -> FakeXYZ file objects with the same buffered/durable split
  esdriver        -> FakeES: analytic force field, energies that identify the state
  tempfile/os.replace/torch.save/torch.load inside MolecularDynamics -> in-memory file system with crash points
A hard kill loses every buffered (unflushed) row/frame; an exception lets `finally` blocks run.
"""
import copy
import io
import contextlib
import types

import numpy as np
import torch

torch.set_default_dtype(torch.float64)

import seqm.MolecularDynamics as MD  # noqa: E402


def untraced(fn):
    """run fn with CrossHair's opcode tracing suspended (only for code that never sees a symbolic value:
    pure tensor arithmetic on concrete tensors).  No-op outside CrossHair."""
    try:
        from crosshair.tracers import NoTracing, is_tracing
    except Exception:  # crosshair not installed in this interpreter
        return fn
    import functools

    @functools.wraps(fn)
    def w(*a, **k):
        if is_tracing():
            with NoTracing():
                return fn(*a, **k)
        return fn(*a, **k)

    return w


def install():
    if _INSTALLED:
        return
    import os as _os
    import importlib

    _Mol = importlib.import_module("seqm.Molecule")  # (seqm.Molecule attribute of the package is the class)
    B, L = MD.Molecular_Dynamics_Basic, MD.Molecular_Dynamics_Langevin
    _INSTALLED["saved"] = [
        (MD, "h5py", MD.h5py), (MD, "_rotate_existing", MD._rotate_existing), (MD, "open", getattr(MD, "open", open)),
        (MD, "esdriver", MD.esdriver), (MD, "tempfile", MD.tempfile), (MD, "os", MD.os), (MD, "torch", MD.torch),
        (B, "_output_to_screen", B._output_to_screen), (_Mol, "Molecule", _Mol.Molecule), (FakeES, "forward", FakeES.forward),
    ]
    MD.h5py = types.SimpleNamespace(File=FakeFile)
    MD._rotate_existing = _fake_rotate
    MD.open = _fake_open  # the real XYZWriter.open (incl. its resume logic) runs over the in-memory text files
    MD.esdriver = FakeES
    MD.tempfile = _FakeTempfile
    MD.os = _FakeOS(_os)
    MD.torch = _TorchFacade()
    B._output_to_screen = lambda self, step, T, Ek, V: ST.screen.append(step + 1)
    _Mol.Molecule = LightMolecule
    FakeES.forward = untraced(FakeES.forward)
    for cls in (B, L):
        for name in ("_kinetic_energy", "_calc_temperature", "one_step", "_apply_langevin_thermostat", "initialize_velocity", "_zero_com"):
            if name in cls.__dict__:
                _INSTALLED["saved"].append((cls, name, cls.__dict__[name]))
                setattr(cls, name, untraced(cls.__dict__[name]))


def uninstall():
    for obj, name, val in reversed(_INSTALLED.get("saved", [])):
        setattr(obj, name, val)
    _INSTALLED.clear()


class Crash(BaseException):
    """simulated process death (BaseException: not swallowed by `except Exception`)"""


class Store:
    def __init__(self):
        self.reset()

    def reset(self):
        self.h5_durable = {}  # path -> {(dataset,row): value}
        self.h5_buffer = {}
        self.h5_meta = {}  # path -> (groups set, dsets dict name->shape)
        self.xyz_text = {}  # path -> durable text of the XYZ file
        self.xyz_buffer = {}  # path -> [frame strings still in the process-side buffer]
        self.files = {}  # checkpoint FS: path -> object ("PARTIAL" marker for torn files)
        self.dead = False
        self.screen = []
        self.ckpt_log = []
        self.events = []  # ordered log of durable-relevant events, for crash-site enumeration
        self.crash_at_event = None
        self.crash_hard = True
        self.nevents = 0

    # every externally visible operation is an event at which the process may die
    def event(self, kind, hard_only=False):
        """hard_only: a point at which only a kill can stop the process (inside a single OS-level write)"""
        if self.dead:
            return
        n = self.nevents
        self.nevents += 1
        self.events.append(kind)
        if self.crash_at_event is not None and n == self.crash_at_event:
            if hard_only and not self.crash_hard:
                return
            if self.crash_hard:
                self.kill()
            raise Crash(kind)

    def kill(self):
        self.h5_buffer = {k: {} for k in self.h5_buffer}
        self.xyz_buffer = {k: [] for k in self.xyz_buffer}
        self.dead = True

    def revive(self):
        # a resumed run is a new process: whatever the dead one still held in its buffers is gone
        self.h5_buffer = {k: {} for k in self.h5_buffer}
        self.xyz_buffer = {k: [] for k in self.xyz_buffer}
        self.dead = False
        self.crash_at_event = None
        self.nevents = 0
        self.events = []


ST = Store()


class FakeDS:
    def __init__(self, f, name, shape):
        self.f, self.name, self.shape = f, name, shape

    def __setitem__(self, i, v):
        if ST.dead:
            return
        if isinstance(i, tuple):
            i = i[0]
        if isinstance(v, np.ndarray):
            v = tuple(np.asarray(v, dtype=float).reshape(-1).round(12).tolist())
        elif isinstance(v, float):
            v = round(v, 12)
        if self.shape and not (0 <= i < self.shape[0]):
            raise IndexError("row %r out of range for %s shape %r" % (i, self.name, self.shape))
        ST.event("h5row:%s" % self.name)
        ST.h5_buffer.setdefault(self.f.fpath, {})[(self.name, i)] = v


class FakeNode:
    def __init__(self, f, path):
        self.f, self.path = f, path

    def _full(self, name):
        return (self.path + "/" + name).strip("/")

    def create_group(self, name):
        self.f.groups.add(self._full(name))
        return FakeNode(self.f, self._full(name))

    def create_dataset(self, path, shape=None, data=None, **kw):
        full = self._full(path)
        parts = full.split("/")
        for k in range(1, len(parts)):
            self.f.groups.add("/".join(parts[:k]))
        self.f.dsets[full] = tuple(shape) if shape is not None else ()
        return FakeDS(self.f, full, self.f.dsets[full])

    def __contains__(self, name):
        full = self._full(name)
        return full in self.f.groups or full in self.f.dsets

    def __getitem__(self, name):
        full = self._full(name)
        if full in self.f.dsets:
            return FakeDS(self.f, full, self.f.dsets[full])
        if full in self.f.groups:
            return FakeNode(self.f, full)
        raise KeyError(full)


class FakeFile(FakeNode):
    def __init__(self, path, mode):
        self.fpath = path
        self.attrs = {}
        if mode == "w":
            ST.h5_meta[path] = (set(), {})
            ST.h5_durable[path] = {}
            ST.h5_buffer[path] = {}
        if path not in ST.h5_meta:
            raise OSError("no such file " + path)
        self.groups, self.dsets = ST.h5_meta[path]
        FakeNode.__init__(self, self, "")

    def flush(self):
        if ST.dead:
            return
        ST.event("h5flush")
        ST.h5_durable.setdefault(self.fpath, {}).update(ST.h5_buffer.get(self.fpath, {}))
        ST.h5_buffer[self.fpath] = {}

    def close(self):
        self.flush()


class FakeXYZ:
    """text file: durable part ST.xyz_text[path] + process-side buffer of written frames.  Supports what the real
    XYZWriter does with a file: append + flush + close, and (on resume) readline/tell/truncate on an r+ handle."""

    def __init__(self, path, mode):
        self.path, self.mode, self.pos = path, mode, 0
        ST.xyz_text.setdefault(path, "")
        ST.xyz_buffer.setdefault(path, [])

    def __enter__(self):
        return self

    def __exit__(self, *a):
        self.close()
        return False

    # ---- reading side (resume) ----
    def readline(self):
        t = ST.xyz_text.get(self.path, "")
        if self.pos >= len(t):
            return ""
        k = t.find("\n", self.pos)
        end = len(t) if k < 0 else k + 1
        line = t[self.pos : end]
        self.pos = end
        return line

    def tell(self):
        return self.pos

    def truncate(self, pos=None):
        if ST.dead:
            return
        ST.event("xyztruncate")
        pos = self.pos if pos is None else pos
        ST.xyz_text[self.path] = ST.xyz_text.get(self.path, "")[:pos]

    # ---- writing side ----
    def write(self, s):
        if ST.dead:
            return
        ST.event("xyzframe")
        ST.xyz_buffer.setdefault(self.path, []).append(s)

    def flush(self):
        if ST.dead:
            return
        buf = ST.xyz_buffer.get(self.path, [])
        ST.event("xyzflush")
        if buf:
            text = "".join(buf)
            cut = len(text) - len(buf[-1]) // 2  # a kill inside the write leaves a prefix: the last frame is torn
            ST.xyz_text[self.path] = ST.xyz_text.get(self.path, "") + text[:cut]
            ST.event("xyzflush:mid", hard_only=True)
            ST.xyz_text[self.path] += text[cut:]
        ST.xyz_buffer[self.path] = []

    def close(self):
        self.flush()


def _fake_open(fn, mode="r", buffering=-1, **kw):
    if not str(fn).endswith(".xyz"):
        raise OSError("fake open: unexpected path %r" % (fn,))
    return FakeXYZ(fn, mode)


def _fake_rotate(path, *a, **k):
    ST.xyz_text.pop(path, None)
    ST.xyz_buffer[path] = []


def xyz_labels(text):
    """step labels of the frames in an XYZ text; a frame that is not complete is reported as the label -999"""
    lines = text.split("\n")
    if lines and lines[-1] == "":
        lines.pop()
        complete_tail = True
    else:
        complete_tail = False
    out, i = [], 0
    while i < len(lines):
        try:
            n = int(lines[i])
            step = int(lines[i + 1].split()[1])
            body = lines[i + 2 : i + 2 + n]
            if len(body) < n or (i + 2 + n == len(lines) and not complete_tail):
                raise ValueError
            out.append(step)
            i += 2 + n
        except (ValueError, IndexError):
            out.append(-999)
            break
    return out


# ---- in-memory file system for the checkpoint writer (real _atomic_save_checkpoint runs) ------------


class _FakeTempfile:
    @staticmethod
    def mkstemp(dir=None, prefix="", suffix=""):
        ST.event("ckpt:mkstemp")
        p = "%s/%sX%s" % (dir, prefix, suffix)
        ST.files[p] = "EMPTY"
        return 99, p


class _FakeOS:
    """os facade for MolecularDynamics: only the calls the checkpoint writer makes hit the fake FS"""

    def __init__(self, real):
        self._real = real
        self.path = types.SimpleNamespace(dirname=real.path.dirname, exists=lambda p: p in ST.files or p in ST.xyz_text, splitext=real.path.splitext, join=real.path.join, basename=real.path.basename)

    def close(self, fd):
        return None

    def replace(self, a, b):
        ST.event("ckpt:before-replace")
        ST.files[b] = ST.files.pop(a)
        ST.event("ckpt:after-replace")

    def remove(self, p):
        ST.files.pop(p, None)

    def rename(self, a, b):
        ST.files[b] = ST.files.pop(a)

    def __getattr__(self, n):
        return getattr(self._real, n)


def _fake_save(obj, path):
    ST.files[path] = "PARTIAL"
    ST.event("ckpt:mid-save")
    ST.files[path] = copy.deepcopy(obj)
    ST.ckpt_log.append(int(obj.get("step_done", -1)))
    ST.event("ckpt:after-save")


def _fake_load(path, **kw):
    obj = ST.files[path]
    if isinstance(obj, str):
        raise RuntimeError("checkpoint file %s is not a complete checkpoint (%s)" % (path, obj))
    return copy.deepcopy(obj)


class _TorchFacade:
    """torch facade for MolecularDynamics: save/load go to the in-memory FS, everything else is real torch"""

    def __init__(self):
        self.save = _fake_save
        self.load = _fake_load
        # seeding captures a formatted stack trace inside torch (slow under symbolic tracing): run it untraced
        self.manual_seed = untraced(torch.manual_seed)
        self.cuda = types.SimpleNamespace(
            manual_seed_all=untraced(torch.cuda.manual_seed_all),
            is_available=lambda: False,
            get_rng_state_all=lambda: None,
            set_rng_state_all=lambda s: None,
            empty_cache=lambda: None,
            synchronize=lambda: None,
        )

    def __getattr__(self, n):
        return getattr(torch, n)


class FakeES(torch.nn.Module):
    """stand-in electronic-structure driver: harmonic-ish force field, energies that identify the state"""

    calls = 0

    def __init__(self, *a, **k):
        super().__init__()
        self.conservative_force = types.SimpleNamespace(energy=types.SimpleNamespace(md=False, excited_states=None, hamiltonian=types.SimpleNamespace(eps=None)))
        self.device = torch.device("cpu")

    def forward(self, molecule, *a, P0=None, dm_prop="SCF", **k):
        FakeES.calls += 1
        x = molecule.coordinates.detach()
        nmol = x.shape[0]
        real = (molecule.species > 0).unsqueeze(-1).to(x.dtype)
        force = (-0.3 * x + 0.05) * real
        etot = 0.15 * (x * x * real).sum(dim=(1, 2)) - 0.05 * (x * real).sum(dim=(1, 2))
        # "converged" density: a function of the geometry
        D = torch.zeros(nmol, 2, 2)
        D[:, 0, 0] = 1.0 + 0.1 * x[:, 0, 0]
        D[:, 1, 1] = 1.0 - 0.1 * x[:, 1, 0]
        D[:, 0, 1] = D[:, 1, 0] = 0.2 * x[:, 1, 1]
        if dm_prop == "XL-BOMD" and torch.is_tensor(P0):
            # shadow potential: forces/energy depend on the propagated auxiliary density (so a wrong history slot shows)
            dev = (P0.detach() - D)
            force = force + 0.5 * dev[:, 0, 1].reshape(nmol, 1, 1) * real + 0.25 * dev[:, 0, 0].reshape(nmol, 1, 1) * real
            etot = etot + 0.1 * (dev * dev).sum(dim=(1, 2))
        molecule.force = force
        molecule.Etot = etot
        molecule.dipole = x.sum(dim=1)
        molecule.e_gap = torch.ones(nmol)
        molecule.dm = D
        molecule.Electronic_entropy = torch.zeros(nmol)


_INSTALLED = {}


ENGINES = {"basic": "Molecular_Dynamics_Basic", "langevin": "Molecular_Dynamics_Langevin", "xl": "XL_BOMD"}


_CONST = []


class LightMolecule:
    """the attributes of seqm.Molecule.Molecule that the MD layer touches, without the parameter loading
    (Molecule itself is not under test in the MD harnesses and is slow under symbolic tracing)"""

    def __init__(self, const, seqm_parameters, coordinates, species, *a, **k):
        self.const = const
        self.species = species
        self.coordinates = torch.nn.Parameter(coordinates.clone().detach())
        self.seqm_parameters = seqm_parameters
        self.nmol, self.molsize = species.shape
        nz = species != 0
        self.num_atoms = nz.sum(dim=1).to(coordinates.dtype)
        self.mass = const.mass[species].unsqueeze(2)
        self.mass_inverse = torch.zeros_like(self.mass)
        self.mass_inverse[nz] = 1.0 / self.mass[nz]
        self.norb = (species > 1).sum(dim=1) * 4 + (species == 1).sum(dim=1)
        self.nocc = self.norb // 2
        self.force = self.velocities = self.acc = self.dm = None
        self.Etot = self.e_gap = self.dipole = None
        self.cis_amplitudes = self.cis_energies = self.transition_density_matrices = None
        self.old_mos = None
        self.dP2dt2 = None
        self.Electronic_entropy = None
        self.active_state = 0
        self.verbose = False

    def to(self, device):
        return self


def make_molecule(nmol=1):
    from seqm.seqm_functions.constants import Constants

    if not _CONST:
        _CONST.append(Constants())
    const = _CONST[0]
    p = {"method": "AM1", "scf_eps": 1e-6, "scf_converger": [1], "elements": [0, 1, 8]}
    if nmol == 1:
        sp = torch.tensor([[1, 1]])
        xyz = torch.tensor([[[0.0, 0, 0], [0.74, 0.1, 0]]])
    else:
        sp = torch.tensor([[8, 1, 1], [1, 1, 0]])
        xyz = torch.tensor([[[0.0, 0, 0], [0.96, 0, 0], [-0.24, 0.93, 0]], [[0.0, 0, 0], [0.74, 0.1, 0], [0.0, 0.0, 0.0]]])
    return LightMolecule(const, p, xyz, sp), p


def make_md(engine, p, out, k=3):
    cls = getattr(MD, ENGINES[engine])
    kw = dict(seqm_parameters=p, timestep=0.5, output=out)
    if engine == "basic":
        return cls(Temp=300.0, **kw)
    if engine == "langevin":
        return cls(damp=20.0, Temp=300.0, **kw)
    if engine == "xl":
        return cls(damp=None, xl_bomd_params={"k": k}, Temp=300.0, **kw)
    raise KeyError(engine)


def output_dict(molid, data, coordinates, velocities, forces, xyz, print_every, checkpoint_every, prefix="/mem/x"):
    h5 = {}
    if data:
        h5["data"] = data
    if coordinates:
        h5["coordinates"] = coordinates
    if velocities:
        h5["velocities"] = velocities
    if forces:
        h5["forces"] = forces
    return {"molid": list(molid), "prefix": prefix, "print every": print_every, "checkpoint every": checkpoint_every, "xyz": xyz, "h5": h5}


def fresh_run(engine, steps, out, seed=7, nmol=1, crash_event=None, hard=True):
    """run from scratch; returns True if it completed, False if the simulated crash fired"""
    install()
    mol, p = make_molecule(nmol)
    md = make_md(engine, p, out)
    ST.crash_at_event = crash_event
    ST.crash_hard = hard
    try:
        with contextlib.redirect_stdout(io.StringIO()):
            md.run(mol, steps, seed=seed)
        return True
    except Crash:
        return False


def resume(prefix="/mem/x", crash_event=None, hard=True):
    install()
    ST.revive()
    ST.crash_at_event = crash_event
    ST.crash_hard = hard
    try:
        with contextlib.redirect_stdout(io.StringIO()):
            MD.Molecular_Dynamics_Basic.run_from_checkpoint(prefix + ".restart.pt")
        return True
    except Crash:
        return False


def snapshot():
    """durable content: {h5 path: {(dataset,row): value}}, {xyz path: [frames]}, capacities"""
    h5 = {k: dict(v) for k, v in ST.h5_durable.items()}
    xyz = {k: xyz_labels(v) for k, v in ST.xyz_text.items()}
    caps = {k: {n: s for n, s in v[1].items()} for k, v in ST.h5_meta.items()}
    return h5, xyz, caps


def rows_of(h5content, group):
    """[(row, step)] of a stream, sorted by row"""
    name = group + "/steps"
    return sorted((r, v) for (ds, r), v in h5content.items() if ds == name)


def expected_steps(cad, steps):
    if cad <= 0:
        return []
    return [0] + [k for k in range(1, steps + 1) if k % cad == 0]
