"""Symbolic-tag execution of the real SCF.forward / SCF.backward (shared by C07.d and C15.a).

Heavy numerical callees (SCF iterations, Fock build, eigen-solver, autograd) are replaced by recorders; every
tensor-valued input is a SymTensor filled with its own tag symbol, the SCF tolerance is a symbolic scalar.  What is
decided: which method string and which tolerance the backward pass *uses*, and which forward input each returned
gradient slot belongs to."""
import types

import numpy as np
import torch
import z3

from engine import symtorch as S
from engine.symtorch import SymTensor

NAMES = ["M", "w", "W", "gss", "gpp", "gsp", "gp2", "hsp"]


class Ctx:
    themethod = None

    def save_for_backward(self, *t):
        self.saved_tensors = t


def _tag(name, shape, job):
    return SymTensor(np.full(shape, z3.Real("tag_%s_%s" % (name, job)), dtype=object))


def forward(job, method, eps, requires=NAMES):
    """run the real SCF.forward for a job with stubbed SCF iterations; returns (ctx, inputs dict)"""
    from seqm.seqm_functions import scf_loop as SL

    ctx = Ctx()
    shapes = {"M": (4, 4, 4), "w": (1, 10, 10), "W": (1,), "gss": (2,), "gpp": (2,), "gsp": (2,), "gp2": (2,), "hsp": (2,)}
    inp = {n: _tag(n, shapes[n], job) for n in NAMES}
    for n in NAMES:
        inp[n].requires_grad = n in requires
    P = _tag("P", (1, 8, 8), job)
    saved = {k: getattr(SL, k) for k in ("scf_forward0", "scf_forward1", "scf_forward2", "scf_forward3")}
    stub = lambda *a, **k: (P, torch.tensor([False]))
    for k in saved:
        setattr(SL, k, stub)
    SL.SCF.converger = [1]
    SL.SCF.sp2 = [False]
    try:
        with S.symbolic_factories():
            SL.SCF.forward(ctx, inp["M"], inp["w"], inp["W"], inp["gss"], inp["gpp"], inp["gsp"], inp["gp2"], inp["hsp"], torch.tensor([0]), torch.tensor([2]), torch.tensor([0]), torch.tensor([4]), 1, 2, torch.tensor([0, 3]), torch.tensor([1]), torch.tensor([0, 0]), torch.tensor([0]), torch.tensor([0]), torch.tensor([1]), P, eps, method, None, None, None, torch.tensor([8, 6]), None, None, False)
    finally:
        for k, v in saved.items():
            setattr(SL, k, v)
    return ctx, inp


def backward(ctx):
    """run the real SCF.backward on ctx with recorders; returns dict(method used, tolerances used, returned slots)"""
    from seqm.seqm_functions import scf_loop as SL

    rec = {"methods": [], "tols": []}
    saved = {k: getattr(SL, k) for k in ("fock_restricted", "sym_eig_trunc1", "sym_eig_trunc1d", "agrad", "fixed_point_anderson", "fixed_point_picard")}
    Pout = SymTensor(np.full((1, 8, 8), z3.Real("Pout"), dtype=object))

    def fock(nmol, molsize, Pin, M, maskd, mask, idxi, idxj, w, W, gss, gpp, gsp, gp2, hsp, themethod, *a):
        rec["methods"].append(themethod)
        rec["molsize"] = molsize
        return SymTensor(np.full((1, 8, 8), z3.Real("F"), dtype=object))

    def agrad(out, inputs, grad_outputs=None, **k):
        if isinstance(inputs, (list, tuple)):
            res = []
            for t in inputs:
                res.append(SymTensor(np.full(t.a.shape, t.a.reshape(-1)[0] * z3.Real("u"), dtype=object)))
            return tuple(res)
        return (SymTensor(np.full(inputs.a.shape, z3.RealVal(0), dtype=object)),)

    def fp(fun, u0, tol, *a, **k):
        rec["tols"].append(tol)
        return fun(u0)

    SL.fock_restricted = fock
    SL.sym_eig_trunc1 = lambda F, *a: (None, Pout)
    SL.sym_eig_trunc1d = lambda F, *a: (None, Pout)
    SL.agrad = agrad
    SL.fixed_point_anderson = fp
    SL.fixed_point_picard = fp
    try:
        gradP = SymTensor(np.full((1, 8, 8), z3.Real("gP"), dtype=object))
        with S.symbolic_factories():
            out = SL.SCF.backward(ctx, gradP, None)
    finally:
        for k, v in saved.items():
            setattr(SL, k, v)
    rec["out"] = out
    return rec


# ---- autograd-history model (C07.e) -----------------------------------------------------------------------------------
# In the real driver the Hamiltonian pieces handed to SCF.apply are not independent leaves: the two-centre integrals w and
# the core Hamiltonian M are functions of the one-centre integrals (rho0 from g_ss, rho1 from h_sp, rho2 from
# (g_pp - g_p2)/2 enter the local-frame integrals from which both are built).  ctx.saved_tensors returns the *same* tensors, history included, and
# torch.autograd.grad(out, inputs, grad_outputs=u) follows every path from `out` to each requested input, also the paths that
# run through another requested input.  The model below gives SymTensors a `hist` list [(other, d self/d other)] and makes
# the autograd stub follow it, so whether the code differentiates w.r.t. history-free copies becomes observable.

HIST_ROOTS = ["gss", "gpp", "gp2", "hsp"]


def attach_history(inp, requires):
    """w and M both descend from the differentiable one-centre integrals through the local-frame integrals `ri`
    (w by rotation, M through the core-attraction blocks e1b/e2a); neither is computed from the other.
    Symbolic Jacobian coefficients h_w_<root>, h_M_<root>."""
    coef = {}
    for t in ("w", "M"):
        inp[t].hist = []
        for r in HIST_ROOTS:
            if r in requires:
                coef[(t, r)] = z3.Real("h_%s_%s" % (t, r))
                inp[t].hist.append((inp[r], coef[(t, r)]))
    return coef


def _path(s, t, seen=()):
    """sum over history paths of d s / d t (t identified by object identity)"""
    tot = z3.RealVal(0)
    for o, c in s.hist or []:
        if o is t:
            tot = tot + c
        elif id(o) not in seen:
            tot = tot + c * _path(o, t, seen + (id(s),))
    return tot


def backward_with_history(ctx):
    """real SCF.backward with an autograd stub that follows the history model; returns (slots, partial symbols a_<name>, u)"""
    from seqm.seqm_functions import scf_loop as SL

    saved = {k: getattr(SL, k) for k in ("fock_restricted", "sym_eig_trunc1", "sym_eig_trunc1d", "agrad", "fixed_point_anderson", "fixed_point_picard")}
    Pout = SymTensor(np.full((1, 8, 8), z3.Real("Pout"), dtype=object))
    part = {n: z3.Real("a_%s" % n) for n in NAMES}
    passed = {}

    def fock(nmol, molsize, Pin, M, maskd, mask, idxi, idxj, w, W, gss, gpp, gsp, gp2, hsp, themethod, *a):
        passed.update(M=M, w=w, W=W, gss=gss, gpp=gpp, gsp=gsp, gp2=gp2, hsp=hsp)
        return SymTensor(np.full((1, 8, 8), z3.Real("F"), dtype=object))

    def agrad(out, inputs, grad_outputs=None, **k):
        u = grad_outputs.a.reshape(-1)[0]
        if not isinstance(inputs, (list, tuple)):
            return (SymTensor(np.full(inputs.a.shape, z3.RealVal(0), dtype=object)),)  # dPout/dPin: contraction part, not under test
        res = []
        for t in inputs:
            g = z3.RealVal(0)
            for name, s in passed.items():
                if s is t:
                    g = g + part[name]
                elif isinstance(s, SymTensor):
                    g = g + part[name] * _path(s, t)
            res.append(SymTensor(np.full(t.a.shape, u * g, dtype=object)))
        return tuple(res)

    fp = lambda fun, u0, tol, *a, **k: fun(u0)
    SL.fock_restricted = fock
    SL.sym_eig_trunc1 = lambda F, *a: (None, Pout)
    SL.sym_eig_trunc1d = lambda F, *a: (None, Pout)
    SL.agrad = agrad
    SL.fixed_point_anderson = fp
    SL.fixed_point_picard = fp
    try:
        gradP = SymTensor(np.full((1, 8, 8), z3.Real("gP"), dtype=object))
        with S.symbolic_factories():
            out = SL.SCF.backward(ctx, gradP, None)
    finally:
        for k, v in saved.items():
            setattr(SL, k, v)
    return out, part, z3.Real("gP")
