"""Executable statements of C10/C11 (and the bookkeeping clause of C08) over the in-memory MD environment.
Pure functions of small integers: used concretely (replay) and symbolically (CrossHair)."""
from . import mdsim as M

_REF = {}

STREAMS = ("data", "coordinates", "velocities", "forces")
VALUE_DS = {
    "data": ["data/thermo/T", "data/thermo/Ek", "data/thermo/Ep", "data/properties/ground_dipole"],
    "coordinates": ["coordinates/values"],
    "velocities": ["velocities/values"],
    "forces": ["forces/values"],
}


def reference(engine, nsteps, nmol=1, molid=(0,)):
    """values of every dataset at every step 0..nsteps from a run with all cadences = 1 (same seed)"""
    key = (engine, nsteps, nmol, tuple(molid))
    if key not in _REF:
        M.ST.reset()
        out = M.output_dict(molid, 1, 1, 1, 1, 1, 0, 0)
        ok = M.fresh_run(engine, nsteps, out, nmol=nmol)
        assert ok
        h5, xyz, caps = M.snapshot()
        ref = {}
        for path, content in h5.items():
            per = {}
            for g in STREAMS:
                for row, step in M.rows_of(content, g):
                    for ds in VALUE_DS[g]:
                        per[(ds, step)] = content[(ds, row)]
            ref[path] = per
        _REF[key] = ref
    return _REF[key]


def stream_violations(content, caps, cad, steps, ref, first_step=0):
    """compare the durable content of one h5 file with the specification; returns list of strings"""
    bad = []
    for g in STREAMS:
        c = cad[g]
        rows = M.rows_of(content, g)
        exp = M.expected_steps(c, steps)
        got_rows = [r for r, _ in rows]
        got_steps = [s for _, s in rows]
        if got_steps != exp:
            bad.append("%s: steps written %r, expected %r" % (g, got_steps, exp))
            continue
        if got_rows != list(range(len(exp))):
            bad.append("%s: rows %r are not consecutive from 0" % (g, got_rows))
        if c <= 0:
            if any(k.startswith(g + "/") or k == g for k in caps):
                bad.append("%s: cadence 0 but datasets %r were created" % (g, [k for k in caps if k.startswith(g + "/")]))
            continue
        cap = caps.get(g + "/steps")
        if cap is None or cap[0] != len(exp):
            bad.append("%s: capacity %r but %d rows are due (filler or missing rows)" % (g, cap, len(exp)))
        for row, step in rows:
            for ds in VALUE_DS[g]:
                if (ds, row) not in content:
                    bad.append("%s: row %d (step %d) has no value in %s" % (g, row, step, ds))
                elif ref is not None and content[(ds, row)] != ref.get((ds, step)):
                    bad.append("%s: value of %s at step %d differs from the state the system had at that step" % (g, ds, step))
    return bad


def cadence_violations(engine, data, c, v, f, xyz, pr, ck, steps, nref, nmol=1, molid=(0,)):
    """C11: run the real loop with these cadences; list every deviation from 'initial snapshot + multiples of own cadence'"""
    ref = reference(engine, nref, nmol, molid)
    M.ST.reset()
    out = M.output_dict(molid, data, c, v, f, xyz, pr, ck)
    ok = M.fresh_run(engine, steps, out, nmol=nmol)
    assert ok
    h5, xyzs, caps = M.snapshot()
    cad = {"data": data, "coordinates": c, "velocities": v, "forces": f}
    bad = []
    anyh5 = data > 0 or c > 0 or v > 0 or f > 0
    for mol in molid:
        path = "/mem/x.%d.h5" % mol
        if not anyh5:
            if path in h5:
                bad.append("h5 file created although every h5 cadence is 0")
            continue
        if path not in h5:
            bad.append("no h5 file for molecule %d" % mol)
            continue
        bad += ["mol %d %s" % (mol, b) for b in stream_violations(h5[path], caps[path], cad, steps, ref[path])]
        xp = "/mem/x.%d.xyz" % mol
        frames = xyzs.get(xp, [])
        if frames != M.expected_steps(xyz, steps):
            bad.append("mol %d xyz frames %r, expected %r" % (mol, frames, M.expected_steps(xyz, steps)))
    scr = M.ST.screen
    exp_scr = [k for k in range(1, steps + 1) if pr > 0 and k % pr == 0]
    if scr != exp_scr:
        bad.append("screen output at steps %r, expected %r" % (scr, exp_scr))
    exp_ck = [k for k in range(1, steps + 1) if ck > 0 and k % ck == 0]
    if M.ST.ckpt_log != exp_ck:
        bad.append("checkpoints at steps %r, expected %r" % (M.ST.ckpt_log, exp_ck))
    return bad


def durable_state():
    h5, xyz, caps = M.snapshot()
    return h5, xyz


# ---- C10: crash + resume ---------------------------------------------------------------------------
# configurations (engine, data, c, v, f, xyz, ck, steps) addressed by index so that CrossHair only sees ints
CRASH_CONFIGS = [
    ("basic", 1, 2, 1, 0, 0, 2, 5),
    ("basic", 1, 1, 0, 3, 1, 2, 5),
    ("langevin", 1, 1, 1, 0, 0, 2, 5),
    ("xl", 1, 1, 0, 1, 0, 2, 5),
    ("basic", 2, 1, 3, 0, 2, 3, 7),
    ("langevin", 1, 0, 2, 1, 1, 3, 7),
    ("xl", 2, 1, 1, 0, 0, 4, 9),
    ("xl", 1, 1, 0, 0, 0, 5, 11),
]
_CREF = {}


def crash_reference(cfg):
    if cfg not in _CREF:
        eng, data, c, v, f, xyz, ck, steps = CRASH_CONFIGS[cfg]
        M.ST.reset()
        assert M.fresh_run(eng, steps, M.output_dict((0,), data, c, v, f, xyz, 0, ck))
        h5, xz = durable_state()
        _CREF[cfg] = (h5, xz, M.ST.nevents)
    return _CREF[cfg]


def classify_xyz(ref, got, resumed_from):
    """None if equal; 'dup' if got is ref plus duplicated frames that are all newer than the checkpoint resumed from
    (the listed finding C10-xyz-duplicate-frames); 'other' for anything else"""
    if got == ref:
        return None
    if got is None:
        return "other"
    if sorted(set(got)) == sorted(ref) and len(got) > len(ref):
        from collections import Counter

        dups = [k for k, n in Counter(got).items() if n > 1]
        # order must be ref with re-started suffixes only
        if all(k > resumed_from for k in dups):
            return "dup"
    return "other"


def crash_violations(cfg, crash_event, hard, crash_event2=-1, hard2=True):
    """C10: run, die at the crash_event-th externally visible operation (hard kill loses unflushed buffers,
    an exception lets `finally` run), resume from the checkpoint (optionally die again during the resumed run
    and resume again); compare durable content with the uninterrupted run.
    Returns list of (kind, message); kind in torn|resume|h5|xyz-dup|xyz-other"""
    eng, data, c, v, f, xyz, ck, steps = CRASH_CONFIGS[cfg]
    ref_h5, ref_xyz, nev = crash_reference(cfg)
    if crash_event >= nev:
        return []
    M.ST.reset()
    done = M.fresh_run(eng, steps, M.output_dict((0,), data, c, v, f, xyz, 0, ck), crash_event=crash_event, hard=hard)
    if done:
        return []
    ckpath = "/mem/x.restart.pt"
    if ckpath in M.ST.files and isinstance(M.ST.files[ckpath], str):
        return [("torn", "checkpoint file is torn after a crash at event %d (%s)" % (crash_event, M.ST.files[ckpath]))]
    if ckpath not in M.ST.files:
        return []  # died before the first checkpoint: nothing to resume from (restart from scratch is outside the claim)
    resumed_from = M.ST.files[ckpath]["step_done"]
    try:
        done = M.resume(crash_event=(crash_event2 if crash_event2 >= 0 else None), hard=hard2)
        if not done:
            if isinstance(M.ST.files.get(ckpath), str):
                return [("torn", "checkpoint file is torn after a second crash")]
            resumed_from = min(resumed_from, M.ST.files[ckpath]["step_done"])
            done = M.resume()
    except Exception as e:  # noqa
        return [("resume", "resume failed: %s: %s" % (type(e).__name__, e))]
    bad = []
    got_h5, got_xyz = durable_state()
    for path in ref_h5:
        r, g = ref_h5[path], got_h5.get(path, {})
        if r != g:
            miss = sorted(k for k in r if k not in g)[:3]
            extra = sorted(k for k in g if k not in r)[:3]
            diff = sorted(k for k in r if k in g and r[k] != g[k])[:3]
            bad.append(("h5", "h5 content differs after crash@%d(%s)+resume: missing %r extra %r changed %r" % (crash_event, "kill" if hard else "exception", miss, extra, diff)))
    for path in ref_xyz:
        k = classify_xyz(ref_xyz[path], got_xyz.get(path), resumed_from)
        if k:
            bad.append(("xyz-" + k, "xyz frames after crash@%d(%s)+resume from step %d: %r, uninterrupted %r" % (crash_event, "kill" if hard else "exception", resumed_from, got_xyz.get(path), ref_xyz[path])))
    return bad


def crash_ok(cfg, crash_event, hard, crash_event2=-1, hard2=True, ignore=()):
    return [b for b in crash_violations(cfg, crash_event, hard, crash_event2, hard2) if b[0] not in ignore] == []


# ---- C11 (resumed runs): row cursors of every stream after re-opening an existing file ----------------


def resume_cursor_violations(data, c, v, f, tdm, na, nexc, step_offset, steps):
    """create the per-molecule file like a fresh run would (real HDF5Writer.open/_create_new over the fake h5py), then
    re-open it with resume=True at `step_offset` (real _open_resume) and compare every row cursor with the number of rows a
    run up to that step has written: initial snapshot + multiples of the stream's own cadence <= step_offset."""
    import types
    import torch
    import seqm.MolecularDynamics as MD

    M.install()
    M.ST.reset()
    h5 = {}
    for k, val in (("data", data), ("coordinates", c), ("velocities", v), ("forces", f), ("transition_density_matrices", tdm), ("nonadiabatic", na)):
        if val:
            h5[k] = val
    out = {"molid": [0], "prefix": "/mem/r", "print every": 0, "checkpoint every": 0, "xyz": 0, "h5": h5}
    cfg = MD.OutputConfig.from_dict(out)
    mol, p = M.make_molecule(1)
    mol.nocc = torch.tensor([1])
    w1 = MD.HDF5Writer(cfg, p, 0.5)
    w1.open(mol, "/mem/r", steps, excited_states=nexc, resume=False, step_offset=0, include_initial=True)
    w1.close()
    w2 = MD.HDF5Writer(cfg, p, 0.5)
    try:
        w2.open(mol, "/mem/r", steps, excited_states=nexc, resume=True, step_offset=step_offset, include_initial=False)
    except RuntimeError as e:
        return ["resume refused: %s" % e]
    rows = lambda cad: (step_offset // cad + 1) if cad > 0 else 0
    bad = []
    exp = {"data": rows(data), "coordinates": rows(c), "velocities": rows(v), "forces": rows(f)}
    if w2.i_data[0] != exp["data"]:
        bad.append("data cursor %r, rows already written %d" % (w2.i_data[0], exp["data"]))
    for k in ("coordinates", "velocities", "forces"):
        if w2.i_vec[0][k] != exp[k]:
            bad.append("%s cursor %r, rows already written %d" % (k, w2.i_vec[0][k], exp[k]))
    if nexc > 0 and data > 0:
        if w2.i_tdm[0] != rows(tdm):
            bad.append("transition-density cursor %r, rows already written %d" % (w2.i_tdm[0], rows(tdm)))
    if nexc > 0:
        if w2.i_na[0] != rows(na):
            bad.append("nonadiabatic cursor %r, rows already written %d" % (w2.i_na[0], rows(na)))
    return bad


def config_violations(pr, ck, xyz, data, c, v, f, na, tdm):
    """OutputConfig.from_dict + accessors: every cadence the engines read must be the integer the user wrote (zero included)"""
    import seqm.MolecularDynamics as MD

    cfg = MD.OutputConfig.from_dict({"molid": [0], "prefix": "x", "print every": pr, "checkpoint every": ck, "xyz": xyz, "h5": {"data": data, "coordinates": c, "velocities": v, "forces": f, "nonadiabatic": na, "transition_density_matrices": tdm}})
    cad = cfg.get_h5_cadence()
    got = {"print every": cfg.print_every, "checkpoint every": cfg.checkpoint_every, "xyz": cfg.xyz_every, "data": cfg.get_h5_data_every(), "coordinates": cad["coordinates"], "velocities": cad["velocities"], "forces": cad["forces"], "nonadiabatic": cfg.get_h5_write_nonadiabatic(), "transition_density_matrices": cfg.get_h5_write_tdm()}
    want = {"print every": pr, "checkpoint every": ck, "xyz": xyz, "data": data, "coordinates": c, "velocities": v, "forces": f, "nonadiabatic": na, "transition_density_matrices": tdm}
    bad = ["%s: requested %r, configured %r" % (k, want[k], got[k]) for k in want if got[k] != want[k]]
    pos = [x for x in (c, v, f) if x > 0]
    gate = min(pos) if pos else None
    if cfg.h5_vectors_every != gate and not (gate is None and not cfg.h5_vectors_every):
        bad.append("vector gate %r, smallest positive vector cadence %r" % (cfg.h5_vectors_every, gate))
    return bad


def _na_dyn(writer, step_offset, nstates=2):
    """a SurfaceHoppingDynamics object reduced to what the real _do_integrator_step needs: electronic structure, coupling,
    propagation and hop logic are no-ops, the nuclear update and the output gate are the real code"""
    import types
    import torch
    import seqm.NonadiabaticDynamics as ND

    d = ND.SurfaceHoppingDynamics.__new__(ND.SurfaceHoppingDynamics)
    d.timestep = 0.5
    d.damp = None
    d.step_offset = step_offset
    d._tdc_method = "hamiltonian_fd"
    d._cache_prev_cis_amp = False
    d._electronic_substeps = 1
    en = torch.tensor([[1.0, 2.0]])
    nd = torch.zeros(1, nstates, nstates)
    d._cache_old = {"energies": en.clone(), "nac_dot": nd.clone()}
    d._cache_new = None

    def ces(molecule, learned_parameters, **k):
        d._cache_new = {"energies": en.clone(), "nac_dot": nd.clone()}
        return en

    d._compute_electronic_structure = ces
    d.post_hop_holdoff = torch.zeros(1, dtype=torch.int64)
    d._detect_crossings = lambda a, b: None
    d._propagate_electronic = lambda *a, **k: None
    d._after_electronic_update = lambda *a, **k: None
    d._h5_writer = writer
    d._coeffs_complex = lambda: torch.ones(1, nstates, dtype=torch.complex128)
    d._active_states = torch.zeros(1, dtype=torch.long)
    mol = types.SimpleNamespace(velocities=torch.zeros(1, 2, 3), acc=torch.zeros(1, 2, 3), coordinates=torch.zeros(1, 2, 3), force=torch.zeros(1, 2, 3), mass_inverse=torch.ones(1, 2, 1), w=None)
    return d, mol


def na_stream_violations(na, data, step_offset, steps, nexc=2):
    """nonadiabatic stream through the real integrator-step gate + real HDF5Writer (fake h5py): a run to `step_offset`,
    re-opened there with resume=True and continued to `steps`, must hold the initial snapshot plus exactly the multiples of
    the nonadiabatic cadence, in order, with absolute labels and no unwritten rows"""
    import torch
    import seqm.MolecularDynamics as MD

    M.install()
    M.ST.reset()
    h5 = {"nonadiabatic": na}
    if data:
        h5["data"] = data
    cfg = MD.OutputConfig.from_dict({"molid": [0], "prefix": "/mem/n", "print every": 0, "checkpoint every": 0, "xyz": 0, "h5": h5})
    mol, p = M.make_molecule(1)
    mol.nocc = torch.tensor([1])
    w1 = MD.HDF5Writer(cfg, p, 0.5)
    w1.open(mol, "/mem/n", steps, excited_states=nexc, resume=False, step_offset=0, include_initial=True)
    d, m = _na_dyn(w1, 0, nexc)
    if na > 0:
        w1.append_nonadiabatic(0, active_states=d._active_states + 1, amplitudes=d._coeffs_complex(), nac_dot=d._cache_old["nac_dot"])  # what initialize() does at step 0
    for i in range(0, step_offset):
        d._do_integrator_step(i, m, {})
    w1.close()
    if step_offset > 0:
        w2 = MD.HDF5Writer(cfg, p, 0.5)
        try:
            w2.open(mol, "/mem/n", steps, excited_states=nexc, resume=True, step_offset=step_offset, include_initial=False)
        except RuntimeError as e:
            return ["resume refused: %s" % e]
        d, m = _na_dyn(w2, step_offset, nexc)
        for i in range(step_offset, steps):
            d._do_integrator_step(i, m, {})
        w2.close()
    else:
        pass
    h5c, _, caps = M.snapshot()
    content = dict(h5c.get("/mem/n.0.h5", {}))
    content.update(M.ST.h5_buffer.get("/mem/n.0.h5", {}))
    cap = (caps.get("/mem/n.0.h5", {}).get("data/nonadiabatic/steps") or (0,))[0]
    rows = dict(M.rows_of(content, "data/nonadiabatic"))
    got = [rows.get(r) for r in range(cap)]
    if na <= 0:
        return [] if not rows else ["nonadiabatic cadence 0 but rows %r exist" % got]
    if step_offset == 0:
        return [] if got[:1] == [0] and all(g is None for g in got[1:]) else ["nonadiabatic steps %r after initialisation, expected the step-0 snapshot only" % got]
    exp = M.expected_steps(na, steps)
    if got != exp:
        return ["nonadiabatic steps %r after a run to step %d resumed and continued to %d (None = unwritten row), expected %r" % (got, step_offset, steps, exp)]
    return []
