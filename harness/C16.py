"""C16 — CIS/RPA: phase alignment, energy quadratic form, sigma-build structure, start space (engine E1, narrow)."""
import types

from .common import *  # noqa: F401,F403
from .common import S, smt, z3, np, torch, SymTensor, symbolic_factories, Explorer, obligation, HarnessError, expect_refuted

PID = "C16"


def replay_phase(rpa):
    from seqm.basics import Energy

    g = torch.Generator().manual_seed(3)
    shp = (2, 1, 3, 4) if rpa else (1, 3, 4)
    new = torch.rand(*shp, generator=g) - 0.5
    ref = torch.rand(*shp, generator=g) - 0.5
    out = Energy._phase_align_cis(new.clone(), ref, rpa=rpa)
    bad = False
    X, Xr, Xo = (new[0], ref[0], out[0]) if rpa else (new, ref, out)
    for s_ in range(3):
        sgn = 1.0 if (Xr[0, s_] * X[0, s_]).sum() >= 0 else -1.0
        if (Xo[0, s_] - sgn * X[0, s_]).abs().max() > 0:
            bad = True
        if rpa and (out[1][0, s_] - sgn * new[1][0, s_]).abs().max() > 0:
            bad = True
    print("replay phase alignment (rpa=%s): consistent=%s" % (rpa, not bad))
    return bad


@obligation(PID, "b", title="phase alignment: every state is multiplied by one sign (the same for X and Y in RPA) chosen so that its overlap with the reference is non-negative; nothing else changes")
def ob_b(ob):
    from seqm.basics import Energy

    ob.encodes(Energy._phase_align_cis)
    ob.bound("1 molecule x 3 states x 4 amplitudes (CIS) and X,Y blocks (RPA); new and reference amplitudes symbolic; also fewer reference states than new states")
    for rpa in (False, True):
        for nref in (3, 2):
            shp = (2, 1, 3, 4) if rpa else (1, 3, 4)
            rshp = (2, 1, nref, 4) if rpa else (1, nref, 4)
            new, ref = S.reals("n", shp), S.reals("r", rshp)
            with symbolic_factories():
                out = Energy._phase_align_cis(SymTensor(new.copy()), SymTensor(ref.copy()), rpa=rpa)
            o = out.a
            X, Xr, Xo = (new[0], ref[0], o[0]) if rpa else (new, ref, o)
            for s_ in range(3):
                comps = [(Xo[0, s_, k], X[0, s_, k]) for k in range(4)]
                if rpa:
                    comps += [(o[1][0, s_, k], new[1][0, s_, k]) for k in range(4)]
                same = z3.And(*[a == b for a, b in comps])
                flip = z3.And(*[a == -b for a, b in comps])
                claims = [("one sign per state", z3.Or(same, flip))]
                if s_ < nref:
                    ov_out = sum(Xr[0, s_, k] * Xo[0, s_, k] for k in range(4))
                    claims.append(("non-negative overlap with the reference", ov_out >= 0))
                else:
                    claims.append(("states without a reference are untouched", same))
                for name, c in claims:
                    lab = "b:rpa=%s nref=%d state %d %s" % (rpa, nref, s_, name)
                    v, m = smt.prove(c, [], lab, "auto", 60)
                    if v == "sat":
                        if replay_phase(rpa):
                            ob.violation("phase alignment (%s): '%s' fails for state %d: the stored amplitudes are no longer a solution of the response equations" % ("RPA" if rpa else "CIS", name, s_), {"module": "harness.C16", "func": "replay_phase", "args": {"rpa": rpa}})
                        else:
                            raise HarnessError("phase alignment counterexample did not reproduce (%s)" % lab)
                        return
                    ob.verdict(v, lab)


def replay_rpa_energy():
    """float64: calc_cis_energy(rpa=True) with a stubbed sigma build (random symmetric A, B) vs the quadratic form (X Y)(A B;B A)(X Y)^T"""
    import seqm.seqm_functions.rcis_batch as RB

    g = torch.Generator().manual_seed(5)
    n = 2
    A = torch.rand(n, n, generator=g)
    A = A + A.T
    B = torch.rand(n, n, generator=g)
    B = B + B.T
    saved = RB.matrix_vector_product_batched
    RB.matrix_vector_product_batched = lambda mol, V, w, ea_ei, Cocc, Cvirt, makeB=False: ((V @ A, V @ B) if makeB else V @ A)
    try:
        mol = types.SimpleNamespace(norb=torch.tensor([3]), nocc=torch.tensor([1]), molecular_orbitals=torch.eye(3).unsqueeze(0))
        amp = torch.rand(2, 1, n, generator=g)
        E = RB.calc_cis_energy(mol, None, torch.tensor([[0.0, 1.0, 2.0]]), amp, None, None, rpa=True)
    finally:
        RB.matrix_vector_product_batched = saved
    X, Y = amp[0, 0], amp[1, 0]
    ref = X @ (A @ X + B @ Y) + Y @ (B @ X + A @ Y)
    print("replay RPA energy: code %.8f vs quadratic form %.8f" % (E.item(), ref.item()))
    return abs(E.item() - ref.item()) > 1e-10


@obligation(PID, "c", title="excitation energy re-evaluated for the total energy: CIS w = X.AX, RPA w = X.(AX+BY) + Y.(BX+AY) (the quadratic form of the response matrix), for arbitrary amplitudes and sigma vectors")
def ob_c(ob):
    import seqm.seqm_functions.rcis_batch as RB

    ob.encodes(RB.calc_cis_energy)
    ob.bound("1 molecule, 1 occupied x 2 virtual pair space; amplitudes X, Y and the four sigma vectors AX, BX, AY, BY free symbolic reals (sigma build stubbed by a recorder keyed on its input vector)")
    n = 2
    X, Y = S.reals("X", (1, n)), S.reals("Y", (1, n))
    sig = {}

    def mvp(mol, V, w, ea_ei, Cocc, Cvirt, makeB=False):
        key = "X" if str(V.a.reshape(-1)[0]).startswith("X") else "Y"
        A = S.reals("A" + key, (1, 1, n))
        B = S.reals("B" + key, (1, 1, n))
        sig["A" + key], sig["B" + key] = A, B
        return (SymTensor(A), SymTensor(B)) if makeB else SymTensor(A)

    saved = RB.matrix_vector_product_batched
    RB.matrix_vector_product_batched = mvp
    try:
        mol = types.SimpleNamespace(norb=torch.tensor([3]), nocc=torch.tensor([1]), molecular_orbitals=torch.eye(3).unsqueeze(0))
        emo = torch.tensor([[0.0, 1.0, 2.0]])
        with symbolic_factories():
            Erpa = RB.calc_cis_energy(mol, None, emo, SymTensor(np.stack([X, Y])), None, None, rpa=True)
            Ecis = RB.calc_cis_energy(mol, None, emo, SymTensor(X.copy()), None, None, rpa=False)
    finally:
        RB.matrix_vector_product_batched = saved
    spec_rpa = sum(X[0, k] * (sig["AX"][0, 0, k] + sig["BY"][0, 0, k]) + Y[0, k] * (sig["BX"][0, 0, k] + sig["AY"][0, 0, k]) for k in range(n))
    v, m = smt.prove(Erpa.a.reshape(-1)[0] == spec_rpa, [], "c:RPA quadratic form", "auto", 30)
    if v == "sat":
        if replay_rpa_energy():
            ob.violation("RPA excitation energy re-evaluated for Etot is not X.(AX+BY) + Y.(BX+AY): total energy and autodiff forces of an RPA active state are inconsistent with the reported excitation energy", {"module": "harness.C16", "func": "replay_rpa_energy", "args": {}})
        else:
            raise HarnessError("RPA energy counterexample did not reproduce")
    else:
        ob.verdict(v, "c:RPA")
    # (the CIS call was made last, so sig['AX'] now belongs to it)
    v, m = smt.prove(Ecis.a.reshape(-1)[0] == sum(X[0, k] * sig["AX"][0, 0, k] for k in range(n)), [], "c:CIS quadratic form", "auto", 30)
    ob.verdict(v, "c:CIS")


def replay_guess(nroots, nov):
    from seqm.seqm_functions.rcis_new import make_guess_any_batch

    width = 12  # padded pair-space width of the batch (a larger batch mate), as in the symbolic run
    ea = torch.zeros(len(nov), width)
    for i, k in enumerate(nov):
        ea[i, :k] = torch.arange(1, k + 1) * 0.37 + i * 0.01
        ea[i, k:] = 0.0
    V = torch.zeros(len(nov), 60, width)
    import io, contextlib

    with contextlib.redirect_stdout(io.StringIO()):
        nstart, _, _, _ = make_guess_any_batch(ea, nroots, 60, V, len(nov), torch.tensor(nov))
    bad = [i for i in range(len(nov)) if int(nstart[i]) > nov[i]]
    print("replay start space: nroots=%d pair counts %s -> guess vectors %s" % (nroots, nov, nstart.tolist()))
    return bool(bad)


@obligation(PID, "d", title="Davidson start space of a mixed batch: every molecule gets at most as many unit guess vectors as it has occupied-virtual pairs (no guess on padded pairs)")
def ob_d(ob):
    from seqm.seqm_functions.rcis_new import make_guess_any_batch

    ob.encodes(make_guess_any_batch)
    ob.bound("batch of 2 molecules, requested states in {2,4}; pair counts symbolic integers in [1,12] each (padded width 12), subspace cap 60; paths forked on the integer values by the solver")
    import io, contextlib

    top = 12
    for nroots in ((2, 4) if ob.tier == "quick" else (1, 2, 4, 8)):
        n0, n1 = z3.Int("nov0"), z3.Int("nov1")
        assm = [n0 >= 1, n0 <= top, n1 >= 1, n1 <= top]
        ea = torch.arange(1, 13, dtype=torch.float64).repeat(2, 1) * 0.37

        def fn():
            V = torch.zeros(2, 60, 12)
            nov = SymTensor(np.array([z3.ToReal(n0), z3.ToReal(n1)], dtype=object))
            with contextlib.redirect_stdout(io.StringIO()), symbolic_factories():
                nstart, nper, neff, nmax = make_guess_any_batch(ea, nroots, 60, V, 2, nov)
            return nstart

        ex = Explorer(assumptions=assm, piecewise="ite", kind="auto", max_paths=400)
        res = ex.run(fn)
        ob.paths += ex.paths
        for pc, side, nstart in res:
            ns = nstart.a if isinstance(nstart, SymTensor) else [z3.RealVal(int(x)) for x in nstart]
            for i, nv in enumerate((n0, n1)):
                v, m = smt.prove(S.val(ns[i]) <= z3.ToReal(nv), assm + list(pc), "d:nroots=%d mol %d" % (nroots, i), "auto", 30)
                if v == "sat":
                    nov = [int(str(m.eval(n0, model_completion=True))), int(str(m.eval(n1, model_completion=True)))]
                    if replay_guess(nroots, nov):
                        ob.violation("make_guess_any_batch gives molecule %d more guess vectors than it has occupied-virtual pairs (pair counts %s, %d states): guesses land on padded pairs and show up as spurious zero excitation energies" % (i, nov, nroots), {"module": "harness.C16", "func": "replay_guess", "args": {"nroots": nroots, "nov": nov}})
                    else:
                        raise HarnessError("start-space counterexample did not reproduce (%s)" % nov)
                    return
                ob.verdict(v, "d:guess count")
        ob.sample({"nroots": nroots, "paths": ex.paths})


def replay_rpa_root_selection(done, zero_pad):
    """float64, real rpa_subspace_eig on diagonal model matrices: each active molecule must receive the lowest eigenvalues
    above its OWN zero padding"""
    from seqm.seqm_functions import rpa as R

    nmol, n, nroots = len(done), 6, 2
    lam = torch.tensor([[float((b + 2) * (k + 1)) for k in range(n)] for b in range(nmol)], dtype=torch.float64)
    ApB = torch.diag_embed(lam**2)
    AmB = torch.eye(n, dtype=torch.float64).repeat(nmol, 1, 1)
    ev = torch.zeros(nmol, nroots, dtype=torch.float64)
    R.rpa_subspace_eig(ApB, AmB, nroots, torch.tensor(zero_pad), ev, torch.tensor(done))
    bad = False
    for b in range(nmol):
        if not done[b]:
            want = lam[b, zero_pad[b] : zero_pad[b] + nroots]
            print("replay RPA root selection: molecule %d (zero padding %d) got %s, lowest roots above its padding %s" % (b, zero_pad[b], ev[b].tolist(), want.tolist()))
            bad |= (ev[b] - want).abs().max().item() > 1e-9
    return bad


@obligation(PID, "e", title="RPA subspace step in a batch where some molecules have already converged: every still-active molecule receives the nroots lowest Ritz values above its own count of zero-padded directions (not those of the molecule that happens to share its position in the active list), for every pattern of converged molecules")
def ob_e(ob):
    from seqm.seqm_functions import rpa as R

    ob.encodes(R.rpa_subspace_eig)
    ob.bound("3 molecules, subspace size 5, 2 roots, zero-padding counts (2, 0, 1); every non-empty set of active molecules; the Ritz values w^2 of every active molecule symbolic reals > 1")
    ob.assume("the dense eigen-solver and the matrix square root are recorders (eigenvectors = identity); the amplitude back-transformation that follows is executed but only the selected eigenvalues are checked")
    import itertools

    n, nroots, zp = 5, 2, [2, 0, 1]
    saved = (R.make_sqrt_mat, torch.linalg.eigh)
    try:
        for done in itertools.product((False, True), repeat=3):
            if all(done):
                continue
            S.reset()
            S.ST.sqrt_mode = "canon"
            act = [b for b in range(3) if not done[b]]
            L = np.array([[z3.Real("w2_%d_%d" % (b, k)) for k in range(n)] for b in act], dtype=object)
            assm = [L[j, k] > 1 for j in range(len(act)) for k in range(n)]
            eye = torch.eye(n, dtype=torch.float64)
            R.make_sqrt_mat = lambda A: (eye.repeat(A.shape[0], 1, 1), eye.repeat(A.shape[0], 1, 1), torch.ones(A.shape[0], n, dtype=torch.float64))
            torch.linalg.eigh = lambda H, *a, **k: (SymTensor(L.copy()), eye.repeat(len(act), 1, 1))

            def fn():
                ev = SymTensor(np.full((3, nroots), z3.RealVal(1), dtype=object))
                with symbolic_factories():
                    R.rpa_subspace_eig(eye.repeat(3, 1, 1), eye.repeat(3, 1, 1), nroots, torch.tensor(zp), ev, torch.tensor(done))
                return ev.a.copy()

            ex = Explorer(assumptions=assm, piecewise="ite", kind="nra", max_paths=20)
            res = ex.run(fn)
            ob.paths += ex.paths
            ob.require(len(res) >= 1, "no feasible path through rpa_subspace_eig for done=%s" % (done,))
            for pc, side, ev in res:
                S.ST.side[:] = side
                base = assm + list(pc)
                for j, b in enumerate(act):
                    for r in range(nroots):
                        lab = "e:done=%s molecule %d root %d" % (done, b, r)
                        v, m = smt.prove(z3.And(ev[b, r] >= 0, ev[b, r] * ev[b, r] == L[j, zp[b] + r]), base, lab, "nra", 60)
                        if v == "sat":
                            R.make_sqrt_mat, torch.linalg.eigh = saved  # the replay runs the unstubbed function
                            if replay_rpa_root_selection(list(done), zp):
                                ob.violation("rpa_subspace_eig with converged pattern %s: molecule %d does not receive the lowest roots above its own zero padding (roots skipped or zero 'states' returned; RPA can then exceed CIS and depend on batch order)" % (done, b), {"module": "harness.C16", "func": "replay_rpa_root_selection", "args": {"done": list(done), "zero_pad": zp}})
                                return
                            raise HarnessError("RPA root-selection counterexample did not reproduce (%s)" % lab)
                        ob.verdict(v, lab)
    finally:
        R.make_sqrt_mat, torch.linalg.eigh = saved
        S.ST.sqrt_mode = "plain"
    x, y = z3.Reals("x y")
    expect_refuted(ob, x == y, [x > 1, y > 1], "twin: another molecule's Ritz value is distinguishable", "nra")


def _g_reference(nat, R, pairs, w, gpar, xfac):
    """G[R]_{mu nu} = sum_{la si} R_{la si} [ (mu nu|la si) - xfac (mu la|nu si) ] for a general (non-symmetric) R with
    NDDO integrals: one-centre from gpar, two-centre (AA|BB) from packed w[p][kl(A), kl(B)] (A = first atom of the pair)"""
    from .C06 import one_center_eri, PK

    n = 4 * nat
    eri = {}
    for A in range(nat):
        T = one_center_eri(gpar[A])
        for (mu, nu, la, si), v in T.items():
            if not isinstance(v, int):
                eri[(4 * A + mu, 4 * A + nu, 4 * A + la, 4 * A + si)] = v
    for p, (A, B) in enumerate(pairs):
        for mu in range(4):
            for nu in range(4):
                for la in range(4):
                    for si in range(4):
                        v = w[p][PK[(mu, nu)]][PK[(la, si)]]
                        eri[(4 * A + mu, 4 * A + nu, 4 * B + la, 4 * B + si)] = v
                        eri[(4 * B + la, 4 * B + si, 4 * A + mu, 4 * A + nu)] = v
    G = np.full((n, n), z3.RealVal(0), dtype=object)
    for (a, b, c, d), v in eri.items():
        if z3.is_rational_value(v) and v.as_fraction() == 0:
            continue
        G[a, b] = G[a, b] + R[c][d] * v  # Coulomb: (ab|cd) R_cd
        G[a, c] = G[a, c] - xfac * R[b][d] * v  # exchange: (a b|c d) contributes to G_{a c} with R_{b d}
    return G


def replay_sigma_build():
    """float64: real makeA_pi_batched on formaldehyde-like O-C-H with the real integrals and a random non-symmetric
    transition density vs the dense 4-index contraction"""
    from seqm.seqm_functions.rcis_batch import makeA_pi_batched
    from seqm.seqm_functions.hcore import hcore
    from .common import molecule, quiet
    from .C06 import one_center_eri, PK

    species = [[8, 6, 1]]
    coords = [[[0.0, 0.0, 0.0], [1.2, 0.1, 0.05], [1.8, 0.95, 0.1]]]
    mol, p, const = molecule(species, coords, "AM1", charges=torch.tensor([1.0]))
    with quiet():
        M, w, *_ = hcore(mol)
    norb = int(mol.norb[0])
    g = torch.Generator().manual_seed(4)
    R = torch.rand(1, 1, norb, norb, generator=g, dtype=w.dtype) - 0.5
    F = makeA_pi_batched(mol, R.clone(), w)[0, 0]
    phys = [0, 1, 2, 3, 4, 5, 6, 7, 8]
    n = 12
    Rf = [[0.0] * n for _ in range(n)]
    for i, a in enumerate(phys):
        for j, b in enumerate(phys):
            Rf[a][b] = R[0, 0, i, j].item()
    pr = mol.parameters
    gpar = [{"gss": pr["g_ss"][a].item(), "gsp": pr["g_sp"][a].item(), "gpp": pr["g_pp"][a].item(), "gp2": pr["g_p2"][a].item(), "hsp": pr["h_sp"][a].item()} for a in range(3)]
    pairs = [(int(i), int(j)) for i, j in zip(mol.idxi, mol.idxj)]
    wl = w.tolist()
    G = [[0.0] * n for _ in range(n)]
    eri = {}
    for A in range(3):
        for k_, v in one_center_eri(gpar[A]).items():
            if not isinstance(v, int):
                eri[tuple(4 * A + x for x in k_)] = v
    for pi, (A, B) in enumerate(pairs):
        for mu in range(4):
            for nu in range(4):
                for la in range(4):
                    for si in range(4):
                        v = wl[pi][PK[(mu, nu)]][PK[(la, si)]]
                        eri[(4 * A + mu, 4 * A + nu, 4 * B + la, 4 * B + si)] = v
                        eri[(4 * B + la, 4 * B + si, 4 * A + mu, 4 * A + nu)] = v
    for (a, b, c, d), v in eri.items():
        G[a][b] += Rf[c][d] * v
        G[a][c] -= 0.5 * Rf[b][d] * v
    worst = max(abs(F[i, j].item() - G[a][b]) for i, a in enumerate(phys) for j, b in enumerate(phys))
    print("replay sigma build: max |makeA_pi_batched - dense (mu nu|la si) contraction| = %.3e" % worst)
    return worst > 1e-9


@obligation(PID, "a", title="sigma build: the matrix-free contraction of a transition density with the two-electron integrals (makeA_pi_batched: symmetric and antisymmetric parts, Coulomb, exchange, one-centre terms) equals sum_{la si} R_{la si} [(mu nu|la si) - 1/2 (mu la|nu si)] of the NDDO definition, element by element, for an arbitrary non-symmetric R, arbitrary two-centre integrals and one-centre parameters")
def ob_a(ob):
    from seqm.seqm_functions import rcis_batch as RB
    from .C06 import _setup_fock, PK

    ob.encodes(RB.makeA_pi_batched, RB.makeA_pi_symm_batch, RB.unpackone_batch, RB.packone_batch)
    ob.bound("one molecule O-C-H (9 orbitals: heavy-heavy, heavy-hydrogen pairs), one trial vector; all 81 entries of R, the two-centre integrals w (with the zero structure of real integrals) and the five one-centre parameters per atom symbolic; index maps from the real Parser")
    species = [[8, 6, 1]]
    mol, const, Z, natoms, npairs, n, phys, w, g = _setup_fock(species)
    norb = len(phys[0])
    Rp = S.reals("R", (norb, norb))
    Rfull = [[z3.RealVal(0)] * n for _ in range(n)]
    for i, a in enumerate(phys[0]):
        for j, b in enumerate(phys[0]):
            Rfull[a][b] = Rp[i, j]
    par = dict(mol.parameters)
    par.update({"g_ss": SymTensor(g["gss"].copy()), "g_sp": SymTensor(g["gsp"].copy()), "g_pp": SymTensor(g["gpp"].copy()), "g_p2": SymTensor(g["gp2"].copy()), "h_sp": SymTensor(g["hsp"].copy())})
    ns = types.SimpleNamespace(molsize=3, nmol=1, mask=mol.mask, maskd=mol.maskd, mask_l=mol.mask_l, idxi=mol.idxi, idxj=mol.idxj, nHeavy=mol.nHeavy, nHydro=mol.nHydro, norb=mol.norb, parameters=par)
    with symbolic_factories():
        F = RB.makeA_pi_batched(ns, SymTensor(Rp.copy().reshape(1, 1, norb, norb)), SymTensor(w.copy()))
    F = F.a.reshape(norb, norb)
    gpar = [{k: g[k][a] for k in ("gss", "gsp", "gpp", "gp2", "hsp")} for a in range(natoms)]
    pairs = [(int(i), int(j)) for i, j in zip(mol.idxi, mol.idxj)]
    G = _g_reference(natoms, Rfull, pairs, w, gpar, z3.RealVal("1/2"))
    for i, a in enumerate(phys[0]):
        for j, b in enumerate(phys[0]):
            lab = "a:element (%d,%d)" % (a, b)
            v, m = smt.prove(F[i, j] == G[a, b], [], lab, "auto", 60)
            if v == "sat":
                if replay_sigma_build():
                    ob.violation("makeA_pi_batched: element (%d,%d) of the contracted matrix is not sum R[(mu nu|la si) - 1/2 (mu la|nu si)] (CIS/RPA sigma vectors, hence excitation energies and amplitudes, are built from a wrong A matrix)" % (a, b), {"module": "harness.C16", "func": "replay_sigma_build", "args": {}})
                    return
                raise HarnessError("sigma-build counterexample did not reproduce (%s)" % lab)
            ob.verdict(v, lab)
    x, y = z3.Reals("x y")
    expect_refuted(ob, x - y / 2 == x - y, [y != 0], "twin: a wrong exchange factor is noticed", "lra")


def replay_chunked_sigma():
    """float64: real matrix_vector_product_batched with the memory estimate forced to 'chunk over roots' vs the one-shot
    branch, formaldehyde-like O-C-H with real integrals and random trial vectors"""
    from seqm.seqm_functions import rcis_batch as RB
    from seqm.seqm_functions.hcore import hcore
    from .common import molecule, quiet

    mol, p, const = molecule([[8, 6, 1]], [[[0.0, 0.0, 0.0], [1.2, 0.1, 0.05], [1.8, 0.95, 0.1]]], "AM1", charges=torch.tensor([1.0]))
    with quiet():
        M, w, *_ = hcore(mol)
    g = torch.Generator().manual_seed(6)
    norb, nocc, nvirt, nroots = 9, 4, 5, 3
    C = torch.linalg.qr(torch.rand(norb, norb, generator=g, dtype=w.dtype))[0].unsqueeze(0)
    V = torch.rand(1, nroots, nocc * nvirt, generator=g, dtype=w.dtype) - 0.5
    ea = torch.rand(1, nocc, nvirt, generator=g, dtype=w.dtype)
    saved = RB.getMemUse
    res = []
    try:
        for chunk in (False, True):
            RB.getMemUse = lambda *a, **k: (chunk, 1)
            res.append(RB.matrix_vector_product_batched(mol, V.clone(), w, ea, C[:, :, :nocc], C[:, :, nocc:], makeB=True))
    finally:
        RB.getMemUse = saved
    d = max((res[0][0] - res[1][0]).abs().max().item(), (res[0][1] - res[1][1]).abs().max().item())
    print("replay sigma vectors, chunked over roots vs one shot: max difference %.3e" % d)
    return d > 1e-9


@obligation(PID, "f", title="sigma vectors do not depend on how the work is split: matrix_vector_product_batched returns the same A V (and B V) whether all trial vectors are contracted at once or in chunks chosen by the memory estimate — for arbitrary trial vectors, integrals, one-centre parameters and orbital-energy differences")
def ob_f(ob):
    from seqm.seqm_functions import rcis_batch as RB
    from .C06 import _setup_fock

    ob.encodes(RB.matrix_vector_product_batched, RB.makeA_pi_batched)
    ob.bound("one molecule O-C-H (9 orbitals, 2 occupied x 2 virtual in the model), 2 trial vectors, chunk size 1; trial vectors, two-centre integrals, one-centre parameters and orbital-energy differences symbolic; orbital coefficients small integers (the identity does not need orthonormal orbitals)")
    ob.assume("the memory estimate getMemUse is replaced by the two answers it can give")
    species = [[8, 6, 1]]
    mol, const, Z, natoms, npairs, n, phys, w, g = _setup_fock(species)
    norb, nocc, nvirt, nroots = len(phys[0]), 2, 2, 2
    par = dict(mol.parameters)
    par.update({"g_ss": SymTensor(g["gss"].copy()), "g_sp": SymTensor(g["gsp"].copy()), "g_pp": SymTensor(g["gpp"].copy()), "g_p2": SymTensor(g["gp2"].copy()), "h_sp": SymTensor(g["hsp"].copy())})
    ns = types.SimpleNamespace(molsize=3, nmol=1, mask=mol.mask, maskd=mol.maskd, mask_l=mol.mask_l, idxi=mol.idxi, idxj=mol.idxj, nHeavy=mol.nHeavy, nHydro=mol.nHydro, norb=mol.norb, parameters=par)
    gen = torch.Generator().manual_seed(9)
    Cocc = torch.randint(-2, 3, (1, norb, nocc), generator=gen).double()
    Cvirt = torch.randint(-2, 3, (1, norb, nvirt), generator=gen).double()
    V = S.reals("v", (1, nroots, nocc * nvirt))
    ea = S.reals("de", (1, nocc, nvirt))
    saved = RB.getMemUse
    out = []
    try:
        for chunk in (False, True):
            RB.getMemUse = lambda *a, **k: (chunk, 1)
            with symbolic_factories():
                A, B = RB.matrix_vector_product_batched(ns, SymTensor(V.copy()), SymTensor(w.copy()), SymTensor(ea.copy()), Cocc, Cvirt, makeB=True)
            out.append((A.a.copy(), B.a.copy()))
    finally:
        RB.getMemUse = saved
    for which, idx_ in (("A", 0), ("B", 1)):
        X0, X1 = out[0][idx_].reshape(-1), out[1][idx_].reshape(-1)
        ob.require(X0.shape == X1.shape, "chunked and one-shot results have different shapes")
        for k in range(X0.size):
            lab = "f:%s V element %d" % (which, k)
            v, m = smt.prove(X0[k] == X1[k], [], lab, "auto", 60)
            if v == "sat":
                if replay_chunked_sigma():
                    ob.violation("matrix_vector_product_batched: the %s-matrix sigma vector computed in chunks over the trial vectors differs from the one-shot result (CIS/RPA answers depend on free memory)" % which, {"module": "harness.C16", "func": "replay_chunked_sigma", "args": {}})
                    return
                raise HarnessError("chunked sigma-build counterexample did not reproduce (%s)" % lab)
            ob.verdict(v, lab)
    x, y = z3.Reals("x y")
    expect_refuted(ob, x == y, [], "twin: a transposed contraction is distinguishable", "lra")
