"""Recording environment for the seed logic of Molecular_Dynamics_*.run (used concretely and under CrossHair)."""
import io
import contextlib
import types

import torch

import seqm.MolecularDynamics as MD

_EV = []
_STATE = {}


class _Stop(BaseException):
    pass


class _Facade:
    def __init__(self):
        self.cuda = types.SimpleNamespace(manual_seed_all=lambda s: None, is_available=lambda: False, empty_cache=lambda: None, synchronize=lambda: None, get_rng_state_all=lambda: None)

    def manual_seed(self, s):
        _EV.append(("seed", s))

    def randn_like(self, x, **k):
        _EV.append(("draw", "randn_like"))
        return torch.zeros_like(x)

    def __getattr__(self, n):
        return getattr(torch, n)


class _ES(torch.nn.Module):
    def __init__(self, *a, **k):
        super().__init__()
        self.conservative_force = types.SimpleNamespace(energy=types.SimpleNamespace(md=False, excited_states=None))
        self.device = torch.device("cpu")

    def forward(self, molecule, *a, **k):
        molecule.force = torch.zeros_like(molecule.coordinates)


def warm():
    if _STATE:
        return
    MD.esdriver = _ES
    MD.torch = _Facade()
    out = {"molid": [0], "prefix": "/nonexistent/x", "print every": 0, "checkpoint every": 0, "xyz": 0, "h5": {}}
    p = {"method": "AM1"}
    _STATE["basic"] = MD.Molecular_Dynamics_Basic(seqm_parameters=p, timestep=0.5, Temp=300.0, output=dict(out))
    _STATE["langevin"] = MD.Molecular_Dynamics_Langevin(damp=20.0, seqm_parameters=p, timestep=0.5, Temp=300.0, output=dict(out))

    def init(self, molecule, *a, **k):
        _EV.append(("initialize",))
        raise _Stop()

    MD.Molecular_Dynamics_Basic.initialize = init
    MD.Molecular_Dynamics_Langevin.initialize = init


def events(seed, preset, engine="basic"):
    warm()
    del _EV[:]
    md = _STATE[engine]
    mol = types.SimpleNamespace(coordinates=torch.zeros(1, 2, 3), velocities=(torch.zeros(1, 2, 3) if preset else None), dm=None, cis_amplitudes=None)
    try:
        with contextlib.redirect_stdout(io.StringIO()):
            md.run(mol, 2, seed=seed)
    except _Stop:
        pass
    return list(_EV)
