"""SCF drivers under partial convergence (C03/C04/C05): the real scf_forward0/1/2 loops are run on a 3-molecule batch whose
Fock build, density step and convergence test are replaced by recorders.  The convergence schedule (the iteration at which
each molecule converges) is the symbolic input (CrossHair ints); the recorder checks, at every density step, that the rows
handed over for the still-active molecules all belong to the same molecules: Fock matrix, the three atom counts and the
occupation number of molecule b travel together."""
import io
import contextlib

import torch


def bookkeeping_violations(driver, c0, c1, c2, maxit=8):
    """driver in {0: fixed mixing, 1: adaptive mixing, 2: adaptive + Pulay}; molecule b converges at iteration c_b (counted
    in calls of the convergence test).  Returns a list of inconsistencies seen by the density-step recorder."""
    from seqm.seqm_functions import scf_loop as SL

    nmol, molsize, n = 3, 1, 4
    cs = (c0, c1, c2)
    tag = torch.tensor([1.0, 2.0, 3.0], dtype=torch.float64)  # molecule b is recognisable by b+1 in every per-molecule input
    nSH = torch.tensor([0, 0, 0])
    nHv = torch.tensor([11, 12, 13])
    nHy = torch.tensor([21, 22, 23])
    nOcc = torch.tensor([31, 32, 33])
    Hc = torch.eye(n, dtype=torch.float64).repeat(nmol, 1, 1) * tag.view(-1, 1, 1)
    P0 = torch.eye(n, dtype=torch.float64).repeat(nmol, 1, 1) * (0.1 * tag).view(-1, 1, 1)
    bad = []
    calls = [0]
    active_log = []

    def fock(nmol_, molsize_, P, M, *a):
        return Hc + 0.25 * P

    def factory(*a, **k):
        def mk(F, a_sh, a_hv, a_hy, a_occ):
            rows = [int(round(float(F[i, 0, 0] - 0.25 * 0) // 1)) for i in range(F.shape[0])]  # diag entry = tag + small
            ids_F = [int(float(F[i, 0, 0])) for i in range(F.shape[0])]
            ids = {"nHeavy": [int(x) - 10 for x in a_hv], "nHydro": [int(x) - 20 for x in a_hy], "nOccMO": [int(x) - 30 for x in a_occ]}
            for name, got in ids.items():
                if got != ids_F:
                    bad.append("density step %d: Fock rows of molecules %s arrive with %s of molecules %s" % (len(active_log), ids_F, name, got))
            active_log.append(ids_F)
            return 0.5 * F / F[:, :1, :1] * 0.2 + 0.0 * F  # a bounded, molecule-independent map keeps diag(F) within (tag, tag+1)

        return mk

    def get_error(Pold, P, notconverged, *a, **k):
        calls[0] += 1
        nc = torch.tensor([bool(notconverged[b]) and bool(calls[0] < cs[b]) for b in range(nmol)])
        return nc, 0.0, 0.0

    saved = {k: getattr(SL, k) for k in ("fock_restricted", "make_Pnew_factory", "get_error", "reshape_Hcore", "MAX_ITER")}
    SL.fock_restricted = fock
    SL.make_Pnew_factory = factory
    SL.get_error = get_error
    SL.reshape_Hcore = lambda M, nmol_, molsize_, method: Hc
    SL.MAX_ITER = maxit
    args = (Hc.clone(), None, None, None, None, None, None, None, nHy, nHv, nSH, nOcc, nmol, molsize, None, None, None, None, P0.clone(), torch.tensor(1e-6, dtype=torch.float64), "AM1", None, None, None, None, None, None)
    try:
        with contextlib.redirect_stdout(io.StringIO()):
            if driver == 0:
                P, nc = SL.scf_forward0(*args, sp2=[False], scf_converger=[0, 0.3], unrestricted=False, backward=False, verbose=False)
            elif driver == 1:
                P, nc = SL.scf_forward1(*args, sp2=[False], scf_converger=[1, 0.0, 0.0, 1], unrestricted=False, backward=False, verbose=False)
            else:
                P, nc = SL.scf_forward2(*args, sp2=[False], backward=False, verbose=False)
    except Exception as ex:  # noqa
        bad.append("driver raised %s: %s" % (type(ex).__name__, str(ex)[:160]))
        P, nc = None, None
    finally:
        for k, v in saved.items():
            setattr(SL, k, v)
    if nc is not None:
        for b in range(nmol):
            if bool(nc[b]) != bool(cs[b] > calls[0]):
                bad.append("molecule %d: reported notconverged=%s although its convergence iteration is %d and %d tests were made" % (b, bool(nc[b]), cs[b], calls[0]))
    return bad


# ---- unrolled derivative of the SCF drivers (C07.g) ---------------------------------------------------------------------------
# scf_backward = 2 differentiates the SCF loop itself.  The loop is run on dual numbers whose tangents follow torch's tape
# (engine grad model: detach() and everything computed or stored under torch.no_grad() carries no tangent): values are concrete,
# the tangent direction dH of the Hamiltonian is symbolic.  With a linear contraction standing in for Fock build and density
# step the converged density and its derivative are known in closed form: P* = (c1 H + c0)/(1 - c1 g), dP* = c1 dH/(1 - c1 g).
# Mixing heuristics that are deliberately kept off the tape (FAC, DIIS coefficients) do not change that limit; a tensor on the
# value path that is detached or written under no_grad does.


def unrolled_derivative(driver, iters=18):
    """returns (tangent of the returned density, exact derivative of the fixed point, symbols) as object arrays of z3 terms"""
    import numpy as np
    import z3
    from fractions import Fraction
    from engine import symtorch as S
    from engine.symtorch import SymTensor, Dual, symbolic_factories
    from seqm.seqm_functions import scf_loop as SL

    n, gam, c1 = 4, Fraction(1, 5), Fraction(1, 2)
    H0 = np.array([[z3.Real("dH_%d_%d" % (min(i, j), max(i, j))) for j in range(n)] for i in range(n)], dtype=object)
    Hv = [[Fraction(3 + (i == j) * 2 + ((i + 2 * j) % 3), 10) for j in range(n)] for i in range(n)]
    Hv = [[Hv[min(i, j)][max(i, j)] for j in range(n)] for i in range(n)]
    # density step P = a*1 + c1*F commutes with the Fock matrix it is built from (like a real density), so the DIIS error
    # [F(P), P] measures the distance from self-consistency and vanishes at the fixed point; the start density does not
    # commute with H
    c0 = [[Fraction(6, 10) if i == j else Fraction(0) for j in range(n)] for i in range(n)]
    S.reset()
    S.ST.dual_n = 1
    S.ST.grad_model = True
    saved = {k: getattr(SL, k) for k in ("fock_restricted", "make_Pnew_factory", "get_error", "reshape_Hcore", "compute_fac", "elec_energy", "MAX_ITER")}
    saved_eigh = torch.linalg.eigh
    calls = [0]
    try:
        Hc = SymTensor(np.array([[[Dual(S.rv(Hv[i][j]), (H0[i, j],)) for j in range(n)] for i in range(n)]], dtype=object))
        C0 = SymTensor(np.array([[[S.rv(c0[i][j]) for j in range(n)] for i in range(n)]], dtype=object))
        P0 = SymTensor(np.array([[[S.rv(Fraction(1, 2) + Fraction(i, 10) if i == j else Fraction(1 + ((i * j + i + j) % 4), 20)) for j in range(n)] for i in range(n)]], dtype=object))

        def fock(nmol_, molsize_, P, M, *a):
            return Hc + P * S.rv(gam)

        def factory(*a, **k):
            return lambda F, *b: F * S.rv(c1) + C0[: F.shape[0]]

        def get_error(Pold, P, notconverged, *a, **k):
            calls[0] += 1
            return torch.tensor([calls[0] < iters]), 0.0, 0.0

        def _num(e):
            z = z3.simplify(S.val(e))
            if z3.is_rational_value(z):
                return float(z.as_fraction())
            raise ValueError("SCF iterate is not a concrete number: %s" % str(z)[:80])

        def to_np(t):
            return np.vectorize(_num, otypes=[float])(t.a) if isinstance(t, SymTensor) else np.asarray(t, dtype=float)

        def fac(a, b, c):
            # the extrapolation factor is a heuristic computed under no_grad (off the tape by design): evaluated in floats
            # with the code's own formula
            a, b, c = to_np(a), to_np(b), to_np(c)
            num = ((a - b) ** 2).sum(axis=1)
            den = ((a - 2.0 * b + c) ** 2).sum(axis=1)
            out = np.zeros_like(num)
            ok = (den > 0) & (num < 100.0 * den)
            out[ok] = np.sqrt(num[ok] / den[ok])
            return SymTensor(np.array([S.rv(Fraction(float(x)).limit_denominator(10**9)) for x in out], dtype=object))

        SL.compute_fac = fac

        def eigh(A, *a, **k):
            # DIIS coefficients come from an eigen-decomposition under no_grad (off the tape by design): done in floats
            L, Q = np.linalg.eigh(to_np(A))
            L = np.where(np.abs(L) < 1e-200, 1e-200, L)  # an exact zero would make the condition number x/0 (inf in floats, i.e. "reset DIIS"); keep it finite and huge
            conv = np.vectorize(lambda x: S.rv(Fraction(float(x)).limit_denominator(10**12)), otypes=[object])
            convL = np.vectorize(lambda x: S.rv(float(x)), otypes=[object])  # exact float: tiny values must not collapse to 0
            return SymTensor(convL(L)), SymTensor(conv(Q))

        torch.linalg.eigh = eigh
        SL.fock_restricted = fock
        SL.make_Pnew_factory = factory
        SL.get_error = get_error
        SL.reshape_Hcore = lambda M, nmol_, molsize_, method: Hc
        SL.elec_energy = lambda P, F, H: SymTensor(np.array([S.rv(0)] * P.shape[0], dtype=object))
        SL.MAX_ITER = iters + 5
        args = (Hc, None, None, None, None, None, None, None, torch.tensor([0]), torch.tensor([1]), torch.tensor([0]), torch.tensor([2]), 1, 1, None, None, None, None, P0, torch.tensor(1e-6, dtype=torch.float64), "AM1", None, None, None, None, None, None)
        with torch.enable_grad(), symbolic_factories(), contextlib.redirect_stdout(io.StringIO()):
            if driver == 0:
                P, nc = SL.scf_forward0(*args, sp2=[False], scf_converger=[0, 0.3], unrestricted=False, backward=True, verbose=False)
            elif driver == 1:
                P, nc = SL.scf_forward1(*args, sp2=[False], scf_converger=[1, 0.0, 0.0, 1], unrestricted=False, backward=True, verbose=False)
            else:
                P, nc = SL.scf_forward2(*args, sp2=[False], backward=True, verbose=False)
    finally:
        for k, v in saved.items():
            setattr(SL, k, v)
        torch.linalg.eigh = saved_eigh
        S.ST.dual_n = 0
        S.ST.grad_model = False
    tan = np.empty((n, n), dtype=object)
    val = np.empty((n, n), dtype=object)
    exact = np.empty((n, n), dtype=object)
    for i in range(n):
        for j in range(n):
            e = P.a[0, i, j]
            tan[i, j] = e.t[0] if isinstance(e, Dual) else z3.RealVal(0)
            val[i, j] = S.val(e)
            exact[i, j] = S.rv(c1 / (1 - c1 * gam)) * H0[i, j]
    fixed = [[(c1 * Hv[i][j] + c0[i][j]) / (1 - c1 * gam) for j in range(n)] for i in range(n)]
    return tan, exact, val, fixed, H0


def ksa_violations(c0, c1, c2, maxit=9):
    """KSA driver (scf_forward3) on a batch of three molecules of different size (9, 6 and 5 orbitals) with recorder callees
    that reproduce the SHAPES of the real ones: the finite-temperature density step packs the molecules it is given to the
    size of the largest of them.  Molecule b converges at iteration c_b.  Returns a list of problems (exceptions raised by
    the driver, misaligned per-molecule inputs, wrong convergence flags)."""
    from seqm.seqm_functions import scf_loop as SL

    nmol, molsize = 3, 3
    N = 4 * molsize
    cs = (c0, c1, c2)
    nHv = torch.tensor([2, 1, 1])
    nHy = torch.tensor([1, 2, 1])
    nOcc = torch.tensor([4, 3, 2])
    tag = torch.tensor([1.0, 2.0, 3.0], dtype=torch.float64)
    Hc = torch.eye(N, dtype=torch.float64).repeat(nmol, 1, 1) * tag.view(-1, 1, 1)
    g = torch.Generator().manual_seed(5)
    R = torch.rand(N, N, generator=g, dtype=torch.float64)
    R = 0.1 * (R + R.T)
    P0 = (0.2 * torch.eye(N, dtype=torch.float64) + R).repeat(nmol, 1, 1) * (1 + 0.1 * tag).view(-1, 1, 1)
    bad = []
    it = [0]

    def ids_of(X):
        return [int(round(float(X[i, 0, 0]))) for i in range(X.shape[0])]

    def fock(nmol_, molsize_, P, M, *a):
        return Hc + 0.01 * (P - P.diagonal(dim1=1, dim2=2).diag_embed())  # the (0,0) element keeps the molecule's tag

    def fermi(F, T, occ, hv, hy, kB, scf_backward=0):
        B = F.shape[0]
        ids = ids_of(F)
        want = [(int(nHv[i - 1]), int(nHy[i - 1]), int(nOcc[i - 1])) for i in ids]
        got = [(int(a), int(b), int(c)) for a, b, c in zip(hv, hy, occ)]
        if got != want:
            bad.append("density step: Fock rows of molecules %s arrive with the atom/occupation counts %s" % (ids, got))
        Mw = int((4 * hv + hy).max())  # packed width = largest molecule of the sub-batch
        D = 0.5 * F + 0.05 * torch.ones_like(F)
        t = torch.tensor([float(i) for i in ids], dtype=torch.float64)
        return (D, t.clone(), torch.eye(Mw, dtype=torch.float64).repeat(B, 1, 1), t.view(-1, 1).repeat(1, Mw), 0.5 * torch.ones(B, Mw, dtype=torch.float64), t.view(-1, 1).clone(), torch.ones(B, Mw, dtype=torch.float64))

    def canon(FO1, T, hv, hy, QQ, e, mu0, niter, kB, Occ_mask):
        if not (QQ.shape[0] == FO1.shape[0] == e.shape[0] == Occ_mask.shape[0]):
            bad.append("response step: operands of different batch size")
        return 0.3 * FO1.transpose(1, 2) + 0.02 * FO1

    def energy(P, F, H):
        it[0] += 1
        out = []
        for i in ids_of(H):
            out.append(5.0 if it[0] >= cs[i - 1] else 10.0 + it[0])
        return torch.tensor(out, dtype=torch.float64)

    saved = {k: getattr(SL, k) for k in ("fock_restricted", "Fermi_Q", "Canon_DM_PRT", "G", "elec_energy", "reshape_Hcore", "MAX_ITER")}
    SL.fock_restricted = fock
    SL.Fermi_Q = fermi
    SL.Canon_DM_PRT = canon
    SL.G = lambda nmol_, molsize_, dD, *a: 0.5 * dD
    SL.elec_energy = energy
    SL.reshape_Hcore = lambda M, nmol_, molsize_, method: Hc
    SL.MAX_ITER = maxit
    P = nc = None
    try:
        with contextlib.redirect_stdout(io.StringIO()):
            P, nc = SL.scf_forward3(Hc.clone(), None, None, None, None, None, None, None, nHy, nHv, torch.tensor([0, 0, 0]), nOcc, nmol, molsize, None, None, None, None, P0.clone(), torch.tensor(1e-6, dtype=torch.float64), "AM1", None, None, None, None, None, None, {"max_rank": 2, "err_threshold": 0.0, "T_el": 1500.0}, backward=False, verbose=False)
    except Exception as ex:  # noqa
        bad.append("KSA driver raised %s: %s" % (type(ex).__name__, str(ex)[:160]))
    finally:
        for k, v in saved.items():
            setattr(SL, k, v)
    if nc is not None:
        for b in range(nmol):
            # molecule b is converged from iteration c_b + 1 on (its model energy stops changing)
            if bool(nc[b]) != bool(cs[b] + 1 > it[0]):
                bad.append("molecule %d: reported notconverged=%s after %d iterations although it converges at iteration %d" % (b, bool(nc[b]), it[0], cs[b] + 1))
    return bad
