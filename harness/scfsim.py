"""SCF drivers under partial convergence (C03/C04/C05): the real scf_forward0/1/2 loops are run on a 3-molecule batch whose
Fock build, density step and convergence test are replaced by recorders.  The convergence schedule (the iteration at which
each molecule converges) is the symbolic input (CrossHair ints); the recorder checks, at every density step, that the rows
handed over for the still-active molecules all belong to the same molecules: Fock matrix, the three atom counts and the
occupation number of molecule b travel together."""
import io
import contextlib

import torch


def bookkeeping_violations(driver, c0, c1, c2, maxit=8):
    """driver in {0: fixed mixing, 1: adaptive mixing, 2: adaptive + Pulay}; molecule b converges at iteration c_b (counted
    in calls of the convergence test).  Returns a list of inconsistencies seen by the density-step recorder."""
    from seqm.seqm_functions import scf_loop as SL

    nmol, molsize, n = 3, 1, 4
    cs = (c0, c1, c2)
    tag = torch.tensor([1.0, 2.0, 3.0], dtype=torch.float64)  # molecule b is recognisable by b+1 in every per-molecule input
    nSH = torch.tensor([0, 0, 0])
    nHv = torch.tensor([11, 12, 13])
    nHy = torch.tensor([21, 22, 23])
    nOcc = torch.tensor([31, 32, 33])
    Hc = torch.eye(n, dtype=torch.float64).repeat(nmol, 1, 1) * tag.view(-1, 1, 1)
    P0 = torch.eye(n, dtype=torch.float64).repeat(nmol, 1, 1) * (0.1 * tag).view(-1, 1, 1)
    bad = []
    calls = [0]
    active_log = []

    def fock(nmol_, molsize_, P, M, *a):
        return Hc + 0.25 * P

    def factory(*a, **k):
        def mk(F, a_sh, a_hv, a_hy, a_occ):
            rows = [int(round(float(F[i, 0, 0] - 0.25 * 0) // 1)) for i in range(F.shape[0])]  # diag entry = tag + small
            ids_F = [int(float(F[i, 0, 0])) for i in range(F.shape[0])]
            ids = {"nHeavy": [int(x) - 10 for x in a_hv], "nHydro": [int(x) - 20 for x in a_hy], "nOccMO": [int(x) - 30 for x in a_occ]}
            for name, got in ids.items():
                if got != ids_F:
                    bad.append("density step %d: Fock rows of molecules %s arrive with %s of molecules %s" % (len(active_log), ids_F, name, got))
            active_log.append(ids_F)
            return 0.5 * F / F[:, :1, :1] * 0.2 + 0.0 * F  # a bounded, molecule-independent map keeps diag(F) within (tag, tag+1)

        return mk

    def get_error(Pold, P, notconverged, *a, **k):
        calls[0] += 1
        nc = torch.tensor([bool(notconverged[b]) and bool(calls[0] < cs[b]) for b in range(nmol)])
        return nc, 0.0, 0.0

    saved = {k: getattr(SL, k) for k in ("fock_restricted", "make_Pnew_factory", "get_error", "reshape_Hcore", "MAX_ITER")}
    SL.fock_restricted = fock
    SL.make_Pnew_factory = factory
    SL.get_error = get_error
    SL.reshape_Hcore = lambda M, nmol_, molsize_, method: Hc
    SL.MAX_ITER = maxit
    args = (Hc.clone(), None, None, None, None, None, None, None, nHy, nHv, nSH, nOcc, nmol, molsize, None, None, None, None, P0.clone(), torch.tensor(1e-6, dtype=torch.float64), "AM1", None, None, None, None, None, None)
    try:
        with contextlib.redirect_stdout(io.StringIO()):
            if driver == 0:
                P, nc = SL.scf_forward0(*args, sp2=[False], scf_converger=[0, 0.3], unrestricted=False, backward=False, verbose=False)
            elif driver == 1:
                P, nc = SL.scf_forward1(*args, sp2=[False], scf_converger=[1, 0.0, 0.0, 1], unrestricted=False, backward=False, verbose=False)
            else:
                P, nc = SL.scf_forward2(*args, sp2=[False], backward=False, verbose=False)
    except Exception as ex:  # noqa
        bad.append("driver raised %s: %s" % (type(ex).__name__, str(ex)[:160]))
        P, nc = None, None
    finally:
        for k, v in saved.items():
            setattr(SL, k, v)
    if nc is not None:
        for b in range(nmol):
            if bool(nc[b]) != bool(cs[b] > calls[0]):
                bad.append("molecule %d: reported notconverged=%s although its convergence iteration is %d and %d tests were made" % (b, bool(nc[b]), cs[b], calls[0]))
    return bad
