"""Solver access with bookkeeping: every query is counted, timed and a few are sampled for the evidence."""
import time
from fractions import Fraction

import z3

from . import symtorch as S


class Stats:
    def __init__(self):
        self.n = {"unsat": 0, "sat": 0, "unknown": 0}
        self.solver_s = 0.0
        self.samples = []
        self.max_samples = 4

    def record(self, verdict, dt, label, solver, what):
        self.n[verdict] = self.n.get(verdict, 0) + 1
        self.solver_s += dt
        if len(self.samples) < self.max_samples:
            try:
                txt = solver.sexpr()
            except Exception:  # tactic solvers may not print
                txt = ""
            self.samples.append({"label": label, "verdict": verdict, "seconds": round(dt, 3), "kind": what, "smt2_excerpt": txt[:600]})

    @property
    def total(self):
        return sum(self.n.values())


STATS = Stats()
import os as _os

DEBUG = bool(_os.environ.get("VERIF_DEBUG"))

NRA_TACTIC = ("simplify", "elim-term-ite", "solve-eqs", "qfnra-nlsat")


def make_solver(kind="auto", timeout_s=60):
    if kind == "nra":
        s = z3.Then(*NRA_TACTIC).solver()
    elif kind == "lra":
        s = z3.SolverFor("QF_LRA")
    else:
        s = z3.Solver()
    s.set("timeout", int(timeout_s * 1000))
    return s


def check(constraints, label="", kind="auto", timeout_s=60, want_model=True):
    """decide satisfiability of the conjunction; returns (verdict str, model or None)"""
    s = make_solver(kind, timeout_s)
    s.add(*constraints)
    t = time.time()
    r = s.check()
    dt = time.time() - t
    v = str(r)
    STATS.record(v, dt, label, s, kind)
    if DEBUG:
        print("  query %-8s %6.2fs [%s] %s" % (v, dt, kind, label[-90:]), flush=True)
    m = None
    if v == "sat" and want_model:
        m = s.model()
    return v, m


def prove(claim, assumptions=(), label="", kind="auto", timeout_s=60, with_side=True):
    """is `claim` implied by assumptions (+ side constraints)?  -> ('unsat' = proved | 'sat' | 'unknown', model)"""
    cs = list(assumptions)
    if with_side:
        cs += list(S.ST.side)
    cs.append(z3.Not(claim))
    v, m = check(cs, label, kind, timeout_s)
    if v != "unsat" and with_side and S.ST.congr:
        # retry with the congruence axioms of the Ackermannised functions (unsat without them is already sound)
        cs = cs[:-1] + list(S.ST.congr) + [cs[-1]]
        v, m = check(cs, label + " [+congruence]", kind, timeout_s)
    if v == "unknown" and kind != "nra":
        v2, m2 = check(cs, label + " [nra]", "nra", timeout_s)
        if v2 != "unknown":
            return v2, m2
    return v, m


def feasible(constraints, label="vacuity", kind="auto", timeout_s=60):
    v, _ = check(list(constraints) + list(S.ST.side) + list(S.ST.congr), label, kind, timeout_s, want_model=False)
    return v


def model_value(m, e, default=Fraction(0)):
    """value of term e in model m as Fraction (algebraic numbers are approximated to 1e-30)"""
    v = m.eval(e, model_completion=True)
    return z3_to_fraction(v, default)


def z3_to_fraction(v, default=Fraction(0)):
    if z3.is_rational_value(v) or z3.is_int_value(v):
        return Fraction(v.numerator_as_long(), v.denominator_as_long())
    if z3.is_algebraic_value(v):
        a = v.approx(30)
        return Fraction(a.numerator_as_long(), a.denominator_as_long())
    if z3.is_true(v):
        return True
    if z3.is_false(v):
        return False
    return default


def model_dict(m, variables):
    """{name: float} for the named z3 variables (for replay files)"""
    out = {}
    for v in variables:
        f = model_value(m, v)
        out[str(v)] = float(f) if not isinstance(f, bool) else f
    return out


def cvc5_crosscheck(constraints, timeout_s=60):
    """re-decide a query with cvc5 (python wheel) from z3's SMT-LIB2 dump; returns verdict string or 'n/a'"""
    try:
        import cvc5
    except Exception:
        return "n/a"
    s = z3.Solver()
    s.add(*constraints)
    text = s.to_smt2()
    tm = cvc5.TermManager() if hasattr(cvc5, "TermManager") else None
    slv = cvc5.Solver(tm) if tm is not None else cvc5.Solver()
    slv.setOption("tlimit-per", str(int(timeout_s * 1000)))
    slv.setLogic("QF_NRA")
    try:
        parser = cvc5.InputParser(slv)
        parser.setStringInput(cvc5.InputLanguage.SMT_LIB_2_6, text, "q")
        sm = parser.getSymbolManager()
        res = None
        while True:
            cmd = parser.nextCommand()
            if cmd.isNull():
                break
            out = cmd.invoke(slv, sm)
            o = str(out).strip()
            if o in ("sat", "unsat", "unknown"):
                res = o
        return res or "n/a"
    except Exception as e:  # pragma: no cover
        return "n/a"


def flatten_div(e, obligations):
    """rewrite nested divisions p/(a/b) -> p*b/a; appends the definedness side conditions (a != 0, b != 0) that make the
    rewriting an identity to `obligations` (to be proved separately)"""
    if z3.is_app(e) and e.decl().kind() == z3.Z3_OP_DIV:
        n = flatten_div(e.arg(0), obligations)
        d = flatten_div(e.arg(1), obligations)
        if z3.is_app(d) and d.decl().kind() == z3.Z3_OP_DIV:
            a, b = d.arg(0), d.arg(1)
            obligations.append(b != 0)
            obligations.append(a != 0)
            return n * b / a
        return n / d
    if z3.is_app(e) and e.num_args() > 0 and e.decl().kind() in (z3.Z3_OP_ADD, z3.Z3_OP_MUL, z3.Z3_OP_SUB, z3.Z3_OP_UMINUS):
        ch = [flatten_div(c, obligations) for c in e.children()]
        k = e.decl().kind()
        if k == z3.Z3_OP_UMINUS:
            return -ch[0]
        r = ch[0]
        for c in ch[1:]:
            r = r + c if k == z3.Z3_OP_ADD else (r * c if k == z3.Z3_OP_MUL else r - c)
        return r
    return e


def numden(e, memo=None):
    """rational-function normal form of a real term: (numerator term, {factor id: (factor term, power)}).
    e == numerator / prod factor^power wherever every factor is non-zero (the caller proves that).  Denominators are kept
    as multisets of the divisor terms the program used, so sums over a common normaliser do not blow up."""
    if memo is None:
        memo = {}
    k = e.get_id()
    if k in memo:
        return memo[k]

    def scale(n, have, want):
        for fid, (t, p) in want.items():
            q = p - have.get(fid, (t, 0))[1]
            for _ in range(q):
                n = n * t
        return n

    kind = e.decl().kind() if z3.is_app(e) else None
    if kind in (z3.Z3_OP_ADD, z3.Z3_OP_SUB) and e.num_args() >= 1:
        parts = [numden(c, memo) for c in e.children()]
        lcm = {}
        for _, d in parts:
            for fid, (t, p) in d.items():
                if p > lcm.get(fid, (t, 0))[1]:
                    lcm[fid] = (t, p)
        ns = [scale(n, d, lcm) for n, d in parts]
        r = ns[0]
        for n in ns[1:]:
            r = r + n if kind == z3.Z3_OP_ADD else r - n
        out = (r, lcm)
    elif kind == z3.Z3_OP_UMINUS:
        n, d = numden(e.arg(0), memo)
        out = (-n, d)
    elif kind == z3.Z3_OP_MUL:
        n, d = None, {}
        for c in e.children():
            cn, cd = numden(c, memo)
            n = cn if n is None else n * cn
            for fid, (t, p) in cd.items():
                d[fid] = (t, p + d.get(fid, (t, 0))[1])
        out = (n, d)
    elif kind == z3.Z3_OP_DIV:
        n1, d1 = numden(e.arg(0), memo)
        n2, d2 = numden(e.arg(1), memo)
        n = n1
        d = dict(d1)
        for fid, (t, p) in d2.items():  # dividing by n2/d2 multiplies by d2
            for _ in range(p):
                n = n * t
        if z3.is_rational_value(n2):
            n = n / n2
        else:
            fid = n2.get_id()
            d[fid] = (n2, 1 + d.get(fid, (n2, 0))[1])
        out = (n, d)
    else:
        out = (e, {})
    memo[k] = out
    return out


def clear_denominators(claim):
    """lhs == rhs  ->  (polynomial-style equality without divisions, list of divisor terms that must be non-zero) or None"""
    if not (z3.is_app(claim) and claim.decl().kind() == z3.Z3_OP_EQ and claim.arg(0).sort() == z3.RealSort()):
        return None
    memo = {}
    n1, d1 = numden(claim.arg(0), memo)
    n2, d2 = numden(claim.arg(1), memo)
    if not d1 and not d2:
        return None
    l, r = n1, n2
    for fid, (t, p) in d2.items():
        q = p - d1.get(fid, (t, 0))[1]
        for _ in range(max(q, 0)):
            l = l * t
    for fid, (t, p) in d1.items():
        q = p - d2.get(fid, (t, 0))[1]
        for _ in range(max(q, 0)):
            r = r * t
    factors = {}
    for d in (d1, d2):
        for fid, (t, p) in d.items():
            factors[fid] = t
    return l == r, list(factors.values())
