"""Canonicalise radicands with sympy so that sqrt(4(D^2+r^2)) and sqrt(D^2+r^2) share one auxiliary variable.

sqrt(x) is rewritten as  |outside| * sqrt(inside)  where `inside` is the square-free part of the factorised
rational function x (rational content and even powers pulled out).  The rewriting is sign-sound: everything
pulled out of the root is wrapped in an absolute value.
"""
from fractions import Fraction

import sympy as sp
import z3

from . import symtorch as S


def z2s(e, env):
    if z3.is_rational_value(e) or z3.is_int_value(e):
        return sp.Rational(e.numerator_as_long(), e.denominator_as_long())
    if z3.is_const(e) and e.decl().kind() == z3.Z3_OP_UNINTERPRETED:
        return env.setdefault(str(e), (sp.Symbol(str(e).replace("!", "_b_"), real=True), e))[0]
    k = e.decl().kind()
    ch = [z2s(c, env) for c in e.children()]
    if k == z3.Z3_OP_ADD:
        return sp.Add(*ch)
    if k == z3.Z3_OP_MUL:
        return sp.Mul(*ch)
    if k == z3.Z3_OP_SUB:
        return ch[0] - sp.Add(*ch[1:]) if len(ch) > 1 else -ch[0]
    if k == z3.Z3_OP_UMINUS:
        return -ch[0]
    if k == z3.Z3_OP_DIV:
        return ch[0] / ch[1]
    if k == z3.Z3_OP_POWER:
        return ch[0] ** ch[1]
    if k == z3.Z3_OP_TO_REAL:
        return ch[0]
    raise NotImplementedError(e.decl())


def s2z(x, env):
    byname = {str(v[0]): v[1] for v in env.values()}

    def rec(x):
        if x.is_Rational:
            return z3.RealVal(Fraction(int(x.p), int(x.q)))
        if x.is_Symbol:
            return byname[str(x)]
        if isinstance(x, sp.Abs):
            z = rec(x.args[0])
            return z3.If(z >= 0, z, -z)
        if x.is_Add:
            r = rec(x.args[0])
            for a in x.args[1:]:
                r = r + rec(a)
            return r
        if x.is_Mul:
            r = rec(x.args[0])
            for a in x.args[1:]:
                r = r * rec(a)
            return r
        if x.is_Pow and x.exp.is_Integer:
            b = rec(x.base)
            n = int(x.exp)
            r = z3.RealVal(1)
            for _ in range(abs(n)):
                r = r * b
            return r if n >= 0 else 1 / r
        raise NotImplementedError(x)

    return rec(x)


def split_radicand(e):
    """return (outside sympy expr (>=0), inside sympy expr, env)"""
    env = {}
    x = sp.cancel(sp.together(z2s(z3.simplify(e), env)))
    num, den = sp.fraction(x)
    out = sp.Integer(1)
    ins = sp.Integer(1)
    for poly, sign in ((num, 1), (den, -1)):
        c, fs = sp.factor_list(poly)
        c = sp.Rational(c)
        for p, qexp in [(c.p, 1), (c.q, -1)]:
            root = sp.integer_nthroot(abs(int(p)), 2)
            if root[1]:
                out *= sp.Integer(root[0]) ** (qexp * sign)
            else:
                ins *= sp.Integer(abs(int(p))) ** (qexp * sign)
            if p < 0:
                ins *= -1
        for f, m in fs:
            if m // 2:
                out *= sp.Abs(f) ** ((m // 2) * sign)
            if m % 2:
                ins *= f**sign
    ins = sp.cancel(ins)
    return out, ins, env


def sqrt_canon(x):
    out, ins, env = split_radicand(x)
    if ins == 1:
        return s2z(out, env)
    key = "canon:" + sp.srepr(ins)
    if key not in S.ST.sq:
        s = S.fresh("sqrt")
        rad = s2z(ins, env)
        S.ST.sq[key] = (s, rad)
        S.ST.side.append(z3.And(s >= 0, s * s == rad))
    r = S.ST.sq[key][0]
    if out == 1:
        return r
    return s2z(out, env) * r
