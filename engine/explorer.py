"""Path forking by re-execution.

The function under test is run repeatedly; each symbolic boolean it branches on is a *decision*.  A decision
log (prefix) is replayed; at a new decision the solver is asked which outcomes are feasible under the
assumptions + path condition + side constraints; if both are, the alternative is pushed on the worklist.
"""
import time

import z3

from . import symtorch as S
from . import smt


class PathLimit(Exception):
    pass


class Explorer:
    def __init__(self, assumptions=(), timeout_s=60, max_paths=2000, kind="nra", piecewise="decide"):
        self.assumptions = list(assumptions)
        self.worklist = [[]]
        self.paths = 0
        self.queries = 0
        self.timeout_s = timeout_s
        self.max_paths = max_paths
        self.kind = kind
        self.piecewise = piecewise
        self.unknown = 0
        self.unknown_as_feasible = False  # True: a branch whose feasibility the solver cannot settle is explored (over-approximation: sound for proofs; counterexamples are replayed anyway)
        self.prefix = []
        self.trace = []
        self.pc = []
        self._cache = {}

    def _feasible(self, e):
        cs = list(self.assumptions) + list(S.ST.side) + list(self.pc) + [e]
        t = time.time()
        s = smt.make_solver(self.kind, self.timeout_s)
        s.add(*cs)
        r = str(s.check())
        if r == "unknown" and self.kind != "auto":
            s = smt.make_solver("auto", self.timeout_s)
            s.add(*cs)
            r = str(s.check())
        smt.STATS.record(r, time.time() - t, "feasibility", s, self.kind)
        if smt.DEBUG:
            print("  feas %-8s %6.2fs depth=%d %s" % (r, time.time() - t, len(self.pc), e.sexpr().replace("\n", " ")[:100]), flush=True)
        self.queries += 1
        return r

    def decide(self, e):
        e = z3.simplify(e)
        if z3.is_true(e):
            return True
        if z3.is_false(e):
            return False
        key = e.sexpr()
        if key in self._cache:
            return self._cache[key]
        nkey = z3.simplify(z3.Not(e)).sexpr()
        if nkey in self._cache:
            return not self._cache[nkey]
        if len(self.trace) < len(self.prefix):
            d = self.prefix[len(self.trace)]
        else:
            rt = self._feasible(e)
            rf = self._feasible(z3.Not(e))
            if (rt == "unknown" or rf == "unknown") and self.unknown_as_feasible:
                self.unknown += 1
                rt = "sat" if rt == "unknown" else rt
                rf = "sat" if rf == "unknown" else rf
            if rt == "unknown" or rf == "unknown":
                self.unknown += 1
                raise RuntimeError("explorer: unknown feasibility for %s" % key[:200])
            if rt == "sat":
                d = True
                if rf == "sat":
                    self.worklist.append(self.trace + [False])
            elif rf == "sat":
                d = False
            else:
                raise RuntimeError("explorer: infeasible path condition")
        self.trace.append(d)
        self.pc.append(e if d else z3.Not(e))
        self._cache[key] = d
        return d

    def run(self, fn, reset=True):
        """explore all paths of fn(); returns [(path condition, side constraints, result)]"""
        results = []
        old = (S.ST.explorer, S.ST.piecewise)
        try:
            while self.worklist:
                if self.paths >= self.max_paths:
                    raise PathLimit("more than %d paths" % self.max_paths)
                self.prefix = self.worklist.pop()
                self.trace = []
                self.pc = []
                self._cache = {}
                if reset:
                    S.reset(keep_mode=True)
                S.ST.explorer = self
                S.ST.piecewise = self.piecewise
                out = fn()
                self.paths += 1
                results.append((list(self.pc), list(S.ST.side), out))
        finally:
            S.ST.explorer, S.ST.piecewise = old
        return results
