"""Obligation bookkeeping: registry, per-obligation result record, known-findings lookup, replay files."""
import hashlib
import inspect
import json
import os
import sys
import time
import traceback

VERIF = os.path.dirname(os.path.dirname(os.path.abspath(__file__)))
KNOWN_PATH = os.path.join(VERIF, "known_findings.json")
REPLAY_DIR = os.path.join(VERIF, "evidence", "replays")

EXIT_OK, EXIT_VIOLATION, EXIT_HARNESS = 0, 1, 3

REGISTRY = {}  # property id -> [(name, func, tiers, title)]


def obligation(pid, name, tiers=("quick", "thorough"), title=""):
    def deco(f):
        REGISTRY.setdefault(pid, []).append((name, f, tuple(tiers), title or (f.__doc__ or "").strip().split("\n")[0]))
        return f

    return deco


class HarnessError(Exception):
    """the encoding/stub/translator is wrong (never reported as success or as a violation)"""


def load_known():
    try:
        with open(KNOWN_PATH) as fh:
            return json.load(fh)
    except FileNotFoundError:
        return {"findings": []}


def _src_hash(f):
    try:
        src = inspect.getsource(f)
    except Exception:
        return "n/a"
    return hashlib.sha256(src.encode()).hexdigest()[:12]


def qualname(f):
    mod = getattr(f, "__module__", "?")
    qn = getattr(f, "__qualname__", getattr(f, "__name__", repr(f)))
    return "%s.%s" % (mod, qn)


class Ob:
    """context handed to an obligation function"""

    def __init__(self, pid, name, tier, seed):
        self.pid, self.name, self.tier, self.seed = pid, name, tier, seed
        self.functions = []
        self.bounds = []
        self.assumptions = []
        self.samples = []
        self.notes = []
        self.sub = {"total": 0, "discharged": 0, "inconclusive": 0, "violated": 0, "known": 0}
        self.violations = []
        self.known_lines = []
        self.paths = 0
        self.ch_conditions = 0  # CrossHair conditions analysed / with a definite verdict
        self.ch_definite = 0
        self.t0 = time.time()
        self._known = [k for k in load_known().get("findings", []) if k.get("property") == pid]

    # ---- description of what is encoded ---------------------------------------------------
    def encodes(self, *fs):
        for f in fs:
            self.functions.append({"function": qualname(f), "source_sha": _src_hash(f)})

    def bound(self, *s):
        self.bounds.extend(s)

    def assume(self, *s):
        self.assumptions.extend(s)

    def note(self, s):
        self.notes.append(s)

    def sample(self, obj):
        if len(self.samples) < 6:
            self.samples.append(obj)

    # ---- verdicts per sub-obligation --------------------------------------------------------
    def discharged(self, label=None, n=1):
        self.sub["total"] += n
        self.sub["discharged"] += n

    def inconclusive(self, label):
        self.sub["total"] += 1
        self.sub["inconclusive"] += 1
        self.notes.append("INCONCLUSIVE: " + label)

    def verdict(self, v, label):
        """count a solver verdict for an obligation whose negation was queried: unsat = discharged"""
        if v == "unsat":
            self.discharged(label)
            return True
        if v == "unknown":
            self.inconclusive(label)
        elif v == "sat":
            # a call site that has no replay for this claim: never silently dropped
            self.inconclusive(label + " (solver counterexample, no replay available at this call site)")
        return False

    def is_known(self, finding_id):
        """is this finding listed (status 'known') in the committed known-findings file?"""
        for k in self._known:
            if k.get("id") == finding_id and k.get("status") == "known":
                return k
        return None

    def known_finding(self, finding_id, what):
        self.sub["total"] += 1
        self.sub["known"] += 1
        self.known_lines.append("KNOWN-FINDING: property=%s %s [%s]" % (self.pid, what, finding_id))

    def violation(self, what, replay):
        """a counterexample that was replayed against the real code and reproduced.
        replay: {"module": ..., "func": ..., "args": {...}} re-runnable with `check --replay`"""
        self.sub["total"] += 1
        self.sub["violated"] += 1
        os.makedirs(REPLAY_DIR, exist_ok=True)
        path = os.path.join(REPLAY_DIR, "%s_%s_%d.json" % (self.pid, self.name, len(self.violations)))
        rec = {"property": self.pid, "obligation": self.name, "what": what, "replay": replay}
        with open(path, "w") as fh:
            json.dump(rec, fh, indent=1, default=str)
        self.violations.append({"what": what, "replay": path})

    def harness_error(self, msg):
        raise HarnessError(msg)

    def require(self, cond, msg):
        if not cond:
            raise HarnessError(msg)

    def result(self, status="ok", error=None):
        from . import smt

        return {
            "property": self.pid,
            "obligation": self.name,
            "tier": self.tier,
            "status": status,
            "error": error,
            "functions": self.functions,
            "bounds": self.bounds,
            "assumptions": self.assumptions,
            "samples": self.samples + smt.STATS.samples[:2],
            "notes": self.notes,
            "sub": self.sub,
            "violations": self.violations,
            "known_lines": self.known_lines,
            "paths": self.paths,
            "ch_conditions": self.ch_conditions,
            "ch_definite": self.ch_definite,
            "queries": dict(smt.STATS.n),
            "solver_s": round(smt.STATS.solver_s, 3),
            "wall_s": round(time.time() - self.t0, 3),
        }


def run_one(pid, name, tier, seed, outpath):
    """entry point of the per-obligation subprocess"""
    import importlib

    sys.dont_write_bytecode = True
    importlib.import_module("harness.%s" % pid)
    entry = [e for e in REGISTRY.get(pid, []) if e[0] == name]
    if not entry:
        raise SystemExit("no obligation %s.%s" % (pid, name))
    _, func, _, title = entry[0]
    ob = Ob(pid, name, tier, seed)
    ob.title = title
    try:
        func(ob)
        res = ob.result("ok")
    except HarnessError as e:
        res = ob.result("harness_error", "%s\n%s" % (e, traceback.format_exc()[-1500:]))
    except BaseException as e:  # noqa
        res = ob.result("harness_error", "%s: %s\n%s" % (type(e).__name__, e, traceback.format_exc()[-2500:]))
    res["title"] = title
    with open(outpath, "w") as fh:
        json.dump(res, fh, indent=1, default=str)
    return res


if __name__ == "__main__":
    pid, name, tier, seed, outpath = sys.argv[1:6]
    sys.path.insert(0, VERIF)
    # make sure the obligation registry used by the harness module is *this* module object
    import engine.ob as _self

    r = _self.run_one(pid, name, tier, int(seed), outpath)
    print(json.dumps({k: r[k] for k in ("obligation", "status", "sub", "queries", "wall_s")}))
