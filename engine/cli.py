"""check driver: runs the obligations of one property in parallel subprocesses and writes the evidence file."""
import argparse
import concurrent.futures as cf
import importlib
import json
import os
import shutil
import subprocess
import sys
import tempfile
import time

VERIF = os.path.dirname(os.path.dirname(os.path.abspath(__file__)))
sys.path.insert(0, VERIF)
sys.dont_write_bytecode = True

from engine import ob as OB  # noqa: E402

TIMEOUT = {"quick": int(os.environ.get("VERIF_OB_TIMEOUT", 900)), "thorough": int(os.environ.get("VERIF_OB_TIMEOUT", 5400))}


def _env(seed):
    env = dict(os.environ)
    env.update(
        PYTHONDONTWRITEBYTECODE="1",
        OMP_NUM_THREADS="1",
        MKL_NUM_THREADS="1",
        PYTHONPATH=VERIF + os.pathsep + os.environ.get("VERIF_REPO", "/repo"),
        LANL_PYSEQM_VERIF="1",
        PYTHONHASHSEED=str(seed % 4294967295),
        PYTHONWARNINGS="ignore",
    )
    return env


def run_ob(pid, name, tier, seed, scratch):
    out = os.path.join(scratch, "%s_%s.json" % (pid, name))
    log = os.path.join(scratch, "%s_%s.log" % (pid, name))
    t0 = time.time()
    try:
        with open(log, "w") as lf:
            p = subprocess.run(
                [sys.executable, "-m", "engine.ob", pid, name, tier, str(seed), out],
                cwd=VERIF,
                env=_env(seed),
                stdout=lf,
                stderr=subprocess.STDOUT,
                timeout=TIMEOUT[tier],
            )
        if os.path.exists(out):
            with open(out) as fh:
                return json.load(fh)
        tail = open(log).read()[-2000:]
        return {"obligation": name, "status": "harness_error", "error": "no result file (rc=%s)\n%s" % (p.returncode, tail), "sub": {"total": 1, "discharged": 0, "inconclusive": 0, "violated": 0, "known": 0}, "queries": {}, "solver_s": 0, "wall_s": time.time() - t0, "violations": [], "known_lines": [], "functions": [], "bounds": [], "assumptions": [], "samples": [], "notes": [], "paths": 0, "title": ""}
    except subprocess.TimeoutExpired:
        return {"obligation": name, "status": "timeout", "error": "obligation exceeded %ds wall" % TIMEOUT[tier], "sub": {"total": 1, "discharged": 0, "inconclusive": 1, "violated": 0, "known": 0}, "queries": {}, "solver_s": 0, "wall_s": time.time() - t0, "violations": [], "known_lines": [], "functions": [], "bounds": [], "assumptions": [], "samples": [], "notes": ["INCONCLUSIVE: wall timeout"], "paths": 0, "title": ""}


def check_property(pid, tier, seed, only=None, jobs=None, verbose=True):
    t0 = time.time()
    ev_path = os.path.join(os.environ.get("VERIF_EVIDENCE", os.path.join(VERIF, "evidence")), "%s.json" % pid)
    os.makedirs(os.path.dirname(ev_path), exist_ok=True)
    if os.path.exists(ev_path):
        os.remove(ev_path)
    # remove stale replay files of this property
    rd = OB.REPLAY_DIR
    if os.path.isdir(rd):
        for f in os.listdir(rd):
            if f.startswith(pid + "_"):
                os.remove(os.path.join(rd, f))
    importlib.import_module("harness.%s" % pid)
    obs = [(n, tiers, title) for (n, _f, tiers, title) in OB.REGISTRY.get(pid, []) if tier in tiers and (only is None or n in only)]
    if not obs:
        print("no obligations for %s at tier %s" % (pid, tier))
        return OB.EXIT_HARNESS
    scratch = tempfile.mkdtemp(prefix="verif_%s_" % pid)
    results = []
    try:
        jobs = jobs or min(16, os.cpu_count() or 4)
        with cf.ThreadPoolExecutor(max_workers=jobs) as ex:
            futs = {ex.submit(run_ob, pid, n, tier, seed, scratch): n for (n, _, _) in obs}
            for fu in cf.as_completed(futs):
                r = fu.result()
                results.append(r)
                if verbose:
                    print("  [%s.%s] %s sub=%s queries=%s %.1fs" % (pid, r["obligation"], r["status"], r.get("sub"), r.get("queries"), r.get("wall_s", 0)), flush=True)
                    if r.get("error"):
                        print("     " + str(r["error"]).replace("\n", "\n     ")[-1800:], flush=True)
    finally:
        shutil.rmtree(scratch, ignore_errors=True)
    results.sort(key=lambda r: r["obligation"])
    return finish(pid, tier, seed, results, ev_path, t0)


def finish(pid, tier, seed, results, ev_path, t0):
    tot = {"total": 0, "discharged": 0, "inconclusive": 0, "violated": 0, "known": 0}
    q = {"unsat": 0, "sat": 0, "unknown": 0}
    solver_s = 0.0
    violations, known_lines, herr = [], [], []
    functions, bounds, assumptions, samples, notes = [], [], [], [], []
    paths = 0
    chc = chd = 0
    per_ob = []
    for r in results:
        for k in tot:
            tot[k] += r.get("sub", {}).get(k, 0)
        for k, v in r.get("queries", {}).items():
            q[k] = q.get(k, 0) + v
        solver_s += r.get("solver_s", 0)
        violations += r.get("violations", [])
        known_lines += r.get("known_lines", [])
        if r["status"] == "harness_error":
            herr.append((r["obligation"], r.get("error")))
        for f in r.get("functions", []):
            if f not in functions:
                functions.append(f)
        bounds += ["%s: %s" % (r["obligation"], b) for b in r.get("bounds", [])]
        assumptions += ["%s: %s" % (r["obligation"], a) for a in r.get("assumptions", [])]
        for s in r.get("samples", [])[:3]:
            samples.append({"obligation": r["obligation"], "case": s})
        notes += ["%s: %s" % (r["obligation"], n) for n in r.get("notes", [])]
        paths += r.get("paths", 0)
        chc += r.get("ch_conditions", 0)
        chd += r.get("ch_definite", 0)
        per_ob.append({"obligation": r["obligation"], "title": r.get("title", ""), "status": r["status"], "sub": r.get("sub"), "queries": r.get("queries"), "paths": r.get("paths", 0), "solver_s": r.get("solver_s"), "wall_s": r.get("wall_s")})
    for line in known_lines:
        print(line)
    for v in violations:
        print("VIOLATION property=%s replay=%s" % (pid, v["replay"]))
        print("   what: %s" % v["what"])
    for n, e in herr:
        print("HARNESS-ERROR property=%s obligation=%s" % (pid, n))
    if tot["inconclusive"]:
        print("INCONCLUSIVE property=%s sub-obligations=%d (not counted as discharged)" % (pid, tot["inconclusive"]))
    nq = sum(q.values())
    evidence = {
        "property_id": pid,
        "tier": tier,
        "seed": seed,
        "level": "other",
        "coverage": {
            "explanation": "Bounded symbolic checking of the real code with an SMT solver: the repository functions listed under functions_encoded were executed on symbolic tensors (z3 terms) / by CrossHair from /repo's current working tree; each obligation is the negated property over all values inside the stated bounds; 'discharged' counts obligations whose negation the solver reported unsat (or CrossHair confirmed over all paths), 'sat' verdicts were replayed against the unmodified torch code before being reported.",
            "obligations": tot["total"],
            "discharged": tot["discharged"],
            "inconclusive": tot["inconclusive"],
            "violated": tot["violated"],
            "known_findings_reconfirmed": tot["known"],
            "checker_cmd": "./check %s --tier %s" % (pid, tier),
            "trusted_base": ["z3 5.1.0 (z3-solver wheel)", "cvc5 1.4.0 (cross-check)", "CrossHair 0.0.110", "engine/symtorch.py handlers (validated per harness against torch on concrete inputs)", "contract stubs listed under assumptions"],
            "evaluations": max(nq + chc, 1),
            "distinct_nontrivial": max(q.get("unsat", 0) + q.get("sat", 0) + chd, 0),
            "crosshair_conditions": chc,
            "crosshair_definite_verdicts": chd,
            "rule": "one evaluation = one solver query (feasibility, vacuity witness, sensitivity twin or negated obligation) or one CrossHair condition (a contract over symbolic integers/booleans, explored path by path with z3 inside CrossHair); non-trivial = the solver returned a definite verdict (unsat/sat; CrossHair: 'Confirmed over all paths' or a counterexample) on a formula that did not simplify to a constant before being sent; queries are generated per output element / per path / per slice, so they are distinct by construction",
            "samples": samples[:12] or [{"note": "no samples"}],
            "queries": q,
            "paths_explored": paths,
            "solver_seconds": round(solver_s, 2),
            "functions_encoded": functions,
            "bounds": bounds,
            "per_obligation": per_ob,
            "notes": notes[:60],
            "exhaustive": False,
        },
        "assumptions": assumptions,
        "wall_s": round(time.time() - t0, 2),
        "violations": len(violations),
    }
    with open(ev_path, "w") as fh:
        json.dump(evidence, fh, indent=1, default=str)
    print("%s tier=%s obligations=%d discharged=%d known=%d inconclusive=%d violated=%d queries=%s solver=%.1fs wall=%.1fs" % (pid, tier, tot["total"], tot["discharged"], tot["known"], tot["inconclusive"], tot["violated"], q, solver_s, time.time() - t0))
    if violations:
        return OB.EXIT_VIOLATION
    if herr:
        return OB.EXIT_HARNESS
    return OB.EXIT_OK


def replay(path):
    with open(path) as fh:
        rec = json.load(fh)
    rp = rec["replay"]
    mod = importlib.import_module(rp["module"])
    fn = getattr(mod, rp["func"])
    print("replaying %s.%s: %s" % (rec["property"], rec["obligation"], rec["what"]))
    ok = fn(**rp.get("args", {}))
    print("reproduced" if ok else "NOT reproduced", ok)
    return OB.EXIT_VIOLATION if ok else OB.EXIT_OK


def main():
    ap = argparse.ArgumentParser()
    ap.add_argument("property", nargs="?")
    ap.add_argument("--tier", default=os.environ.get("VERIF_TIER", "quick"), choices=["quick", "thorough"])
    ap.add_argument("--only", default=None, help="comma separated obligation names")
    ap.add_argument("--jobs", type=int, default=None)
    ap.add_argument("--replay", default=None)
    a = ap.parse_args()
    if a.replay:
        sys.exit(replay(a.replay))
    seed = int(os.environ.get("VERIF_SEED", "0") or 0)
    only = a.only.split(",") if a.only else None
    if a.property == "all":
        rc = 0
        for i in range(1, 21):
            pid = "C%02d" % i
            if os.path.exists(os.path.join(VERIF, "harness", pid + ".py")):
                rc = max(rc, check_property(pid, a.tier, seed, None, a.jobs))
        sys.exit(rc)
    sys.exit(check_property(a.property, a.tier, seed, only, a.jobs))


if __name__ == "__main__":
    main()
