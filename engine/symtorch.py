"""symtorch: symbolic tensors over z3 terms that run *unmodified* PYSEQM functions with the real torch.

A ``SymTensor`` wraps a NumPy object array whose elements are z3 Real/Bool terms (or ``Dual`` numbers
carrying exact tangents).  ``__torch_function__`` plus the operator/method protocol dispatch every torch
call that touches a SymTensor to element-wise symbolic handlers; purely concrete tensors (species, index
maps, ...) stay real torch tensors.  NumPy basic slices are views (like torch) and every in-place handler
writes through the view.

Nothing in here knows anything about PYSEQM.
"""
import itertools
import math
import functools
from fractions import Fraction

import numpy as np
import torch
import z3

# ----------------------------------------------------------------------------------------------
# global symbolic state (one obligation per process; reset() between independent runs)
# ----------------------------------------------------------------------------------------------


class _State:
    def __init__(self):
        self.side = []  # side constraints: definitions of auxiliary variables (sqrt, exp, ...)
        self.grad_model = False  # True: dual-number tangents follow torch's autograd tape: detach() and everything computed or written under torch.no_grad() carries no tangent
        self.congr = []  # Ackermann congruence constraints (only added to a query when the cheap attempt is not unsat)
        self.cnt = itertools.count()
        self.dual_n = 0  # >0: elements are Dual numbers with that many tangents
        self.exps = {}  # Ackermannised transcendental applications: (fname,key) -> (var, arg)
        self.sq = {}  # sqrt cache: key -> var
        self.sqrt_mode = "plain"  # or "canon" (sympy canonicalisation of radicands)
        self.piecewise = "ite"  # or "decide": abs/min/max/clamp/sign fork in the explorer
        self.explorer = None
        self.ops = 0
        self.definedness = []  # (kind, term) obligations: denominators / radicands met
        self.track_defined = False
        self.uf_axioms = True
        self.side_raw = []  # the sqrt / solve definitions once more, with the radicand as the program built it (not simplified): lets a harness substitute sub-terms structurally
        self.solves = []  # linear solves / inverses met: (kind, A, B or None, X) with X fresh unknowns constrained by A X = B (A X = I); sound for non-singular A
        self.float_placeholder = None  # value returned by float() of a symbolic scalar (ONLY for code that merely formats it)


ST = _State()


def reset(keep_mode=False):
    mode = (ST.sqrt_mode, ST.piecewise, ST.track_defined, ST.float_placeholder)
    ST.__init__()
    if keep_mode:
        ST.sqrt_mode, ST.piecewise, ST.track_defined, ST.float_placeholder = mode


def fresh(prefix, sort="real"):
    n = f"{prefix}!{next(ST.cnt)}"
    return z3.Real(n) if sort == "real" else z3.Bool(n)


ZERO = z3.RealVal(0)
ONE = z3.RealVal(1)


FLOAT_ALIAS = {}  # float literal -> z3 term; set (and cleared) by a harness that states the identification as an assumption


def rv(x):
    """exact rational constant"""
    if isinstance(x, Fraction):
        return z3.RealVal(x)
    if isinstance(x, bool):
        raise TypeError("bool")
    if isinstance(x, (int, np.integer)):
        return z3.RealVal(int(x))
    if isinstance(x, (float, np.floating)):
        x = float(x)
        if x != x or x in (float("inf"), float("-inf")):
            raise ValueError("non-finite float has no real value: %r" % x)
        if FLOAT_ALIAS and abs(x) in FLOAT_ALIAS:
            # a decimal literal read as the irrational it abbreviates (stated as an assumption by the harness)
            return FLOAT_ALIAS[abs(x)] if x > 0 else -FLOAT_ALIAS[abs(x)]
        return z3.RealVal(Fraction(x))
    raise TypeError(type(x))


# ----------------------------------------------------------------------------------------------
# dual numbers (forward-mode exact derivatives)
# ----------------------------------------------------------------------------------------------


class Dual:
    __slots__ = ("v", "t")

    def __init__(self, v, t):
        self.v = v
        self.t = tuple(t)

    def _b(self, o):
        if isinstance(o, Dual):
            return o
        return Dual(_lift_scalar(o), (ZERO,) * len(self.t))

    def __add__(s, o):
        o = s._b(o)
        return Dual(s.v + o.v, tuple(a + b for a, b in zip(s.t, o.t)))

    __radd__ = __add__

    def __sub__(s, o):
        o = s._b(o)
        return Dual(s.v - o.v, tuple(a - b for a, b in zip(s.t, o.t)))

    def __rsub__(s, o):
        return s._b(o) - s

    def __mul__(s, o):
        o = s._b(o)
        return Dual(s.v * o.v, tuple(a * o.v + s.v * b for a, b in zip(s.t, o.t)))

    __rmul__ = __mul__

    def __truediv__(s, o):
        o = s._b(o)
        _note_div(o.v)
        return Dual(s.v / o.v, tuple((a * o.v - s.v * b) / (o.v * o.v) for a, b in zip(s.t, o.t)))

    def __rtruediv__(s, o):
        return s._b(o) / s

    def __neg__(s):
        return Dual(-s.v, tuple(-a for a in s.t))

    # comparisons look at the value only
    def __lt__(s, o):
        return s.v < s._b(o).v

    def __le__(s, o):
        return s.v <= s._b(o).v

    def __gt__(s, o):
        return s.v > s._b(o).v

    def __ge__(s, o):
        return s.v >= s._b(o).v


def _lift_scalar(x):
    if isinstance(x, z3.ExprRef):
        return x
    if isinstance(x, (bool, np.bool_)):
        return z3.BoolVal(bool(x))
    return rv(x)


def lift(x):
    """python/z3 scalar -> element (Dual when dual mode is on)"""
    if isinstance(x, Dual):
        return x
    v = _lift_scalar(x)
    if ST.dual_n > 0 and not z3.is_bool(v):
        return Dual(v, (ZERO,) * ST.dual_n)
    return v


def val(e):
    return e.v if isinstance(e, Dual) else e


def _note_div(d):
    if ST.track_defined:
        ST.definedness.append(("div", val(d)))


# ----------------------------------------------------------------------------------------------
# element-wise scalar functions
# ----------------------------------------------------------------------------------------------


def _is_const(e):
    return z3.is_rational_value(e) or z3.is_int_value(e)


def _frac(e):
    return Fraction(e.numerator_as_long(), e.denominator_as_long())


def e_div(a, b):
    if isinstance(a, Dual) or isinstance(b, Dual):
        a = a if isinstance(a, Dual) else Dual(a, (ZERO,) * len(b.t))
        return a / b
    _note_div(b)
    return a / b


def _decide(cond):
    ex = ST.explorer
    if ex is None:
        raise RuntimeError("symtorch: data-dependent control flow outside an Explorer")
    return ex.decide(cond)


def e_abs(e):
    if isinstance(e, Dual):
        if ST.piecewise == "decide":
            return e if _decide(e.v >= 0) else -e
        c = e.v >= 0
        return Dual(z3.If(c, e.v, -e.v), tuple(z3.If(c, t, -t) for t in e.t))
    s = z3.simplify(e)
    if _is_const(s):
        return rv(abs(_frac(s)))
    if ST.piecewise == "decide":
        return e if _decide(e >= 0) else -e
    return z3.If(e >= 0, e, -e)


def e_sign(e):
    v = val(e)
    if ST.piecewise == "decide":
        if _decide(v > 0):
            r = ONE
        elif _decide(v < 0):
            r = -ONE
        else:
            r = ZERO
    else:
        r = z3.If(v > 0, ONE, z3.If(v < 0, -ONE, ZERO))
    return lift(r) if isinstance(e, Dual) else r


def e_min2(a, b):
    va, vb = val(a), val(b)
    if ST.piecewise == "decide":
        return a if _decide(va <= vb) else b
    c = va <= vb
    return _ite(c, a, b)


def e_max2(a, b):
    va, vb = val(a), val(b)
    if ST.piecewise == "decide":
        return a if _decide(va >= vb) else b
    c = va >= vb
    return _ite(c, a, b)


def _ite(c, a, b):
    if z3.is_true(c):
        return a
    if z3.is_false(c):
        return b
    if isinstance(a, Dual) or isinstance(b, Dual):
        n = len(a.t) if isinstance(a, Dual) else len(b.t)
        a = a if isinstance(a, Dual) else Dual(a, (ZERO,) * n)
        b = b if isinstance(b, Dual) else Dual(b, (ZERO,) * n)
        return Dual(z3.If(c, a.v, b.v), tuple(z3.If(c, x, y) for x, y in zip(a.t, b.t)))
    return z3.If(c, a, b)


def _sqrt_var(x):
    """auxiliary variable s >= 0 with s*s == x (x a plain z3 term); shared per canonical radicand"""
    xs = z3.simplify(x)
    if _is_const(xs):
        f = _frac(xs)
        if f >= 0:
            n, d = math.isqrt(f.numerator), math.isqrt(f.denominator)
            if n * n == f.numerator and d * d == f.denominator:
                return rv(Fraction(n, d))
    if ST.track_defined:
        ST.definedness.append(("sqrt", xs))
    if ST.sqrt_mode == "canon":
        from . import canon

        return canon.sqrt_canon(xs)
    key = xs.sexpr()
    if key not in ST.sq:
        s = fresh("sqrt")
        ST.sq[key] = (s, xs)
        ST.side.append(z3.And(s >= 0, s * s == xs))
        ST.side_raw.append(z3.And(s >= 0, s * s == x))
    return ST.sq[key][0]


def e_sqrt(e):
    if isinstance(e, Dual):
        s = _sqrt_var(e.v)
        return Dual(s, tuple(t / (2 * s) for t in e.t))
    return _sqrt_var(e)


def e_pow(e, p):
    """e ** p for a concrete rational exponent p (integers and half-integers)"""
    if isinstance(p, torch.Tensor):
        p = p.item()
    if isinstance(p, SymTensor):
        pe = z3.simplify(val(p.a.reshape(-1)[0]))
        assert _is_const(pe), "symbolic exponent"
        p = _frac(pe)
    p2 = Fraction(p).limit_denominator(1000) * 2
    assert p2.denominator == 1, "unsupported exponent %r" % (p,)
    p2 = int(p2)
    if p2 % 2 == 0:
        base, n = e, p2 // 2
    else:
        base, n = e_sqrt(e), p2
    r = lift(1)
    for _ in range(abs(n)):
        r = r * base
    if n < 0:
        r = e_div(lift(1), r)
    return r


def _uf(fname, x, positive=False):
    """Ackermannised application of an uninterpreted real function to a plain z3 term"""
    xs = z3.simplify(x)
    key = (fname, xs.sexpr())
    if key not in ST.exps:
        v = fresh(fname)
        # congruence with all earlier applications of the same function
        for (f2, _), (v2, x2) in ST.exps.items():
            if f2 == fname:
                ST.congr.append(z3.Implies(x2 == xs, v2 == v))
        ST.exps[key] = (v, xs)
        if positive:
            ST.side.append(v > 0)
    return ST.exps[key][0]


def e_exp(e):
    if isinstance(e, Dual):
        E = e_exp(e.v)
        return Dual(E, tuple(E * t for t in e.t))
    es = z3.simplify(e)
    if _is_const(es) and _frac(es) == 0:
        return ONE
    return _uf("exp", e, positive=True)


def e_expm1(e):
    return e_exp(e) - lift(1)


def e_sin(e):
    if isinstance(e, Dual):
        return Dual(e_sin(e.v), tuple(e_cos(e.v) * t for t in e.t))
    s = _uf("sin", e)
    c = _uf("cos", e)
    _trig_axiom(e, s, c)
    return s


def e_cos(e):
    if isinstance(e, Dual):
        return Dual(e_cos(e.v), tuple(-e_sin(e.v) * t for t in e.t))
    s = _uf("sin", e)
    c = _uf("cos", e)
    _trig_axiom(e, s, c)
    return c


_TRIG_DONE = set()


def _trig_axiom(e, s, c):
    k = (str(s), str(c))
    if ST.uf_axioms and k not in _TRIG_DONE:
        _TRIG_DONE.add(k)
        ST.side.append(s * s + c * c == 1)


def e_log(e):
    if isinstance(e, Dual):
        return Dual(e_log(e.v), tuple(t / e.v for t in e.t))
    if ST.track_defined:
        ST.definedness.append(("log", e))
    return _uf("log", e)


# ----------------------------------------------------------------------------------------------
# conversion helpers
# ----------------------------------------------------------------------------------------------

_vlift = np.frompyfunc(lift, 1, 1)


def _np_obj(arr):
    out = np.empty(arr.shape, dtype=object)
    flat = out.reshape(-1)
    src = arr.reshape(-1)
    for i in range(src.size):
        flat[i] = lift(src[i].item() if hasattr(src[i], "item") else src[i])
    return out


def to_obj(x):
    """anything -> numpy object array of elements (lifting to Dual in dual mode)"""
    if isinstance(x, SymTensor):
        if ST.dual_n > 0 and not x.isbool:
            return _relift(x.a)
        return x.a
    if isinstance(x, torch.Tensor):
        return _np_obj(x.detach().cpu().numpy())
    if isinstance(x, np.ndarray):
        return _np_obj(x) if x.dtype != object else x
    if isinstance(x, (int, float, Fraction, z3.ExprRef, bool, np.number, np.bool_)) or isinstance(x, Dual):
        out = np.empty((), dtype=object)
        out[()] = lift(x)
        return out
    if isinstance(x, (list, tuple)):
        return np.stack([to_obj(e) for e in x]) if len(x) else np.empty((0,), dtype=object)
    raise TypeError("to_obj: %r" % type(x))


def _relift(a):
    # only copy if some element is not yet Dual
    flat = a.reshape(-1)
    if all(isinstance(e, Dual) for e in flat):
        return a
    return _vlift(a) if a.size else a


def is_sym(x):
    return isinstance(x, SymTensor)


def _isbool_like(x):
    if isinstance(x, SymTensor):
        return x.isbool
    if isinstance(x, torch.Tensor):
        return x.dtype == torch.bool
    return isinstance(x, (bool, np.bool_)) or (isinstance(x, z3.ExprRef) and z3.is_bool(x))


def _ax(dim):
    if isinstance(dim, (list, tuple)):
        return tuple(dim)
    return dim


def _shape_arg(s):
    if len(s) == 1 and isinstance(s[0], (tuple, list, torch.Size)):
        return tuple(int(v) for v in s[0])
    return tuple(int(v) for v in s)


def _conv_index(idx):
    def conv(i):
        if isinstance(i, torch.Tensor):
            return i.detach().cpu().numpy()
        if isinstance(i, SymTensor):
            if i.isbool:
                return concretize_mask(i)
            return concretize_int(i)
        if isinstance(i, list):
            return np.asarray(i)
        return i

    if isinstance(idx, tuple):
        return tuple(conv(i) for i in idx)
    return conv(idx)


def concretize_mask(m):
    """symbolic boolean mask -> concrete numpy bool array, forking the explorer per undecided atom"""
    out = np.zeros(m.a.shape, dtype=bool)
    for k in np.ndindex(m.a.shape):
        e = m.a[k]
        s = z3.simplify(e)
        if z3.is_true(s):
            out[k] = True
        elif z3.is_false(s):
            out[k] = False
        else:
            out[k] = _decide(e)
    return out


def concretize_int(t):
    out = np.zeros(t.a.shape, dtype=np.int64)
    for k in np.ndindex(t.a.shape):
        s = z3.simplify(val(t.a[k]))
        if not _is_const(s):
            raise NotImplementedError("symbolic integer index")
        f = _frac(s)
        assert f.denominator == 1
        out[k] = int(f)
    return out


_f_and = np.frompyfunc(lambda a, b: z3.And(a, b), 2, 1)
_f_or = np.frompyfunc(lambda a, b: z3.Or(a, b), 2, 1)
_f_not = np.frompyfunc(lambda a: z3.Not(a), 1, 1)
_f_xor = np.frompyfunc(lambda a, b: z3.Xor(a, b), 2, 1)


def _cmp(op):
    def f(a, b):
        a, b = val(a), val(b)
        return op(a, b)

    return np.frompyfunc(f, 2, 1)


_f_lt = _cmp(lambda a, b: a < b)
_f_le = _cmp(lambda a, b: a <= b)
_f_gt = _cmp(lambda a, b: a > b)
_f_ge = _cmp(lambda a, b: a >= b)
_f_eq = _cmp(lambda a, b: a == b)
_f_ne = _cmp(lambda a, b: a != b)

_f_div = np.frompyfunc(e_div, 2, 1)
_f_abs = np.frompyfunc(e_abs, 1, 1)
_f_sign = np.frompyfunc(e_sign, 1, 1)
_f_sqrt = np.frompyfunc(e_sqrt, 1, 1)
_f_exp = np.frompyfunc(e_exp, 1, 1)
_f_expm1 = np.frompyfunc(e_expm1, 1, 1)
_f_sin = np.frompyfunc(e_sin, 1, 1)
_f_cos = np.frompyfunc(e_cos, 1, 1)
_f_log = np.frompyfunc(e_log, 1, 1)
_f_ite = np.frompyfunc(_ite, 3, 1)
_f_min2 = np.frompyfunc(e_min2, 2, 1)
_f_max2 = np.frompyfunc(e_max2, 2, 1)


def _zeros(shape, isbool=False):
    out = np.empty(shape, dtype=object)
    out[...] = z3.BoolVal(False) if isbool else lift(0)
    return out


def _full(shape, v):
    out = np.empty(shape, dtype=object)
    out[...] = lift(v)
    return out


# ----------------------------------------------------------------------------------------------
# SymTensor
# ----------------------------------------------------------------------------------------------

HANDLERS = {}


def implements(*fs):
    def deco(h):
        for f in fs:
            HANDLERS[f] = h
        return h

    return deco


_INPLACE_OK = {"__setitem__"}


def _called_from_augmented_assignment():
    """is the innermost frame outside torch/symtorch currently executing an in-place BINARY_OP (x -= y)?"""
    import sys
    import dis

    f = sys._getframe(1)
    while f is not None and ("/torch/" in f.f_code.co_filename or f.f_code.co_filename.endswith("symtorch.py")):
        f = f.f_back
    if f is None:
        return False
    code = f.f_code.co_code
    i = f.f_lasti
    # skip backwards over inline CACHE entries
    op, arg = code[i], code[i + 1]
    if dis.opname[op] == "BINARY_OP":
        return arg >= 13  # NB_INPLACE_ADD .. NB_INPLACE_XOR
    return False


def _strip_tangents(a):
    """object array -> same values without dual-number tangents"""
    out = np.empty(a.shape, dtype=object)
    fo, fi = out.reshape(-1), a.reshape(-1)
    for i in range(fi.size):
        fo[i] = fi[i].v if isinstance(fi[i], Dual) else fi[i]
    return out


def _untracked():
    """grad model on and autograd off: results and stored values carry no tangent"""
    return ST.grad_model and ST.dual_n > 0 and not torch.is_grad_enabled()


class SymTensor:
    __array_priority__ = 1000
    requires_grad = False
    grad = None
    grad_fn = None
    hist = None  # autograd-history model used by harness.scfbw: [(other SymTensor, d self / d other)]
    is_cuda = False
    is_sparse = False

    def __init__(self, a, isbool=None):
        if not (isinstance(a, np.ndarray) and a.dtype == object):
            a = to_obj(a)
        if ST.grad_model and ST.dual_n > 0 and not torch.is_grad_enabled() and a.size and any(isinstance(x, Dual) for x in a.reshape(-1)):
            a = _strip_tangents(a)  # (a view created under no_grad: a copy is made; none of the encoded code writes through it)
        self.a = a
        if isbool is None:
            flat = a.reshape(-1)
            isbool = bool(flat.size) and isinstance(flat[0], z3.ExprRef) and z3.is_bool(flat[0])
        self.isbool = isbool

    # ---- torch dispatch -------------------------------------------------------------------
    @classmethod
    def __torch_function__(cls, func, types, args=(), kwargs=None):
        kwargs = kwargs or {}
        ST.ops += 1
        h = HANDLERS.get(func)
        if h is not None:
            return h(*args, **kwargs)
        name = getattr(func, "__name__", None)
        if name and hasattr(SymTensor, name):
            a0 = args[0]
            if not isinstance(a0, SymTensor):
                if name in ("__iadd__", "__isub__", "__imul__", "__itruediv__") or (name in ("add_", "sub_", "mul_", "div_") and _called_from_augmented_assignment()):
                    name = {"add_": "__iadd__", "sub_": "__isub__", "mul_": "__imul__", "div_": "__itruediv__"}.get(name, name)
                    # augmented assignment on a concrete tensor with a symbolic operand: Python rebinds the name to the
                    # returned object, so a fresh symbolic result is protocol-compliant (aliases of the old tensor would
                    # not see the update; none of the encoded code relies on that)
                    a0 = SymTensor(to_obj(a0), a0.dtype == torch.bool)
                    return getattr(a0, {"__iadd__": "__add__", "__isub__": "__sub__", "__imul__": "__mul__", "__itruediv__": "__truediv__"}[name])(*args[1:], **kwargs)
                if name.endswith("_") and not name.endswith("__") or name in ("__setitem__",):
                    raise NotImplementedError(
                        "symtorch: in-place %s on a concrete tensor with a symbolic operand (create it under symbolic_factories)" % name
                    )
                if isinstance(a0, torch.Tensor):
                    a0 = SymTensor(to_obj(a0), a0.dtype == torch.bool)
                else:
                    return NotImplemented
            return getattr(a0, name)(*args[1:], **kwargs)
        raise NotImplementedError("symtorch: no handler for %r" % (func,))

    # ---- attributes -----------------------------------------------------------------------
    @property
    def shape(self):
        return torch.Size(self.a.shape)

    @property
    def dtype(self):
        return torch.bool if self.isbool else torch.float64

    @property
    def device(self):
        return torch.device("cpu")

    @property
    def ndim(self):
        return self.a.ndim

    @property
    def data(self):
        return self

    @property
    def T(self):
        return SymTensor(self.a.T, self.isbool)

    @property
    def mT(self):
        return SymTensor(np.swapaxes(self.a, -1, -2), self.isbool)

    @property
    def real(self):
        return self

    def dim(self):
        return self.a.ndim

    def size(self, d=None):
        return self.shape if d is None else self.a.shape[d]

    def numel(self):
        return self.a.size

    def nelement(self):
        return self.a.size

    def __len__(self):
        return self.a.shape[0]

    def __iter__(self):
        for i in range(self.a.shape[0]):
            yield SymTensor(self.a[i], self.isbool)

    def is_floating_point(self):
        return not self.isbool

    def is_complex(self):
        return False

    def is_contiguous(self):
        return True

    def element_size(self):
        return 8

    def clone(self, *a, **k):
        return SymTensor(self.a.copy(), self.isbool)

    is_leaf_model = True  # False: stands for a non-leaf tensor (output of a differentiable computation)

    def __deepcopy__(self, memo):
        # torch.Tensor.__deepcopy__: only graph leaves can be deep-copied, and the copy is a new leaf that is not connected
        # to the original, i.e. derivatives w.r.t. the original do not flow into it (tangents are dropped)
        if not self.is_leaf_model:
            raise RuntimeError("Only Tensors created explicitly by the user (graph leaves) support the deepcopy protocol at the moment")
        a = np.empty(self.a.shape, dtype=object)
        fa, fs = a.reshape(-1), self.a.reshape(-1)
        for i in range(fs.size):
            fa[i] = fs[i].v if isinstance(fs[i], Dual) else fs[i]
        r = SymTensor(a, self.isbool)
        r.requires_grad = self.requires_grad
        return r

    def detach(self):
        # shares storage like torch's detach(); the copy carries no autograd-history model and does not require grad
        if ST.grad_model and ST.dual_n > 0:
            return SymTensor(_strip_tangents(self.a), self.isbool)  # values only: no derivative flows through detach()
        return SymTensor(self.a, self.isbool)

    def detach_(self):
        self.hist = None
        self.requires_grad = False
        return self

    def contiguous(self, *a, **k):
        return self

    def conj(self):
        return self  # real-valued model

    def cpu(self):
        return self

    def requires_grad_(self, requires_grad=True):
        self.requires_grad = bool(requires_grad)
        return self

    def retain_grad(self):
        return self

    def to(self, *a, **k):
        dt = k.get("dtype")
        for x in a:
            if isinstance(x, torch.dtype):
                dt = x
        return self._cast(dt)

    def _cast(self, dt):
        if dt is None or dt == self.dtype:
            return self
        if dt == torch.bool:
            if self.isbool:
                return self
            return SymTensor(_f_ne(self.a, to_obj(0)), True)
        if self.isbool:
            return SymTensor(_f_ite(self.a, to_obj(1), to_obj(0)), False)
        if dt in (torch.float64, torch.float32, torch.float16):
            return self
        # integer cast truncates toward zero (identity on integral values)
        return self.trunc()

    def type(self, dt=None, **k):
        if dt is None:
            return "torch.DoubleTensor"
        if isinstance(dt, str):
            return self
        return self._cast(dt)

    def double(self):
        return self._cast(torch.float64)

    def float(self):
        return self._cast(torch.float64)

    def bool(self):
        return self._cast(torch.bool)

    def long(self):
        return torch.from_numpy(concretize_int(self))

    def int(self):
        return torch.from_numpy(concretize_int(self)).int()

    def item(self):
        assert self.a.size == 1
        e = self.a.reshape(-1)[0]
        if self.isbool:
            s = z3.simplify(e)
            if z3.is_true(s):
                return True
            if z3.is_false(s):
                return False
            return _decide(e)
        s = z3.simplify(val(e))
        if _is_const(s):
            f = _frac(s)
            return float(f)
        # a symbolic python scalar: keep it symbolic as a 0-dim SymTensor (supports arithmetic/compare)
        return SymTensor(self.a.reshape(()), False)

    def tolist(self):
        return [SymTensor(np.asarray(e, dtype=object).reshape(()), self.isbool) if not isinstance(e, list) else e for e in self.a.tolist()]

    def __int__(self):
        e = self.a.reshape(-1)[0]
        if self.isbool:
            return int(bool(self))
        s_ = z3.simplify(val(e))
        if _is_const(s_):
            return int(_frac(s_))
        for k in range(0, 65):
            if _decide(val(e) == k):
                return k
        raise TypeError("symbolic integer outside [0,64]")

    def __float__(self):
        s = z3.simplify(val(self.a.reshape(-1)[0]))
        if _is_const(s):
            return float(_frac(s))
        if ST.float_placeholder is not None:
            return ST.float_placeholder
        raise TypeError("symbolic value has no float()")

    def __bool__(self):
        assert self.a.size == 1, "bool() of a multi-element tensor"
        e = self.a.reshape(-1)[0]
        if not self.isbool:
            e = val(e) != 0
        s = z3.simplify(e)
        if z3.is_true(s):
            return True
        if z3.is_false(s):
            return False
        return _decide(e)

    def __repr__(self):
        return "SymTensor(shape=%s%s)" % (tuple(self.a.shape), ", bool" if self.isbool else "")

    def __hash__(self):
        return id(self)

    # ---- shape ops (views where numpy gives views) --------------------------------------------
    def unsqueeze(self, d):
        return SymTensor(np.expand_dims(self.a, d if d >= 0 else self.a.ndim + 1 + d), self.isbool)

    def squeeze(self, d=None):
        if d is not None and self.a.shape[d] != 1:
            return self
        return SymTensor(np.squeeze(self.a, axis=d), self.isbool)

    def transpose(self, i, j):
        return SymTensor(np.swapaxes(self.a, i, j), self.isbool)

    swapaxes = transpose

    def t(self):
        return SymTensor(self.a.T, self.isbool)

    def permute(self, *dims):
        return SymTensor(np.transpose(self.a, _shape_arg(dims)), self.isbool)

    def reshape(self, *s):
        return SymTensor(self.a.reshape(_shape_arg(s)), self.isbool)

    view = reshape

    def view_as(self, o):
        return self.reshape(tuple(o.shape))

    reshape_as = view_as

    def flatten(self, start_dim=0, end_dim=-1):
        sh = self.a.shape
        nd = len(sh)
        s, e = start_dim % nd, end_dim % nd
        new = sh[:s] + (int(np.prod(sh[s : e + 1])),) + sh[e + 1 :]
        return SymTensor(self.a.reshape(new), self.isbool)

    def expand(self, *sz):
        sz = list(_shape_arg(sz))
        nd = len(sz)
        sh = (1,) * (nd - self.a.ndim) + tuple(self.a.shape)
        sz = [sh[i] if s == -1 else s for i, s in enumerate(sz)]
        return SymTensor(np.broadcast_to(self.a.reshape(sh), sz).copy(), self.isbool)

    def expand_as(self, o):
        return self.expand(*o.shape)

    def repeat(self, *r):
        r = _shape_arg(r)
        a = self.a.reshape((1,) * (len(r) - self.a.ndim) + tuple(self.a.shape))
        return SymTensor(np.tile(a, r), self.isbool)

    def unbind(self, dim=0):
        return tuple(SymTensor(np.take(self.a, i, axis=dim), self.isbool) for i in range(self.a.shape[dim]))

    def chunk(self, n, dim=0):
        return tuple(SymTensor(x, self.isbool) for x in np.array_split(self.a, n, axis=dim))

    def split(self, size, dim=0):
        n = self.a.shape[dim]
        if isinstance(size, int):
            cuts = list(range(size, n, size))
        else:
            cuts = list(np.cumsum(size)[:-1])
        return tuple(SymTensor(x, self.isbool) for x in np.split(self.a, cuts, axis=dim))

    def diagonal(self, offset=0, dim1=0, dim2=1):
        d = np.diagonal(self.a, offset, dim1, dim2)
        # numpy returns a read-only *view*; torch's view is writable (adaptive_mix writes the mixed diagonal through it)
        try:
            d.setflags(write=True)
        except ValueError:
            d = d.copy()
        return SymTensor(d, self.isbool)

    def diag(self, diagonal=0):
        if self.a.ndim == 1:
            n = self.a.shape[0]
            out = _zeros((n, n))
            for i in range(n):
                out[i, i] = self.a[i]
            return SymTensor(out)
        return self.diagonal(diagonal)

    def triu(self, diagonal=0):
        out = self.a.copy()
        n, m = out.shape[-2:]
        z = z3.BoolVal(False) if self.isbool else lift(0)
        for i in range(n):
            for j in range(m):
                if j - i < diagonal:
                    out[..., i, j] = z
        return SymTensor(out, self.isbool)

    def tril(self, diagonal=0):
        out = self.a.copy()
        n, m = out.shape[-2:]
        z = z3.BoolVal(False) if self.isbool else lift(0)
        for i in range(n):
            for j in range(m):
                if j - i > diagonal:
                    out[..., i, j] = z
        return SymTensor(out, self.isbool)

    def flip(self, *dims):
        return SymTensor(np.flip(self.a, axis=_shape_arg(dims)), self.isbool)

    def roll(self, shifts, dims=None):
        return SymTensor(np.roll(self.a, shifts, axis=dims), self.isbool)

    def narrow(self, dim, start, length):
        sl = [slice(None)] * self.a.ndim
        sl[dim] = slice(start, start + length)
        return SymTensor(self.a[tuple(sl)], self.isbool)

    def select(self, dim, index):
        return SymTensor(np.take(self.a, index, axis=dim), self.isbool)

    def new_zeros(self, *s, **k):
        return SymTensor(_zeros(_shape_arg(s)))

    def new_ones(self, *s, **k):
        return SymTensor(_full(_shape_arg(s), 1))

    def new_empty(self, *s, **k):
        return SymTensor(_zeros(_shape_arg(s)))

    def new_full(self, s, v, **k):
        return SymTensor(_full(tuple(s), v))

    def new_tensor(self, data, **k):
        return SymTensor(to_obj(torch.as_tensor(data, dtype=torch.float64)))

    # ---- indexing ---------------------------------------------------------------------------
    def __getitem__(self, idx):
        return SymTensor(self.a[_conv_index(idx)], self.isbool)

    def __setitem__(self, idx, v):
        if isinstance(idx, SymTensor) and idx.isbool:
            vo = to_obj(v)
            flat = [z3.simplify(x) if isinstance(x, z3.ExprRef) else x for x in idx.a.reshape(-1)]
            if all(isinstance(x, (bool, np.bool_)) or z3.is_true(x) or z3.is_false(x) for x in flat):
                # a mask of constants: ordinary boolean-mask assignment
                mask = np.array([bool(x) if isinstance(x, (bool, np.bool_)) else z3.is_true(x) for x in flat], dtype=bool).reshape(idx.a.shape)
                if _untracked():
                    vo = _strip_tangents(vo)
                if vo.ndim == 0:
                    vo = vo[()]
                self.a[mask] = vo
                return
            if vo.ndim == 0 or ST.explorer is None:
                # predicated assignment of a broadcast value: merge as ite
                m = idx.a.reshape(idx.a.shape + (1,) * (self.a.ndim - idx.a.ndim))
                m = np.broadcast_to(m, self.a.shape)
                vb = np.broadcast_to(vo, self.a.shape)
                self.a[...] = _f_ite(m, vb, self.a)
                return
            idx = concretize_mask(idx)
        vo = to_obj(v)
        if _untracked():
            vo = _strip_tangents(vo)  # an in-place write under no_grad stores values only
        if vo.ndim == 0:
            vo = vo[()]  # a 0-d object array would otherwise be stored as an array inside the element
        self.a[_conv_index(idx)] = vo

    def index_select(self, dim, index):
        return SymTensor(np.take(self.a, index.numpy(), axis=dim), self.isbool)

    def gather(self, dim, index):
        return SymTensor(np.take_along_axis(self.a, index.numpy(), axis=dim), self.isbool)

    def masked_fill(self, mask, value):
        out = self.clone()
        out.masked_fill_(mask, value)
        return out

    def masked_fill_(self, mask, value):
        if isinstance(mask, SymTensor):
            m = np.broadcast_to(mask.a, self.a.shape)
            self.a[...] = _f_ite(m, np.broadcast_to(to_obj(value), self.a.shape), self.a)
        else:
            m = np.broadcast_to(mask.numpy(), self.a.shape)
            self.a[m] = lift(value) if not isinstance(value, (SymTensor, torch.Tensor)) else to_obj(value).reshape(-1)[0]
        return self

    def index_add_(self, dim, index, src, alpha=1):
        s = to_obj(src)
        idx = index.numpy() if isinstance(index, torch.Tensor) else np.asarray(index)
        a = np.moveaxis(self.a, dim, 0)
        s = np.moveaxis(s, dim, 0)
        for k, i in enumerate(idx):
            a[i] = a[i] + (s[k] if alpha == 1 else s[k] * lift(alpha))
        return self

    def index_add(self, dim, index, src, alpha=1):
        return self.clone().index_add_(dim, index, src, alpha)

    def index_copy_(self, dim, index, src):
        s = np.moveaxis(to_obj(src), dim, 0)
        a = np.moveaxis(self.a, dim, 0)
        for k, i in enumerate(index.numpy()):
            a[i] = s[k]
        return self

    def index_put_(self, indices, values, accumulate=False):
        idx = _conv_index(tuple(indices))
        v = np.broadcast_to(to_obj(values), self.a[idx].shape)
        if not accumulate:
            self.a[idx] = v
        else:
            bidx = np.broadcast_arrays(*idx)
            for k in np.ndindex(bidx[0].shape):
                pos = tuple(b[k] for b in bidx)
                self.a[pos] = self.a[pos] + v[k]
        return self

    def scatter_(self, dim, index, src=None, value=None):
        s = to_obj(src) if src is not None else None
        if isinstance(index, SymTensor):
            index = torch.from_numpy(concretize_int(index))
        ind = index.numpy() if isinstance(index, torch.Tensor) else np.asarray(index)
        for k in np.ndindex(ind.shape):
            pos = list(k)
            pos[dim] = int(ind[k])
            self.a[tuple(pos)] = s[k] if s is not None else lift(value)
        return self

    def scatter(self, dim, index, src=None, value=None):
        return self.clone().scatter_(dim, index, src, value)

    def scatter_add_(self, dim, index, src):
        s = to_obj(src)
        ind = index.numpy()
        for k in np.ndindex(ind.shape):
            pos = list(k)
            pos[dim] = ind[k]
            self.a[tuple(pos)] = self.a[tuple(pos)] + s[k]
        return self

    # ---- arithmetic -------------------------------------------------------------------------
    def _bin(self, o, f, isbool=False):
        if o is None:
            return NotImplemented
        return SymTensor(f(to_obj(self), to_obj(o)), isbool)

    def __add__(s, o):
        return s._bin(o, lambda a, b: a + b)

    __radd__ = __add__
    add = __add__

    def __sub__(s, o):
        return s._bin(o, lambda a, b: a - b)

    sub = __sub__

    def __rsub__(s, o):
        return s._bin(o, lambda a, b: b - a)

    def __mul__(s, o):
        if s.isbool or _isbool_like(o):
            if s.isbool and _isbool_like(o):
                return s.__and__(o)
            # bool * real: mask multiplication
            b, r = (s, o) if s.isbool else (o, s)
            bo = to_obj(b) if isinstance(b, SymTensor) else _bool_obj(b)
            ro = to_obj(r)
            bo, ro = np.broadcast_arrays(bo, ro)
            return SymTensor(_f_ite(bo, ro, np.broadcast_to(to_obj(0), ro.shape)), False)
        return s._bin(o, lambda a, b: a * b)

    __rmul__ = __mul__
    mul = __mul__

    def __truediv__(s, o):
        return s._bin(o, _f_div)

    div = __truediv__
    true_divide = __truediv__

    def __rtruediv__(s, o):
        return s._bin(o, lambda a, b: _f_div(b, a))

    def __neg__(s):
        return SymTensor(-to_obj(s))

    neg = __neg__

    # floor division / remainder with Python (= torch.remainder) semantics: a = b*floor(a/b) + (a mod b)
    def __floordiv__(s, o):
        return s._bin(o, np.frompyfunc(lambda a, b: z3.ToReal(z3.ToInt(val(a) / val(b))), 2, 1))

    floor_divide = __floordiv__

    def __mod__(s, o):
        return s._bin(o, np.frompyfunc(lambda a, b: val(a) - val(b) * z3.ToReal(z3.ToInt(val(a) / val(b))), 2, 1))

    remainder = __mod__

    def floor(s):
        return SymTensor(np.frompyfunc(lambda a: z3.ToReal(z3.ToInt(val(a))), 1, 1)(to_obj(s)))

    def ceil(s):
        return SymTensor(np.frompyfunc(lambda a: -z3.ToReal(z3.ToInt(-val(a))), 1, 1)(to_obj(s)))

    def trunc(s):
        return SymTensor(np.frompyfunc(lambda a: z3.If(val(a) >= 0, z3.ToReal(z3.ToInt(val(a))), -z3.ToReal(z3.ToInt(-val(a)))), 1, 1)(to_obj(s)))

    def __pos__(s):
        return s

    def __pow__(s, p):
        if isinstance(p, SymTensor) and p.a.size > 1 or isinstance(p, torch.Tensor) and p.numel() > 1:
            po = p.a if isinstance(p, SymTensor) else p.numpy()
            a, po = np.broadcast_arrays(to_obj(s), po)
            out = np.empty(a.shape, dtype=object)
            for k in np.ndindex(a.shape):
                pk = po[k]
                if not isinstance(pk, (int, float, np.number)):
                    pk = _frac(z3.simplify(val(pk)))
                out[k] = e_pow(a[k], pk)
            return SymTensor(out)
        return SymTensor(np.frompyfunc(lambda e: e_pow(e, p), 1, 1)(to_obj(s)))

    pow = __pow__

    def __rpow__(s, base):
        raise NotImplementedError("const ** symbolic")

    def __matmul__(s, o):
        return SymTensor(np.matmul(to_obj(s), to_obj(o)))

    def __rmatmul__(s, o):
        return SymTensor(np.matmul(to_obj(o), to_obj(s)))

    matmul = __matmul__
    mm = __matmul__
    bmm = __matmul__

    def mv(s, o):
        return s.__matmul__(o)

    def dot(s, o):
        return SymTensor(np.sum(to_obj(s) * to_obj(o)))

    def square(s):
        a = to_obj(s)
        return SymTensor(a * a)

    def sqrt(s):
        return SymTensor(_f_sqrt(to_obj(s)))

    def rsqrt(s):
        return SymTensor(_f_div(to_obj(1), _f_sqrt(to_obj(s))))

    def reciprocal(s):
        return SymTensor(_f_div(to_obj(1), to_obj(s)))

    def exp(s):
        return SymTensor(_f_exp(to_obj(s)))

    def expm1(s):
        return SymTensor(_f_expm1(to_obj(s)))

    def log(s):
        return SymTensor(_f_log(to_obj(s)))

    def sin(s):
        return SymTensor(_f_sin(to_obj(s)))

    def cos(s):
        return SymTensor(_f_cos(to_obj(s)))

    def abs(s):
        return SymTensor(_f_abs(to_obj(s)))

    __abs__ = abs
    absolute = abs

    def sign(s):
        return SymTensor(_f_sign(to_obj(s)))

    def clamp(s, min=None, max=None):
        a = to_obj(s)
        if min is not None:
            a = _f_max2(a, np.broadcast_to(to_obj(min), a.shape))
        if max is not None:
            a = _f_min2(a, np.broadcast_to(to_obj(max), a.shape))
        return SymTensor(a)

    clip = clamp

    def clamp_min(s, min):
        return s.clamp(min=min)

    def clamp_max(s, max):
        return s.clamp(max=max)

    def clamp_(s, min=None, max=None):
        s.a[...] = s.clamp(min, max).a
        return s

    def clamp_min_(s, min):
        s.a[...] = s.clamp(min=min).a
        return s

    def maximum(s, o):
        a, b = np.broadcast_arrays(to_obj(s), to_obj(o))
        return SymTensor(_f_max2(a, b))

    def minimum(s, o):
        a, b = np.broadcast_arrays(to_obj(s), to_obj(o))
        return SymTensor(_f_min2(a, b))

    # in-place (write through views)
    def _inplace(self, new):
        self.a[...] = np.broadcast_to(new, self.a.shape)
        return self

    def add_(s, o, alpha=1):
        o = to_obj(o)
        if alpha != 1:
            o = o * to_obj(alpha)
        return s._inplace(to_obj(s) + o)

    def sub_(s, o, alpha=1):
        o = to_obj(o)
        if alpha != 1:
            o = o * to_obj(alpha)
        return s._inplace(to_obj(s) - o)

    def mul_(s, o):
        return s._inplace((s * o).a)

    def div_(s, o):
        return s._inplace(_f_div(to_obj(s), to_obj(o)))

    def neg_(s):
        return s._inplace(-to_obj(s))

    def addcmul_(s, t1, t2, value=1):
        return s._inplace(to_obj(s) + to_obj(value) * to_obj(t1) * to_obj(t2))

    def copy_(s, o, *a, **k):
        return s._inplace(to_obj(o))

    def zero_(s):
        return s._inplace(to_obj(False) if s.isbool else to_obj(0))

    def fill_(s, v):
        return s._inplace(to_obj(v))

    def __iadd__(s, o):
        return s.add_(o)

    def __isub__(s, o):
        return s.sub_(o)

    def __imul__(s, o):
        return s.mul_(o)

    def __itruediv__(s, o):
        return s.div_(o)

    # ---- comparison / logic -----------------------------------------------------------------
    def __lt__(s, o):
        return s._bin(o, _f_lt, True)

    def __le__(s, o):
        return s._bin(o, _f_le, True)

    def __gt__(s, o):
        return s._bin(o, _f_gt, True)

    def __ge__(s, o):
        return s._bin(o, _f_ge, True)

    def __eq__(s, o):
        if o is None:
            return False
        if s.isbool:
            return SymTensor(_f_not(_f_xor(s.a, _bool_obj(o))), True)
        return s._bin(o, _f_eq, True)

    def __ne__(s, o):
        if o is None:
            return True
        if s.isbool:
            return SymTensor(_f_xor(s.a, _bool_obj(o)), True)
        return s._bin(o, _f_ne, True)

    lt, le, gt, ge, eq, ne = __lt__, __le__, __gt__, __ge__, __eq__, __ne__

    def __invert__(s):
        assert s.isbool
        return SymTensor(_f_not(s.a), True)

    logical_not = __invert__

    def __and__(s, o):
        return SymTensor(_f_and(*np.broadcast_arrays(s.a, _bool_obj(o))), True)

    __rand__ = __and__
    logical_and = __and__

    def __or__(s, o):
        return SymTensor(_f_or(*np.broadcast_arrays(s.a, _bool_obj(o))), True)

    __ror__ = __or__
    logical_or = __or__

    def __xor__(s, o):
        return SymTensor(_f_xor(*np.broadcast_arrays(s.a, _bool_obj(o))), True)

    def nonzero(s, as_tuple=False):
        m = concretize_mask(s if s.isbool else s._cast(torch.bool))
        return torch.nonzero(torch.from_numpy(m), as_tuple=as_tuple)

    def isnan(s):
        return SymTensor(_zeros(s.a.shape, True), True)

    def isinf(s):
        return SymTensor(_zeros(s.a.shape, True), True)

    def isfinite(s):
        out = np.empty(s.a.shape, dtype=object)
        out[...] = z3.BoolVal(True)
        return SymTensor(out, True)

    # ---- reductions ---------------------------------------------------------------------------
    def sum(self, dim=None, keepdim=False, dtype=None, **kw):
        if "axis" in kw:
            dim = kw["axis"]
        a = to_obj(self._cast(torch.float64) if self.isbool else self)
        if a.size == 0:
            sh = np.sum(np.zeros(a.shape), axis=_ax(dim), keepdims=keepdim).shape
            return SymTensor(_zeros(sh))
        r = np.sum(a, axis=_ax(dim), keepdims=keepdim)
        if not isinstance(r, np.ndarray):
            t = np.empty((), dtype=object)
            t[()] = r
            r = t
        return SymTensor(r)

    def mean(self, dim=None, keepdim=False):
        s = self.sum(dim, keepdim)
        n = self.a.size // max(1, s.a.size)
        return s / n

    def prod(self, dim=None, keepdim=False):
        r = np.prod(to_obj(self), axis=_ax(dim), keepdims=keepdim)
        if not isinstance(r, np.ndarray):
            t = np.empty((), dtype=object)
            t[()] = r
            r = t
        return SymTensor(r)

    def argmax(self, dim=None, keepdim=False):
        return _argmax(self, dim, keepdim)

    def cumsum(self, dim):
        return SymTensor(np.cumsum(to_obj(self), axis=dim))

    def trace(self):
        return SymTensor(np.trace(to_obj(self)))

    def _reduce_bool(self, dim, f, empty):
        if dim is None:
            xs = self.a.reshape(-1).tolist()
            out = np.empty((), dtype=object)
            out[()] = f(*xs) if xs else z3.BoolVal(empty)
            return SymTensor(out, True)
        a = np.moveaxis(self.a, dim, -1)
        out = np.empty(a.shape[:-1], dtype=object)
        for k in np.ndindex(out.shape):
            xs = a[k].tolist()
            out[k] = f(*xs) if xs else z3.BoolVal(empty)
        return SymTensor(out, True)

    def any(self, dim=None, keepdim=False):
        s = self if self.isbool else self._cast(torch.bool)
        return s._reduce_bool(dim, z3.Or, False)

    def all(self, dim=None, keepdim=False):
        s = self if self.isbool else self._cast(torch.bool)
        return s._reduce_bool(dim, z3.And, True)

    def _minmax(self, dim, keepdim, f2):
        a = to_obj(self)
        if dim is None:
            xs = a.reshape(-1).tolist()
            out = np.empty((), dtype=object)
            out[()] = functools.reduce(f2, xs)
            return SymTensor(out)
        a = np.moveaxis(a, dim, -1)
        out = np.empty(a.shape[:-1], dtype=object)
        for k in np.ndindex(out.shape):
            out[k] = functools.reduce(f2, a[k].tolist())
        r = SymTensor(out)
        if keepdim:
            r = r.unsqueeze(dim)
        return _MinMax(r, None)

    def max(self, dim=None, keepdim=False):
        if isinstance(dim, (SymTensor, torch.Tensor)):
            return self.maximum(dim)
        return self._minmax(dim, keepdim, e_max2)

    def min(self, dim=None, keepdim=False):
        if isinstance(dim, (SymTensor, torch.Tensor)):
            return self.minimum(dim)
        return self._minmax(dim, keepdim, e_min2)

    def amax(self, dim=None, keepdim=False):
        dims = [dim] if isinstance(dim, int) else (list(dim) if dim is not None else list(range(self.a.ndim)))
        r = self
        for d in sorted([d % self.a.ndim for d in dims], reverse=True):
            r = r._minmax(d, keepdim, e_max2)[0]
        return r

    def amin(self, dim=None, keepdim=False):
        dims = [dim] if isinstance(dim, int) else (list(dim) if dim is not None else list(range(self.a.ndim)))
        r = self
        for d in sorted([d % self.a.ndim for d in dims], reverse=True):
            r = r._minmax(d, keepdim, e_min2)[0]
        return r

    def norm(self, p="fro", dim=None, keepdim=False, **kw):
        a = to_obj(self)
        if p in ("fro", 2, None, 2.0):
            s = np.sum(a * a, axis=_ax(dim), keepdims=keepdim)
            if not isinstance(s, np.ndarray):
                t = np.empty((), dtype=object)
                t[()] = s
                s = t
            return SymTensor(_f_sqrt(s))
        if p in (float("inf"), "inf"):
            return SymTensor(_f_abs(a)).amax(dim, keepdim) if dim is not None else SymTensor(_f_abs(a)).max()
        if p == 1:
            return SymTensor(_f_abs(a)).sum(dim, keepdim)
        raise NotImplementedError("norm p=%r" % (p,))

    def where(self, cond, other):
        return _where(cond, self, other)

    def allclose(self, other, rtol=1e-05, atol=1e-08, equal_nan=False):
        a, b = np.broadcast_arrays(to_obj(self), to_obj(other))
        conds = []
        for k in np.ndindex(a.shape):
            d = e_abs(a[k] - b[k])
            conds.append(val(d) <= rv(atol) + rv(rtol) * val(e_abs(b[k])))
        return bool(SymTensor(np.array(z3.And(*conds), dtype=object).reshape(()), True))


class _MinMax(tuple):
    """result of max/min along a dim: (values, indices) where indices are not modelled"""

    def __new__(cls, values, indices):
        return tuple.__new__(cls, (values, indices))

    @property
    def values(self):
        return self[0]

    @property
    def indices(self):
        raise NotImplementedError("argmax/argmin indices of a symbolic tensor")


def _bool_obj(x):
    if isinstance(x, SymTensor):
        assert x.isbool
        return x.a
    if isinstance(x, torch.Tensor):
        x = x.numpy()
    if isinstance(x, np.ndarray):
        out = np.empty(x.shape, dtype=object)
        for k in np.ndindex(x.shape):
            out[k] = z3.BoolVal(bool(x[k]))
        return out
    out = np.empty((), dtype=object)
    out[()] = x if isinstance(x, z3.ExprRef) else z3.BoolVal(bool(x))
    return out


def _where(cond, x=None, y=None):
    if x is None:
        # torch.where(mask) -> indices
        m = concretize_mask(cond) if isinstance(cond, SymTensor) else cond.numpy()
        return tuple(torch.from_numpy(i) for i in np.nonzero(m))
    xb, yb = _isbool_like(x), _isbool_like(y)
    isb = xb and yb
    xo = _bool_obj(x) if isb else to_obj(x)
    yo = _bool_obj(y) if isb else to_obj(y)
    if isinstance(cond, SymTensor):
        c, xo, yo = np.broadcast_arrays(cond.a, xo, yo)
        return SymTensor(_f_ite(c, xo, yo), isb)
    c = cond.numpy() if isinstance(cond, torch.Tensor) else np.asarray(cond)
    c, xo, yo = np.broadcast_arrays(c, xo, yo)
    out = np.where(c, xo, yo)
    return SymTensor(out.astype(object), isb)


# ----------------------------------------------------------------------------------------------
# torch.* function handlers
# ----------------------------------------------------------------------------------------------


def _like(x, fill, isbool=None, dtype=None):
    shape = tuple(x.shape)
    if dtype is not None and dtype not in (torch.float64, torch.float32):
        return _REAL["full"](shape, fill, dtype=dtype)
    b = x.isbool if isinstance(x, SymTensor) and isbool is None else bool(isbool)
    if b:
        out = np.empty(shape, dtype=object)
        out[...] = z3.BoolVal(bool(fill))
        return SymTensor(out, True)
    return SymTensor(_full(shape, fill))


@implements(torch.zeros_like, torch.empty_like)
def _zeros_like(x, dtype=None, **kw):
    return _like(x, 0, dtype=dtype)


@implements(torch.ones_like)
def _ones_like(x, dtype=None, **kw):
    return _like(x, 1, dtype=dtype)


@implements(torch.full_like)
def _full_like(x, v, dtype=None, **kw):
    return _like(x, v, dtype=dtype)


@implements(torch.randn_like, torch.rand_like)
def _randn_like(x, **kw):
    raise NotImplementedError("random draw on a symbolic tensor: stub it in the harness")


@implements(torch.cat, torch.concatenate)
def _cat(ts, dim=0, **kw):
    ts = [t for t in ts if not (isinstance(t, torch.Tensor) and t.numel() == 0 and t.dim() == 1 and len(ts) > 1)]
    isb = all(_isbool_like(t) for t in ts)
    return SymTensor(np.concatenate([(_bool_obj(t) if isb else to_obj(t)) for t in ts], axis=dim), isb)


@implements(torch.stack)
def _stack(ts, dim=0, **kw):
    isb = all(_isbool_like(t) for t in ts)
    return SymTensor(np.stack([(_bool_obj(t) if isb else to_obj(t)) for t in ts], axis=dim), isb)


@implements(torch.einsum)
def _einsum(eq, *ops):
    if len(ops) == 1 and isinstance(ops[0], (list, tuple)):
        ops = ops[0]
    return SymTensor(np.einsum(eq, *[to_obj(o) for o in ops], optimize=False))


@implements(torch.linalg.solve)
def _h_solve(A, B, left=True, **kw):
    """x = solve(A, B): fresh unknowns X constrained by A X = B (the unique solution when A is non-singular, which is the
    documented precondition of torch.linalg.solve); the triple is recorded so that a harness can reason coefficient-wise."""
    a, b = to_obj(A), to_obj(B)
    if not left or a.ndim < 2 or b.ndim != a.ndim:
        raise NotImplementedError("linalg.solve: only A (..., n, n) X = B (..., n, k)")
    x = np.empty(b.shape, dtype=object)
    for k in np.ndindex(x.shape):
        x[k] = fresh("lsx")
    prod = np.matmul(a, x)
    for k in np.ndindex(x.shape):
        ST.side.append(prod[k] == b[k])
        ST.side_raw.append(prod[k] == b[k])
    ST.solves.append(("solve", a.copy(), b.copy(), x.copy()))
    return SymTensor(x)


@implements(torch.inverse, torch.linalg.inv)
def _h_inverse(A, **kw):
    """inverse(A): fresh unknowns X with A X = I and X A = I (A non-singular is torch's precondition)"""
    a = to_obj(A)
    n = a.shape[-1]
    x = np.empty(a.shape, dtype=object)
    for k in np.ndindex(x.shape):
        x[k] = fresh("inv")
    eye = np.empty((n, n), dtype=object)
    for i in range(n):
        for j in range(n):
            eye[i, j] = ONE if i == j else ZERO
    for prod in (np.matmul(a, x), np.matmul(x, a)):
        for k in np.ndindex(x.shape):
            ST.side.append(prod[k] == eye[k[-2], k[-1]])
            ST.side_raw.append(prod[k] == eye[k[-2], k[-1]])
    ST.solves.append(("inverse", a.copy(), None, x.copy()))
    return SymTensor(x)


@implements(torch.lerp)
def _h_lerp(a, b, weight):
    # torch.lerp(a, b, w) = a + w * (b - a)
    return a + (b - a) * weight


@implements(torch.where)
def _where_h(cond, x=None, y=None):
    return _where(cond, x, y)


@implements(torch.cross, torch.linalg.cross)
def _cross(a, b, dim=-1):
    a, b = np.broadcast_arrays(to_obj(a), to_obj(b))
    a = np.moveaxis(a, dim, -1)
    b = np.moveaxis(b, dim, -1)
    out = np.empty(a.shape, dtype=object)
    out[..., 0] = a[..., 1] * b[..., 2] - a[..., 2] * b[..., 1]
    out[..., 1] = a[..., 2] * b[..., 0] - a[..., 0] * b[..., 2]
    out[..., 2] = a[..., 0] * b[..., 1] - a[..., 1] * b[..., 0]
    return SymTensor(np.moveaxis(out, -1, dim))


@implements(torch.baddbmm)
def _baddbmm(inp, b1, b2, beta=1, alpha=1):
    return SymTensor(to_obj(beta) * to_obj(inp) + to_obj(alpha) * np.matmul(to_obj(b1), to_obj(b2)))


@implements(torch.addcmul)
def _addcmul(inp, t1, t2, value=1):
    return SymTensor(to_obj(inp) + to_obj(value) * to_obj(t1) * to_obj(t2))


@implements(torch.linalg.norm, torch.linalg.vector_norm)
def _lnorm(x, ord=None, dim=None, keepdim=False, **kw):
    return x.norm(2 if ord is None else ord, dim, keepdim)


@implements(torch.linalg.vecdot)
def _vecdot(x, y, dim=-1):
    a, b = np.broadcast_arrays(to_obj(x), to_obj(y))
    return SymTensor(np.sum(a * b, axis=dim))


@implements(torch.diag_embed)
def _diag_embed(x, offset=0, dim1=-2, dim2=-1):
    a = to_obj(x)
    n = a.shape[-1]
    out = _zeros(a.shape + (n,))
    for i in range(n):
        out[..., i, i] = a[..., i]
    return SymTensor(out)


@implements(torch.diagonal)
def _diagonal(x, offset=0, dim1=0, dim2=1):
    return x.diagonal(offset, dim1, dim2)


@implements(torch.atleast_1d)
def _atleast_1d(x):
    return x if x.a.ndim >= 1 else x.reshape(1)


@implements(torch.broadcast_tensors)
def _bt(*ts):
    arrs = np.broadcast_arrays(*[to_obj(t) for t in ts])
    return tuple(SymTensor(a.copy()) for a in arrs)


@implements(torch.numel)
def _numel(x):
    return x.a.size


@implements(torch.is_complex)
def _is_complex(x):
    return False


@implements(torch.is_floating_point)
def _is_fp(x):
    return not x.isbool


@implements(torch.Tensor.__getitem__)
def _t_getitem(t, idx):
    # concrete tensor indexed by a symbolic mask / tuple containing one
    return t[_to_torch_index(idx)]


def _to_torch_index(idx):
    def conv(i):
        if isinstance(i, SymTensor):
            return torch.from_numpy(concretize_mask(i) if i.isbool else concretize_int(i))
        return i

    if isinstance(idx, tuple):
        return tuple(conv(i) for i in idx)
    return conv(idx)


@implements(torch.Tensor.__setitem__)
def _t_setitem(t, idx, v):
    if isinstance(v, SymTensor):
        # allowed only when the symbolic value is in fact concrete and the destination is non-float (e.g. bool flags)
        if v.isbool or t.dtype in (torch.bool, torch.int64, torch.int32):
            if v.isbool:
                m = concretize_mask(v)
                t[_to_torch_index(idx)] = torch.from_numpy(np.asarray(m))
                return
        raise NotImplementedError("symtorch: assigning a symbolic value into a concrete tensor (create it under symbolic_factories)")
    t[_to_torch_index(idx)] = v


@implements(torch.Tensor.index_add_)
def _t_index_add_(t, dim, index, src, **kw):
    raise NotImplementedError("symtorch: index_add_ of symbolic source into a concrete tensor")


@implements(torch.Tensor.expand_as, torch.Tensor.view_as, torch.Tensor.reshape_as)
def _shape_like(t, other):
    # a concrete tensor shaped like a symbolic one stays concrete
    if isinstance(t, SymTensor):
        return t.expand(*other.shape)
    return t.expand(tuple(other.shape)) if t.dim() <= len(other.shape) and t.numel() != int(np.prod(tuple(other.shape))) else t.reshape(tuple(other.shape))


@implements(torch.nonzero)
def _nonzero(x, as_tuple=False):
    m = concretize_mask(x if x.isbool else x._cast(torch.bool))
    return torch.nonzero(torch.from_numpy(m), as_tuple=as_tuple)


@implements(torch.argmax)
def _argmax(x, dim=None, keepdim=False):
    """argmax of a symbolic tensor: element order decided by the explorer (first maximal index, like torch)"""
    a = to_obj(x)
    if dim is None:
        a = a.reshape(1, -1)
        dim_ = 1
    else:
        dim_ = dim % a.ndim
    am = np.moveaxis(a, dim_, -1)
    out = np.zeros(am.shape[:-1], dtype=np.int64)
    for k in np.ndindex(out.shape):
        best = 0
        for j in range(1, am.shape[-1]):
            if _decide(val(am[k][j]) > val(am[k][best])):
                best = j
        out[k] = best
    r = torch.from_numpy(out)
    return r.reshape(()) if dim is None else r


@implements(torch.allclose)
def _allclose(a, b, rtol=1e-05, atol=1e-08, equal_nan=False):
    a = a if isinstance(a, SymTensor) else SymTensor(to_obj(a))
    return a.allclose(b, rtol, atol)


@implements(torch.equal)
def _equal(a, b):
    a = a if isinstance(a, SymTensor) else SymTensor(to_obj(a))
    return bool((a == b).all())


# ----------------------------------------------------------------------------------------------
# factory patching: float tensors created inside the code under test become symbolic containers
# ----------------------------------------------------------------------------------------------

_REAL = {n: getattr(torch, n) for n in ("empty", "zeros", "ones", "full", "eye", "tensor", "as_tensor", "is_tensor", "zeros_like", "ones_like", "empty_like", "full_like")}
_FLOAT = (None, torch.float64, torch.float32, torch.float16)


class symbolic_factories:
    """context manager: torch.zeros/ones/empty/full/eye/tensor/as_tensor return SymTensor for float dtypes."""

    def __init__(self, default_float=True, bool_symbolic=False):
        self.default_float = default_float
        self.bool_symbolic = bool_symbolic

    def __enter__(self):
        R = _REAL

        def mk(name, fill):
            def f(*size, dtype=None, device=None, requires_grad=False, out=None, **kw):
                if dtype in _FLOAT:
                    return SymTensor(_full(_shape_arg(size), fill))
                if dtype == torch.bool and self.bool_symbolic:
                    out = np.empty(_shape_arg(size), dtype=object)
                    out[...] = z3.BoolVal(bool(fill))
                    return SymTensor(out, True)
                return R[name](*size, dtype=dtype, **kw)

            return f

        def full(size, fill_value, dtype=None, device=None, **kw):
            if isinstance(fill_value, SymTensor) or (dtype in _FLOAT and isinstance(fill_value, float)) or dtype in (torch.float64, torch.float32):
                out = np.empty(tuple(size), dtype=object)
                out[...] = to_obj(fill_value).reshape(-1)[0] if isinstance(fill_value, SymTensor) else lift(fill_value)
                return SymTensor(out)
            return R["full"](size, fill_value, dtype=dtype, **kw)

        def eye(n, m=None, dtype=None, device=None, **kw):
            if dtype in _FLOAT:
                m_ = n if m is None else m
                out = _zeros((n, m_))
                for i in range(min(n, m_)):
                    out[i, i] = lift(1)
                return SymTensor(out)
            return R["eye"](n, *([] if m is None else [m]), dtype=dtype, **kw)

        def _contains_sym(d):
            if isinstance(d, SymTensor):
                return True
            if isinstance(d, (list, tuple)):
                return any(_contains_sym(e) for e in d)
            return False

        def tensor(data, dtype=None, device=None, requires_grad=False, **kw):
            if _contains_sym(data):
                return SymTensor(to_obj(data))
            t = R["tensor"](data, dtype=dtype, **kw)
            if t.is_floating_point():
                return SymTensor(to_obj(t.double()))
            return t

        def as_tensor(data, dtype=None, device=None, **kw):
            if isinstance(data, SymTensor):
                return data._cast(dtype)
            if _contains_sym(data):
                return SymTensor(to_obj(data))
            t = R["as_tensor"](data, dtype=dtype, **kw)
            return t

        def is_tensor(x):
            return isinstance(x, (torch.Tensor, SymTensor))

        def mk_like(name, fill):
            def f(x, *a, dtype=None, **kw):
                if isinstance(x, SymTensor):
                    if name == "full_like":
                        return _like(x, a[0], dtype=dtype)
                    return _like(x, fill, dtype=dtype)
                dt = dtype or x.dtype
                if dt in (torch.float64, torch.float32, torch.float16):
                    return SymTensor(_full(tuple(x.shape), a[0] if name == "full_like" else fill))
                return R[name](x, *a, dtype=dtype, **kw)

            return f

        torch.zeros_like = mk_like("zeros_like", 0)
        torch.ones_like = mk_like("ones_like", 1)
        torch.empty_like = mk_like("empty_like", 0)
        torch.full_like = mk_like("full_like", None)
        torch.empty = mk("empty", 0)
        torch.zeros = mk("zeros", 0)
        torch.ones = mk("ones", 1)
        torch.full = full
        torch.eye = eye
        torch.tensor = tensor
        torch.as_tensor = as_tensor
        torch.is_tensor = is_tensor
        return self

    def __exit__(self, *a):
        for n, f in _REAL.items():
            setattr(torch, n, f)
        return False


# ----------------------------------------------------------------------------------------------
# constructors for harnesses
# ----------------------------------------------------------------------------------------------


def reals(name, shape):
    """SymTensor of fresh named real variables"""
    a = np.empty(shape, dtype=object)
    for k in np.ndindex(*shape) if shape else [()]:
        a[k] = z3.Real(name + "".join("_%d" % i for i in k))
    return a


def sym(name, shape):
    return SymTensor(reals(name, shape))


def sym_symmetric(name, n, batch=None):
    def one(nm):
        a = np.empty((n, n), dtype=object)
        for i in range(n):
            for j in range(i, n):
                a[i, j] = a[j, i] = z3.Real("%s_%d_%d" % (nm, i, j))
        return a

    if batch is None:
        return SymTensor(one(name))
    return SymTensor(np.stack([one("%s%d" % (name, b)) for b in range(batch)]))


def bools(name, shape):
    a = np.empty(shape, dtype=object)
    for k in np.ndindex(*shape) if shape else [()]:
        a[k] = z3.Bool(name + "".join("_%d" % i for i in k))
    return a


def const(t):
    """lift a concrete float tensor to a SymTensor of exact rationals"""
    return SymTensor(to_obj(t), isinstance(t, torch.Tensor) and t.dtype == torch.bool)


def evaluate(expr, subst):
    """evaluate a z3 term under {var: Fraction/float}; auxiliary sqrt/exp variables must be given too"""
    pairs = [(k, rv(v) if not isinstance(v, z3.ExprRef) else v) for k, v in subst.items()]
    e = z3.simplify(z3.substitute(val(expr), *pairs))
    if _is_const(e):
        return _frac(e)
    return e


def free_vars(e):
    from z3 import z3util

    return z3util.get_vars(e)


# ----------------------------------------------------------------------------------------------
# float evaluation of terms (translator validation and replay): auxiliary variables are computed from
# their definitions (sqrt -> math.sqrt of the radicand, exp -> math.exp of the argument, ...)
# ----------------------------------------------------------------------------------------------


def aux_definitions():
    """{aux var name: (kind, defining z3 term)} for every sqrt/uf variable created so far"""
    defs = {}
    for key, v in ST.sq.items():
        defs[str(v[0])] = ("sqrt", v[1])
    for (fname, _), (v, x) in ST.exps.items():
        defs[str(v)] = (fname, x)
    return defs


class FEval:
    def __init__(self, env, defs=None):
        self.env = dict(env)  # name -> float
        self.defs = aux_definitions() if defs is None else defs
        self.cache = {}

    def __call__(self, e):
        e = val(e) if not isinstance(e, z3.ExprRef) else e
        return self.ev(e)

    def ev(self, e):
        i = e.get_id()
        if i in self.cache:
            return self.cache[i]
        r = self._ev(e)
        self.cache[i] = r
        return r

    def _ev(self, e):
        if z3.is_rational_value(e) or z3.is_int_value(e):
            return e.numerator_as_long() / e.denominator_as_long()
        if z3.is_true(e):
            return True
        if z3.is_false(e):
            return False
        if z3.is_const(e) and e.decl().kind() == z3.Z3_OP_UNINTERPRETED:
            n = str(e)
            if n in self.env:
                return self.env[n]
            if n in self.defs:
                kind, x = self.defs[n]
                xv = self.ev(x)
                r = {"sqrt": lambda t: math.sqrt(max(t, 0.0)), "exp": math.exp, "sin": math.sin, "cos": math.cos, "log": math.log}[kind](xv)
                self.env[n] = r
                return r
            raise KeyError("FEval: no value for %s" % n)
        k = e.decl().kind()
        ch = e.children()
        if k == z3.Z3_OP_ADD:
            return sum(self.ev(c) for c in ch)
        if k == z3.Z3_OP_MUL:
            r = 1.0
            for c in ch:
                r *= self.ev(c)
            return r
        if k == z3.Z3_OP_SUB:
            r = self.ev(ch[0])
            for c in ch[1:]:
                r -= self.ev(c)
            return r
        if k == z3.Z3_OP_UMINUS:
            return -self.ev(ch[0])
        if k == z3.Z3_OP_DIV:
            return self.ev(ch[0]) / self.ev(ch[1])
        if k == z3.Z3_OP_POWER:
            return self.ev(ch[0]) ** self.ev(ch[1])
        if k == z3.Z3_OP_ITE:
            return self.ev(ch[1]) if self.ev(ch[0]) else self.ev(ch[2])
        if k == z3.Z3_OP_LE:
            return self.ev(ch[0]) <= self.ev(ch[1])
        if k == z3.Z3_OP_LT:
            return self.ev(ch[0]) < self.ev(ch[1])
        if k == z3.Z3_OP_GE:
            return self.ev(ch[0]) >= self.ev(ch[1])
        if k == z3.Z3_OP_GT:
            return self.ev(ch[0]) > self.ev(ch[1])
        if k == z3.Z3_OP_EQ:
            return self.ev(ch[0]) == self.ev(ch[1])
        if k == z3.Z3_OP_DISTINCT:
            return self.ev(ch[0]) != self.ev(ch[1])
        if k == z3.Z3_OP_AND:
            return all(self.ev(c) for c in ch)
        if k == z3.Z3_OP_OR:
            return any(self.ev(c) for c in ch)
        if k == z3.Z3_OP_NOT:
            return not self.ev(ch[0])
        if k == z3.Z3_OP_IMPLIES:
            return (not self.ev(ch[0])) or self.ev(ch[1])
        if k == z3.Z3_OP_XOR:
            return bool(self.ev(ch[0])) != bool(self.ev(ch[1]))
        if k == z3.Z3_OP_TO_REAL:
            return self.ev(ch[0])
        raise NotImplementedError("FEval: %s" % e.decl())


def feval_tensor(t, env, defs=None, tangent=None):
    """numpy float array of a SymTensor under a float assignment of the input variables"""
    fe = env if isinstance(env, FEval) else FEval(env, defs)
    a = t.a if isinstance(t, SymTensor) else np.asarray(t, dtype=object)
    out = np.empty(a.shape, dtype=bool if (isinstance(t, SymTensor) and t.isbool) else float)
    for k in np.ndindex(a.shape):
        e = a[k]
        if isinstance(e, Dual):
            e = e.v if tangent is None else e.t[tangent]
        out[k] = fe(e)
    return out
