"""Deciding identities that contain several independent square roots.

nlsat stalls on  E(r, p, s_1..s_m) == 0  with side conditions s_k >= 0, s_k^2 == rad_k(r, p)  once m exceeds 3-4.  The
expression is therefore brought to the normal form

        E  =  ( sum_S  c_S(r, p) * prod_{k in S} s_k ) / D(r, p, s)          (multilinear in the s_k)

by sympy (put on a common denominator, reduce s_k^2 -> rad_k in the numerator); every coefficient polynomial c_S is then
handed to the SMT solver as the obligation  c_S == 0.  If all of them are discharged, E == 0 wherever D != 0, for every value
of the roots (no independence assumption is needed for that direction).  The normal form is produced by a translator, so the
caller validates it numerically (`validate`) before trusting it; a coefficient that the solver refutes is a counterexample
candidate and is replayed on the real code like any other."""
import random
from fractions import Fraction

import sympy as sp
import z3

from . import canon
from . import symtorch as S


def aux_table():
    """{z3 aux var name: (aux var, radicand)} of every sqrt auxiliary introduced so far"""
    return {str(s): (s, rad) for (s, rad) in S.ST.sq.values()}


def coefficients(e, assume_nonzero=()):
    """z3 term -> (list of (label, z3 polynomial c_S), sympy bundle for validation)"""
    env = {}
    x = canon.z2s(z3.simplify(e), env)
    table = aux_table()
    sym_of = {name: env[name][0] for name in table if name in env}
    rads = {}
    for name, sym in sym_of.items():
        rads[sym] = canon.z2s(z3.simplify(table[name][1]), env)
    num, den = sp.fraction(sp.together(x))
    num = sp.expand(num)
    auxs = sorted(rads, key=str)
    if not auxs:
        return [("1", canon.s2z(num, env))], (num, num, rads)
    P = sp.Poly(num, *auxs)
    red = {}
    for mon, coef in P.terms():
        c = coef
        key = []
        for s, k in zip(auxs, mon):
            c = c * rads[s] ** (k // 2)
            if k % 2:
                key.append(s)
        key = tuple(key)
        red[key] = red.get(key, 0) + c
    out = []
    reduced = sp.Integer(0)
    for key, c in red.items():
        c = sp.expand(c)
        if c == 0:
            continue
        reduced += c * sp.Mul(*key)
        n2, d2 = sp.fraction(sp.together(c))
        out.append(("*".join(str(k) for k in key) or "1", canon.s2z(sp.expand(n2), env)))
    return out, (num, reduced, rads)


def validate(bundle, ntries=3, seed=0):
    """numeric check of the reduction step: at random positive points with s_k = sqrt(rad_k) the reduced normal form equals
    the expanded numerator it was derived from; the deviation is measured against the sum of the absolute values of the
    numerator's terms (the numerator itself may be identically zero).  inf if no point could be evaluated"""
    num, reduced, rads = bundle
    rng = random.Random(seed)
    syms = set(num.free_symbols) | set(reduced.free_symbols)
    for r_ in rads.values():
        syms |= set(r_.free_symbols)
    free = sorted((s for s in syms if s not in rads), key=str)
    terms = sp.Add.make_args(num)
    worst, done = 0.0, 0
    for _ in range(ntries * 4):
        pt = {s: sp.Float(rng.uniform(0.5, 2.0), 40) for s in free}
        ok = True
        pending = dict(rads)
        for _round in range(len(pending) + 1):
            for s, r_ in list(pending.items()):
                v = sp.N(r_.subs(pt), 40)
                if v.free_symbols:
                    continue
                if not (v > 0):
                    ok = False
                pt[s] = sp.sqrt(v) if v > 0 else sp.Float(1)
                del pending[s]
            if not pending:
                break
        if pending or not ok:
            continue
        a = sp.N(num.subs(pt), 30)
        b = sp.N(reduced.subs(pt), 30)
        scale = sum(abs(sp.N(t.subs(pt), 30)) for t in terms[:200]) + sp.Float(1e-30)
        if a.free_symbols or b.free_symbols:
            continue
        worst = max(worst, float(abs(a - b) / scale))
        done += 1
        if done >= ntries:
            break
    return worst if done else float("inf")
