"""Run CrossHair (symbolic execution of Python with z3) on generated contract modules, in parallel, and parse verdicts."""
import concurrent.futures as cf
import os
import re
import shutil
import subprocess
import sys
import tempfile
import time

VERIF = os.path.dirname(os.path.dirname(os.path.abspath(__file__)))

HEADER = '''import sys, warnings
sys.path.insert(0, %r)
warnings.filterwarnings("ignore")
''' % VERIF


class Slice:
    def __init__(self, name, prelude, signature, pre, body, post="_", timeout_s=300):
        """a single CrossHair condition: def name(signature) -> bool with `pre:`/`post:`"""
        self.name, self.prelude, self.signature, self.pre, self.body, self.post, self.timeout_s = name, prelude, signature, pre, body, post, timeout_s

    def source(self):
        return "%s%s\n\ndef %s(%s) -> bool:\n    \"\"\"\n    pre: %s\n    post: %s\n    \"\"\"\n%s\n" % (HEADER, self.prelude, self.name, self.signature, self.pre, self.post, "\n".join("    " + l for l in self.body.splitlines()))


_RE_CEX = re.compile(r"error: (false|.*?) when calling (\w+)\((.*)\) \(which (returns|raises)(.*)\)\s*$")


def run_slice(sl, scratch):
    path = os.path.join(scratch, sl.name + ".py")
    with open(path, "w") as fh:
        fh.write(sl.source())
    env = dict(os.environ)
    env.update(PYTHONPATH=VERIF + os.pathsep + os.environ.get("VERIF_REPO", "/repo"), PYTHONDONTWRITEBYTECODE="1", OMP_NUM_THREADS="1", PYTHONWARNINGS="ignore")
    t0 = time.time()
    try:
        p = subprocess.run(
            [sys.executable, "-m", "crosshair", "check", "--report_all", "--per_condition_timeout", str(sl.timeout_s), "--per_path_timeout", str(max(30, sl.timeout_s // 4)), path],
            cwd=scratch, env=env, capture_output=True, text=True, timeout=sl.timeout_s * 2 + 120,
        )
        out = p.stdout + p.stderr
    except subprocess.TimeoutExpired as e:
        out = "TIMEOUT " + str(e)
    dt = time.time() - t0
    res = {"name": sl.name, "seconds": round(dt, 1), "raw": out.strip()[-1500:], "pre": sl.pre}
    if "Confirmed over all paths" in out:
        res["verdict"] = "confirmed"
    elif "error:" in out and "when calling" in out:
        res["verdict"] = "counterexample"
        m = None
        for line in out.splitlines():
            m = _RE_CEX.search(line) or m
        if m:
            res["call"] = "%s(%s)" % (m.group(2), m.group(3))
            res["args"] = m.group(3)
            res["kind"] = m.group(4)
        else:
            res["verdict"] = "error"
    elif "Not confirmed" in out or "Unable to meet precondition" in out or "TIMEOUT" in out:
        res["verdict"] = "inconclusive"
    else:
        res["verdict"] = "error"
    return res


def run_slices(slices, jobs=16):
    scratch = tempfile.mkdtemp(prefix="verif_ch_")
    try:
        with cf.ThreadPoolExecutor(max_workers=jobs) as ex:
            return list(ex.map(lambda s: run_slice(s, scratch), slices))
    finally:
        shutil.rmtree(scratch, ignore_errors=True)


def parse_int_args(argstr):
    """'0, 2, 3' or 'a=0, b=2' -> list of ints"""
    vals = []
    for tok in argstr.split(","):
        tok = tok.strip()
        if "=" in tok:
            tok = tok.split("=", 1)[1].strip()
        if tok in ("True", "False"):
            vals.append(tok == "True")
        else:
            vals.append(int(tok))
    return vals
