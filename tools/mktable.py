#!/usr/bin/env python3
"""Regenerate the seeded-change detection table in DESIGN.md from seeded/*/meta.json + detection.json"""
import glob, json, os, re
V = os.path.dirname(os.path.dirname(os.path.abspath(__file__)))
rows = []
for d in sorted(glob.glob(os.path.join(V, "seeded", "*"))):
    sid = os.path.basename(d)
    m = json.load(open(os.path.join(d, "meta.json")))
    det = json.load(open(os.path.join(d, "detection.json"))) if os.path.exists(os.path.join(d, "detection.json")) else {"results": {}, "detected_by": []}
    what = (m.get("breaks") or "").replace("|", "/").replace("\n", " ")
    what = what[:150] + ("..." if len(what) > 150 else "")
    files = ",".join(os.path.basename(f) for f in m.get("files_touched", [])[:2])
    caught = ", ".join(det["detected_by"]) if det["detected_by"] else "**missed**"
    ran = ", ".join("%s:%s" % (k, {0: "pass", 1: "VIOLATION", 3: "harness-error", 2: "n/a"}.get(v, v)) for k, v in det["results"].items())
    note = ""
    if os.path.exists(os.path.join(d, "note.txt")):
        note = open(os.path.join(d, "note.txt")).read().strip().replace("\n", " ")
    rows.append("| %s | %s | %s | %s | %s |" % (sid, files, what, caught, note or ran))
n = len(rows)
caught = sum(1 for r in rows if "**missed**" not in r)
table = "Detected: %d of %d seeded changes (quick tier).\n\n| seed | file | what it breaks (author's summary) | caught by | checks run / note |\n|---|---|---|---|---|\n" % (caught, n) + "\n".join(rows)
p = os.path.join(V, "DESIGN.md")
s = open(p).read()
if "DETECTION_TABLE_PLACEHOLDER" in s:
    s = s.replace("DETECTION_TABLE_PLACEHOLDER", "<!-- detection-table:begin -->\n" + table + "\n<!-- detection-table:end -->")
else:
    s = re.sub(r"<!-- detection-table:begin -->.*?<!-- detection-table:end -->", lambda m_: "<!-- detection-table:begin -->\n" + table + "\n<!-- detection-table:end -->", s, flags=re.S)
open(p, "w").write(s)
print("table: %d/%d caught" % (caught, n))
