#!/bin/bash
# usage: tools/seed_verify.sh <seed-id> <src-dir>   e.g. C10-m1 /tmp/mut/C10/_out/m1
# Confirms, in a scratch worktree of /repo's HEAD: demo passes on the clean tree, patch applies, demo fails with it,
# the repository's test suite still passes (same 64 + the 1 known failure).  Stores the seed under /verif/seeded/<id>/.
set -u
ID="$1"; SRC="$2"
VERIF="$(cd "$(dirname "$0")/.." && pwd)"
DST="$VERIF/seeded/$ID"; mkdir -p "$DST"
cp "$SRC/patch.diff" "$SRC/demo.py" "$DST/" 2>/dev/null
[ -f "$SRC/meta.json" ] && cp "$SRC/meta.json" "$DST/agent_meta.json"
WT="/tmp/seedwt/$ID"; rm -rf "$WT"; mkdir -p /tmp/seedwt
git -C /repo worktree add -q --detach "$WT" HEAD || exit 2
cp "$DST/demo.py" "$WT/_demo.py"
run() { (cd "$WT" && PYTHONDONTWRITEBYTECODE=1 PYTHONPATH="$WT" OMP_NUM_THREADS=2 timeout 1500 /venv/bin/python "$@"); }
run _demo.py > "$DST/demo_clean.log" 2>&1; RC_CLEAN=$?
if git -C "$WT" apply --check "$DST/patch.diff" 2>/dev/null; then git -C "$WT" apply "$DST/patch.diff"; APPLIED=1; else APPLIED=0; fi
run _demo.py > "$DST/demo_patched.log" 2>&1; RC_PATCHED=$?
run -m pytest -q -p no:cacheprovider --timeout=900 tests > "$DST/tests_patched.log" 2>&1
SUMMARY="$(tail -1 "$DST/tests_patched.log")"
FAILED="$(grep '^FAILED' "$DST/tests_patched.log" | tr '\n' ';')"
git -C /repo worktree remove --force "$WT"
python3 - "$DST" "$ID" "$RC_CLEAN" "$RC_PATCHED" "$APPLIED" "$SUMMARY" "$FAILED" <<'PY'
import json,sys,os
dst,id_,rc0,rc1,applied,summary,failed=sys.argv[1:8]
ok = rc0=='0' and rc1!='0' and applied=='1' and (('65 passed' in summary and failed.count('FAILED')==0) or ('64 passed' in summary and failed.count('FAILED')==1 and 'test_nonadiabatic_checkpoint_resume_surface_hopping' in failed))
json.dump({"id":id_,"demo_rc_clean":int(rc0),"demo_rc_patched":int(rc1),"patch_applied":applied=='1',"tests_summary":summary,"tests_failed":failed,"confirmed":ok,
 "ran":["demo on clean worktree of /repo HEAD","git apply patch.diff","demo on patched worktree","pytest -q --timeout=900 tests on patched worktree"]},open(os.path.join(dst,"verify.json"),"w"),indent=1)
print(id_, "CONFIRMED" if ok else "NOT-CONFIRMED", rc0, rc1, applied, summary)
PY
