#!/usr/bin/env python3
"""build seeded/<id>/meta.json from the sub-agent's agent_meta.json and my own verify.json (only where meta.json is missing)"""
import json, os, re, sys

V = os.path.dirname(os.path.dirname(os.path.abspath(__file__)))
for d in sorted(os.listdir(os.path.join(V, "seeded"))):
    p = os.path.join(V, "seeded", d)
    if os.path.exists(os.path.join(p, "meta.json")) or not os.path.exists(os.path.join(p, "verify.json")):
        continue
    am = {}
    try:
        am = json.load(open(os.path.join(p, "agent_meta.json")))
    except Exception:
        pass
    ver = json.load(open(os.path.join(p, "verify.json")))
    files = sorted(set(re.findall(r"^\+\+\+ b/(\S+)", open(os.path.join(p, "patch.diff")).read(), re.M)))
    get = lambda *ks: next((am[k] for k in ks if k in am and am[k]), "")
    meta = {
        "id": d,
        "property": d.split("-")[0],
        "breaks": get("summary", "breaks", "what", "description", "change"),
        "needs_to_manifest": get("needs_to_manifest", "needs", "trigger", "manifests_when"),
        "files_touched": files,
        "confirmed_by_me": bool(ver.get("confirmed")),
        "what_i_ran": ver.get("ran", []),
        "tests_summary": ver.get("tests_summary"),
        "demo_rc_clean": ver.get("demo_rc_clean"),
        "demo_rc_patched": ver.get("demo_rc_patched"),
    }
    json.dump(meta, open(os.path.join(p, "meta.json"), "w"), indent=1)
    print(d, "breaks:", len(str(meta["breaks"])), "needs:", len(str(meta["needs_to_manifest"])))
