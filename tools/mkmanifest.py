#!/usr/bin/env python3
"""Regenerate /verif/MANIFEST.json from the table below (keeps it schema-valid at all times)."""
import json
import os

VERIF = os.path.dirname(os.path.dirname(os.path.abspath(__file__)))

# property -> (technique, level text, level note, design ref)
CLAIMS = {}


def claim(pid, technique, text, note, ref):
    CLAIMS[pid] = dict(technique=technique, text=text, note=note, ref=ref)


NOT_APPLICABLE = {}


def amend(pid, technique_add=None, text_add=None, note=None):
    """later rounds: extend a claim without rewriting it"""
    c = CLAIMS[pid]
    if technique_add:
        c["technique"] += "; " + technique_add
    if text_add:
        c["text"] += " " + text_add
    if note is not None:
        c["note"] = note


exec(open(os.path.join(VERIF, "tools", "claims.py")).read())

props = [json.loads(l)["id"] for l in open(os.path.join(VERIF, "properties.jsonl"))]
checks = []
for pid in props:
    if pid in CLAIMS and os.path.exists(os.path.join(VERIF, "harness", pid + ".py")):
        c = CLAIMS[pid]
        checks.append(
            {
                "property_id": pid,
                "quick_cmd": "./check %s --tier quick" % pid,
                "thorough_cmd": "./check %s --tier thorough" % pid,
                "evidence_file": "/verif/evidence/%s.json" % pid,
                "replay_cmd_template": "./check --replay {path}",
                "engine": "symtorch+z3" if "CrossHair" not in c["technique"] else "symtorch+z3, crosshair",
                "level_claimed": {"category": "other", "text": c["text"], "design_ref": c["ref"]},
                "level_note": c["note"],
                "technique": c["technique"],
            }
        )
na = [{"property_id": pid, "reason": NOT_APPLICABLE.get(pid, "no check built yet in this round; planned obligations are in DESIGN.md section 1")} for pid in props if pid not in {c["property_id"] for c in checks}]
manifest = {
    "version": 1,
    "setup_cmd": "./setup.sh",
    "hooks": {
        "guard": "LANL_PYSEQM_VERIF",
        "enable": "no source hooks: all instrumentation is monkey-patching inside the harness process; checks export LANL_PYSEQM_VERIF=1 for forward compatibility",
        "baseline_off_cmd": "cd /repo && env -u LANL_PYSEQM_VERIF /venv/bin/python -m pytest -ra -q -p no:cacheprovider --timeout=900 --continue-on-collection-errors",
        "source_commits": [],
        "add_only": True,
    },
    "engines": [
        {"name": "symtorch+z3", "path": "engine/symtorch.py", "serves_properties": [c["property_id"] for c in checks], "kind_free_text": "symbolic execution of the unmodified PyTorch functions on tensors of z3 terms (__torch_function__), path forking by re-execution, exact dual-number derivatives, SMT (z3 5.1, cvc5 cross-check) per output element; counterexamples replayed on the real float64 code"},
        {"name": "crosshair", "path": "ch/", "serves_properties": [c["property_id"] for c in checks if "CrossHair" in c["technique"]], "kind_free_text": "CrossHair 0.0.110 symbolic execution of the pure-Python control logic (MD run loop, writers, checkpointing, guards) with symbolic integers"},
    ],
    "checks": checks,
    "notes": "Solver-based checking of the real code. Exit codes: 0 held on everything explored (known findings printed as KNOWN-FINDING lines), 1 violation (replayed on the real code), 3 harness error (encoding could not be built/validated; never a verdict). Known findings: /verif/known_findings.json.",
    "not_applicable": na,
}
with open(os.path.join(VERIF, "MANIFEST.json"), "w") as fh:
    json.dump(manifest, fh, indent=1)
print("MANIFEST: %d checks, %d not_applicable" % (len(checks), len(na)))
try:
    import jsonschema

    jsonschema.validate(manifest, json.load(open("/root/.vp/MANIFEST.schema.json")))
    print("schema: valid")
except ImportError:
    print("jsonschema not available; not validated")
