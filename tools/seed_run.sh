#!/bin/bash
# usage: tools/seed_run.sh <seed-id> <property> [tier] : apply the seeded patch to /repo, run the property's check, undo.
set -u
ID="$1"; PID="$2"; TIER="${3:-quick}"
VERIF="$(cd "$(dirname "$0")/.." && pwd)"
cd /repo && git diff --quiet || { echo "/repo not clean"; exit 2; }
git -C /repo apply "$VERIF/seeded/$ID/patch.diff" 2>/dev/null || git -C /repo apply --3way "$VERIF/seeded/$ID/patch.diff" 2>/dev/null || { echo "patch does not apply"; git -C /repo reset -q --hard HEAD; exit 2; }
cd "$VERIF" && ./check "$PID" --tier "$TIER" > "/tmp/seedrun_${ID}_${PID}.log" 2>&1; RC=$?
git -C /repo reset -q --hard HEAD
echo "$ID $PID tier=$TIER rc=$RC $(grep -c '^VIOLATION' /tmp/seedrun_${ID}_${PID}.log) violation lines; $(grep -c HARNESS-ERROR /tmp/seedrun_${ID}_${PID}.log) harness errors"
grep -A1 '^VIOLATION' "/tmp/seedrun_${ID}_${PID}.log" | head -6
exit $RC
