# claims table (exec'd by mkmanifest.py)
claim("C02", "SMT (z3 NRA) over symbolic execution of the real torch functions; path forking; dual-number Lie derivative",
      "For every unit bond vector the local->molecular rotation actually returned by the code is a proper rotation with first row v and its analytic derivative is the exact derivative of what it returns; the rotated two-centre integrals are independent of the choice of the perpendicular axes (gauge) for arbitrary frames, so covariance of the integral tensors follows for all orientations, not for sampled ones. Counterexamples are replayed on float64 code and through a single-point calculation.",
      "Reals not IEEE floats; tensor shapes fixed (1 XX + 1 XH pair); rotation stubbed by free rows in the gauge obligation; excited-state vectors, d-orbital rotations and SCF-level invariance are outside the claim (DESIGN C02 'Outside').",
      "DESIGN.md §1 C02")
