#!/bin/bash
# usage: tools/seed_sweep_some.sh <tier> <glob>   like seed_sweep.sh but only for seeded/<glob>
TIER="${1:-quick}"; GLOB="${2:-*}"
VERIF="$(cd "$(dirname "$0")/.." && pwd)"
cd "$VERIF"
for d in seeded/$GLOB/; do
  ID="$(basename "$d")"
  PIDS="${ID%%-*}"
  [ -f "$d/also.txt" ] && PIDS="$PIDS $(cat "$d/also.txt")"
  RES=""
  for P in $PIDS; do
    OUT="$(tools/seed_run.sh "$ID" "$P" "$TIER" 2>&1 | head -1)"
    RC="$(echo "$OUT" | sed -n 's/.* rc=\([0-9]*\) .*/\1/p')"
    RES="$RES $P:${RC:-2}"
  done
  echo "$ID $RES"
  python3 - "$d" "$TIER" $RES <<'PY'
import json,sys,os
d,tier=sys.argv[1],sys.argv[2]
res={x.split(':')[0]:int(x.split(':')[1] or -1) for x in sys.argv[3:]}
det={"tier":tier,"results":res,"detected_by":[p for p,rc in res.items() if rc==1]}
json.dump(det,open(os.path.join(d,"detection.json"),"w"),indent=1)
m=json.load(open(os.path.join(d,"meta.json"))); m["detected_by"]=det["detected_by"]; m["checks_run"]=["./check %s --tier %s (patch applied to /repo, undone afterwards)"%(p,tier) for p in res]
json.dump(m,open(os.path.join(d,"meta.json"),"w"),indent=1)
PY
done
git -C "$VERIF" checkout -q -- evidence 2>/dev/null
